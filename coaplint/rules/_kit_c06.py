"""Helpers of rules/c06.py: a small symbolic path executor.

`SymExec(prog, fi).paths(...)` walks the CFG of ONE function (nothing is executed;
conditions are uninterpreted) and yields one `SPath` per consistent combination
of branch outcomes.  Along a path

* locals are forward-substituted (`env`), also when a name is assigned several
  times, in both arms of a branch, by tuple unpacking or by `+=`; attribute
  stores are remembered per chain (`self.x = v` makes a later `self.x` read `v`),
* every conditional construct is a *decision*: `if`/`while` tests, conditional
  expressions, `a or b` / `a and b` used as values, `min`/`max` of two numbers,
  and calls of side-effect-free helper functions that are not part of the
  confirmed tree (their bodies are evaluated in place, any number of returns),
* decisions are recorded in `Facts`: comparisons of polynomials are kept as
  integer intervals per non-constant part (so `a < b`, `b > a`, `not a >= b`,
  `a <= b - 1` are one fact and `a < b`, `a >= b + 3` cannot both be taken),
  everything else as truth values of normalised atoms (`is`/`==`, `is not`/`!=`,
  `in (A, B)` == `== A or == B`),
* the effects are recorded as events (bindings, attribute / item stores,
  deletions, expression statements, tests, returns, raises, handled exceptions)
  together with the environment in force, so that a rule can ask "what is the
  value of this argument here" and "which facts hold here" instead of looking at
  the shape of the surrounding statements.

Rules then quantify over paths: `sx.entails(path.facts, cond)` (cond holds in
every refinement of the path's facts), `sx.decide(cond, facts)` (all consistent
outcomes), `sx.calls(path)` (call sites executed on the path with resolved
callee and arguments).
"""

import ast
import math
from fractions import Fraction

from ..model import AnalysisError
from ..cfg import cfg_of
from ..pat import chain
from ..norm import Normalizer, Poly, NormError
from ..inline import baseline

INF = float("inf")
NORET = object()

MUTABLE_CTORS = {"list", "dict", "set", "bytearray", "collections.OrderedDict", "collections.defaultdict", "collections.deque", "OrderedDict", "defaultdict", "deque"}


def txt(e):
    return " ".join(ast.unparse(e).split())


def parse(src):
    return ast.parse(src, mode="eval").body


class Facts:
    """Conjunction of decided atoms.  Immutable: `assume` returns a new object or None (inconsistent)."""

    __slots__ = ("atoms", "iv")

    def __init__(self, atoms=None, iv=None):
        self.atoms = atoms or {}
        self.iv = iv or {}

    def describe(self):
        out = []
        for k, v in sorted(self.atoms.items(), key=repr):
            out.append(("" if v else "not ") + (" ".join(str(x) for x in (k[1:] if k[0] in ("truth", "expr") else (k[1], k[0], k[2]))) if isinstance(k, tuple) else str(k)))
        for k, (lo, hi, ex, label) in sorted(self.iv.items(), key=repr):
            text, pos, neg = label
            inner = text[4:-1] if text.startswith("len(") and text.endswith(")") and _balanced(text[4:-1]) else None
            if inner is not None and not ex and (lo, hi) in ((1, INF), (0, 0)):
                out.append(("" if lo else "not ") + inner)
                continue
            if inner is not None and lo == 0 and hi != 0:
                lo = -INF
            if pos is not None:  # q = pos - neg
                if lo == hi == 0:
                    out.append("%s == %s" % (pos, neg))
                    continue
                if (lo, hi) == (-INF, INF) and ex == {0}:
                    out.append("%s != %s" % (pos, neg))
                    continue
                if not ex and hi == INF and lo in (0, 1):
                    out.append("%s %s %s" % (pos, ">=" if lo == 0 else ">", neg))
                    continue
                if not ex and lo == -INF and hi in (0, -1):
                    out.append("%s %s %s" % (pos, "<=" if hi == 0 else "<", neg))
                    continue
            if lo == hi:
                out.append("%s == %s" % (text, lo))
                continue
            if lo != -INF:
                out.append("%s >= %s" % (text, lo))
            if hi != INF:
                out.append("%s <= %s" % (text, hi))
            for x in sorted(ex):
                out.append("%s != %s" % (text, x))
        return ", ".join(out) or "<unconditional>"


def _balanced(t):
    d = 0
    for ch in t:
        if ch == "(":
            d += 1
        elif ch == ")":
            d -= 1
            if d < 0:
                return False
    return d == 0


def _split(p):
    """poly p -> (qkey, q, sign, c) with p = sign*q + c, q sign-normalised and constant free; qkey None when p is constant."""
    c = p.t.get((), Fraction(0))
    q = Poly({k: v for k, v in p.t.items() if k != ()})
    if not q.t:
        return None, q, 1, c
    first = sorted(q.t.items())[0][1]
    s = 1
    if first < 0:
        q = -q
        s = -1
    return q.key(), q, s, c


def _default_iv(q, domains=None):
    """what is known about the value of q without any decision: lengths are non-negative, declared integer domains"""
    lo, hi = -INF, INF
    if len(q.t) == 1:
        (mono, coef), = q.t.items()
        if coef == 1 and len(mono) == 1 and mono[0][1] == 1:
            if mono[0][0].startswith("len("):
                lo = 0
            elif domains and mono[0][0] in domains:
                lo, hi = domains[mono[0][0]]
    pos = neg = None
    if len(q.t) == 2 and sorted(q.t.values()) == [-1, 1]:
        for mono, coef in q.t.items():
            name = "*".join(a if p_ == 1 else "%s^%d" % (a, p_) for a, p_ in mono)
            if coef == 1:
                pos = name
            else:
                neg = name
    return (lo, hi, frozenset(), (repr(q), pos, neg))


class Ev:
    """One effect on a path."""

    __slots__ = ("kind", "nid", "node", "target", "key", "value", "env", "chains", "facts", "outcome", "raw")

    def __init__(self, kind, nid, node, env, chains, facts, target=None, key=None, value=None, outcome=None, raw=None):
        self.kind = kind  # bind store setitem del delitem expr test ret raise exc handler for def
        self.nid = nid
        self.node = node  # statement / test AST (original)
        self.target = target  # resolved target (store: attribute expr; setitem/delitem: container expr; bind: name)
        self.key = key  # resolved subscript key (setitem / delitem)
        self.value = value  # resolved value
        self.env = env
        self.chains = chains
        self.facts = facts  # facts in force when the effect happens
        self.outcome = outcome
        self.raw = raw  # original expression whose call sites belong to this event

    def __repr__(self):
        return "<%s %s>" % (self.kind, txt(self.node)[:60] if isinstance(self.node, ast.AST) else self.node)


class SPath:
    __slots__ = ("nodes", "events", "facts", "env", "chains", "end", "ret", "objs", "defs")

    def __init__(self, nodes, events, facts, env, chains, end, ret, objs, defs):
        self.nodes = nodes
        self.events = events
        self.facts = facts
        self.env = env
        self.chains = chains
        self.end = end  # return | fall | raise | cut
        self.ret = ret  # resolved return value (None when falling off the end)
        self.objs = objs  # local name -> creating expression of a mutable object (names kept symbolic)
        self.defs = defs  # local name -> nested FunctionDef

    def evs(self, *kinds):
        return [e for e in self.events if e.kind in kinds]

    def raised(self):
        """the raise event that ends the path, or None"""
        if self.end != "raise":
            return None
        for e in reversed(self.events):
            if e.kind == "raise":
                return e
        return None


class _State:
    __slots__ = ("env", "chains", "facts", "events", "nodes", "cnt", "ret", "objs", "defs", "fresh")

    def __init__(self, env, chains, facts, events, nodes, cnt, ret, objs, defs, fresh):
        self.env, self.chains, self.facts, self.events, self.nodes = env, chains, facts, events, nodes
        self.cnt, self.ret, self.objs, self.defs, self.fresh = cnt, ret, objs, defs, fresh

    def but(self, **kw):
        s = _State(self.env, self.chains, self.facts, self.events, self.nodes, self.cnt, self.ret, self.objs, self.defs, self.fresh)
        for k, v in kw.items():
            setattr(s, k, v)
        return s


class _Subst(ast.NodeTransformer):
    """Replace free local names (and stored attribute chains) by their resolved values.  Never mutates the input."""

    def __init__(self, env, chains, bound=frozenset()):
        self.env = env
        self.chains = chains
        self.bound = bound

    def generic_visit(self, node):
        # non-destructive generic_visit
        changes = {}
        for field, old in ast.iter_fields(node):
            if isinstance(old, list):
                new = []
                ch = False
                for x in old:
                    if isinstance(x, ast.AST):
                        y = self.visit(x)
                        ch = ch or (y is not x)
                        new.append(y)
                    else:
                        new.append(x)
                if ch:
                    changes[field] = new
            elif isinstance(old, ast.AST):
                y = self.visit(old)
                if y is not old:
                    changes[field] = y
        if not changes:
            return node
        kw = dict(ast.iter_fields(node))
        kw.update(changes)
        n = type(node)(**kw)
        return ast.copy_location(n, node)

    def visit_Name(self, n):
        if n.id in self.bound or not isinstance(n.ctx, ast.Load):
            return n
        v = self.env.get(n.id)
        return n if v is None else v

    def visit_Attribute(self, n):
        if self.chains:
            c = chain(n)
            if c is not None and c in self.chains and c.split(".")[0] not in self.bound:
                return self.chains[c]
        return self.generic_visit(n)

    def visit_Lambda(self, n):
        a = n.args
        b = {x.arg for x in a.posonlyargs + a.args + a.kwonlyargs}
        if a.vararg:
            b.add(a.vararg.arg)
        if a.kwarg:
            b.add(a.kwarg.arg)
        # the body reads its free variables when the lambda is *called* (late binding): it is left alone here and
        # resolved by `callable_body` at the event of the invocation; default values are evaluated at creation
        defaults = [self.visit(d) for d in a.defaults]
        kw_defaults = [None if d is None else self.visit(d) for d in a.kw_defaults]
        if all(x is y for x, y in zip(defaults, a.defaults)) and all(x is y for x, y in zip(kw_defaults, a.kw_defaults)):
            return n
        na = ast.arguments(posonlyargs=a.posonlyargs, args=a.args, vararg=a.vararg, kwonlyargs=a.kwonlyargs, kw_defaults=kw_defaults, kwarg=a.kwarg, defaults=defaults)
        return ast.copy_location(ast.Lambda(args=na, body=n.body), n)

    def _comp(self, n):
        b = set()
        for g in n.generators:
            for x in ast.walk(g.target):
                if isinstance(x, ast.Name):
                    b.add(x.id)
        sub = _Subst(self.env, self.chains, self.bound | b)
        return _Subst.generic_visit(sub, n)

    visit_ListComp = visit_SetComp = visit_DictComp = visit_GeneratorExp = _comp


class _Repl(_Subst):
    """replace given nodes (by identity) in an expression; never mutates the input"""

    def __init__(self, repl):
        _Subst.__init__(self, {}, {})
        self.repl = repl

    def visit(self, node):
        if id(node) in self.repl:
            return self.repl[id(node)]
        return _Subst.visit(self, node)

    def visit_Name(self, n):
        return n

    def visit_Lambda(self, n):
        return n

    def _comp(self, n):
        return n

    visit_ListComp = visit_SetComp = visit_DictComp = visit_GeneratorExp = _comp


class _Canon(_Subst):
    """one spelling for a component of a declared namedtuple value: `v[i]` becomes `v.<field i>`"""

    def __init__(self, sx):
        _Subst.__init__(self, {}, {})
        self.sx = sx

    def visit_Name(self, n):
        return n

    def visit_Attribute(self, n):
        return self.generic_visit(n)

    def visit_Lambda(self, n):
        return n

    def _comp(self, n):
        return n

    visit_ListComp = visit_SetComp = visit_DictComp = visit_GeneratorExp = _comp

    def visit_Subscript(self, n):
        n = self.generic_visit(n)
        if isinstance(n.ctx, ast.Load) and isinstance(n.slice, ast.Constant) and type(n.slice.value) is int:
            vt = self.sx._vtype(n.value)
            if vt is not None and 0 <= n.slice.value < len(vt[1]):
                return ast.copy_location(ast.Attribute(value=n.value, attr=vt[1][n.slice.value], ctx=ast.Load()), n)
            if isinstance(n.value, ast.Tuple) and not any(isinstance(x, ast.Starred) for x in n.value.elts) and -len(n.value.elts) <= n.slice.value < len(n.value.elts):
                return n.value.elts[n.slice.value]
        return n

    def visit_BinOp(self, n):
        n = self.generic_visit(n)
        # (a, b) * 2 is (a, b, a, b); (a,) + (b,) is (a, b)
        if isinstance(n.op, ast.Mult):
            for t, k in ((n.left, n.right), (n.right, n.left)):
                if isinstance(t, ast.Tuple) and isinstance(k, ast.Constant) and type(k.value) is int and 0 <= k.value <= 8 and not any(isinstance(x, ast.Starred) for x in t.elts):
                    return ast.copy_location(ast.Tuple(elts=list(t.elts) * k.value, ctx=ast.Load()), n)
        if isinstance(n.op, ast.Add) and isinstance(n.left, ast.Tuple) and isinstance(n.right, ast.Tuple) and not any(isinstance(x, ast.Starred) for x in n.left.elts + n.right.elts):
            return ast.copy_location(ast.Tuple(elts=list(n.left.elts) + list(n.right.elts), ctx=ast.Load()), n)
        return n

    def _flat(self, elts):
        """`*(a, b)` inside a display / an argument list is `a, b`"""
        out = []
        ch = False
        for x in elts:
            if isinstance(x, ast.Starred) and isinstance(x.value, (ast.Tuple, ast.List)) and not any(isinstance(y, ast.Starred) for y in x.value.elts):
                out.extend(x.value.elts)
                ch = True
            else:
                out.append(x)
        return out if ch else None

    def visit_Tuple(self, n):
        n = self.generic_visit(n)
        if isinstance(n.ctx, ast.Load):
            f = self._flat(n.elts)
            if f is not None:
                return ast.copy_location(ast.Tuple(elts=f, ctx=ast.Load()), n)
        return n

    def visit_Call(self, n):
        n = self.generic_visit(n)
        f = self._flat(n.args)
        if f is not None:
            n = ast.copy_location(ast.Call(func=n.func, args=f, keywords=n.keywords), n)
        g = n.func
        fname = chain(g)
        if fname == "getattr" and len(n.args) == 2 and not n.keywords and isinstance(n.args[1], ast.Constant) and isinstance(n.args[1].value, str) and n.args[1].value.isidentifier() and not isinstance(n.args[0], ast.Starred):
            return ast.copy_location(ast.Attribute(value=n.args[0], attr=n.args[1].value, ctx=ast.Load()), n)
        if fname == "super" and len(n.args) == 2 and not n.keywords and chain(n.args[1]) == "self" and isinstance(n.args[0], ast.Name):
            cls = getattr(getattr(self.sx, "fi", None), "cls", None)
            if cls is not None and getattr(getattr(cls, "node", None), "name", None) == n.args[0].id:
                return ast.copy_location(ast.Call(func=n.func, args=[], keywords=[]), n)
        if isinstance(g, ast.Call) and not any(isinstance(a, ast.Starred) for a in g.args) and not any(k.arg is None for k in g.keywords):
            name = (chain(g.func) or "").split(".")[-1]
            if name == "partial" and g.args:
                # functools.partial(f, a.., k=..)(b.., k2=..) is f(a.., b.., k=.., k2=..)
                later = {k.arg for k in n.keywords if k.arg is not None}
                kws = [k for k in g.keywords if k.arg not in later] + list(n.keywords)
                return ast.copy_location(ast.Call(func=g.args[0], args=list(g.args[1:]) + list(n.args), keywords=kws), n)
            if name in ("attrgetter", "itemgetter") and g.args and not g.keywords and len(n.args) == 1 and not n.keywords and not isinstance(n.args[0], ast.Starred):
                got = []
                for a in g.args:
                    if name == "attrgetter":
                        if not (isinstance(a, ast.Constant) and isinstance(a.value, str) and all(p.isidentifier() for p in a.value.split("."))):
                            return n
                        v = n.args[0]
                        for part in a.value.split("."):
                            v = ast.Attribute(value=v, attr=part, ctx=ast.Load())
                        got.append(v)
                    else:
                        got.append(self.visit_Subscript(ast.Subscript(value=n.args[0], slice=a, ctx=ast.Load())) if isinstance(a, ast.Constant) else ast.Subscript(value=n.args[0], slice=a, ctx=ast.Load()))
                r = got[0] if len(got) == 1 else ast.Tuple(elts=got, ctx=ast.Load())
                return ast.copy_location(r, n)
        return n


def free_of_forks(e, sx=None):
    """no conditional expression, boolean operator, min/max or helper call (evaluated in place) inside e"""
    for n in _walk_values(e):
        if isinstance(n, (ast.IfExp, ast.BoolOp)):
            return False
        if isinstance(n, ast.Call):
            if chain(n.func) in ("min", "max") and len(n.args) >= 2:
                return False
            if chain(n.func) in ("any", "all") and len(n.args) == 1 and not n.keywords and isinstance(n.args[0], (ast.Tuple, ast.List)):
                return False
            if chain(n.func) == "divmod" and len(n.args) == 2 and not n.keywords:
                return False
            if sx is not None and sx._aggregate(n) is not None:
                return False
            if sx is not None and sx._inlinable(n):
                return False
        if sx is not None and isinstance(n, ast.Attribute) and sx._typed_prop(n) is not None:
            return False
    return True


def _walk_values(e):
    """walk an expression without entering lambdas / comprehensions"""
    todo = [e]
    while todo:
        n = todo.pop()
        yield n
        if isinstance(n, (ast.Lambda, ast.ListComp, ast.SetComp, ast.DictComp, ast.GeneratorExp)):
            continue
        todo.extend(ast.iter_child_nodes(n))


class SymExec:
    def __init__(self, prog, fi, loop_bound=1, include_exc=True, max_paths=4000, inline_depth=3, _depth=0):
        self.prog = prog
        self.fi = fi
        self.cfg = cfg_of(fi) if fi is not None else None
        self.loop_bound = loop_bound
        self.include_exc = include_exc
        self.max_paths = max_paths
        self.N = Normalizer()
        self.inline_depth = inline_depth
        self._depth = _depth
        self._defs_now = {}
        self._env_now = {}
        self._objs_now = {}
        self._inl_cache = {}
        # expression texts X whose value is None or a non-empty tuple: truth(X) is the same fact as `X is not None`
        self.nonempty_when_set = set()
        # attribute chain text -> (lo, hi): integer-valued expressions with a known range; their truth is `!= 0`
        self.domains = {}
        self.inlined = []  # qualified names of helpers evaluated in place
        # [(predicate on a resolved expression, ClassInfo, field names)]: values of a namedtuple class of the program.
        # `v[i]` and `v.field_i` are the same value (one canonical spelling), its properties and side-effect-free
        # methods are evaluated in place (so `b.is_bert`, `b.size_exponent == 7`, `b.is_valid_for_payload_size(n)` and
        # the spelled-out comparison are the same facts)
        self.value_types = []
        self._modenv = None
        self.followed = set()  # helpers with effects whose paths were spliced into the caller's

    # ------------------------------------------------------------------ atoms
    def _atom(self, e):
        """classify a fork-free atomic condition:
        ('const', bool) | ('iv', qkey, q, sign, c, op) with op in lt/eq/ne | ('bool', key, polarity)"""
        if isinstance(e, ast.Constant):
            return ("const", bool(e.value))
        if isinstance(e, (ast.Tuple, ast.List, ast.Set)):
            return ("const", bool(e.elts))
        if isinstance(e, ast.Dict):
            return ("const", bool(e.keys))
        if isinstance(e, ast.Compare) and len(e.ops) == 1:
            op = e.ops[0]
            l, r = e.left, e.comparators[0]
            if isinstance(op, (ast.Is, ast.IsNot)):
                op = ast.Eq() if isinstance(op, ast.Is) else ast.NotEq()
                e = ast.Compare(left=l, ops=[op], comparators=[r])
            if isinstance(op, (ast.In, ast.NotIn)):
                return ("bool", ("in", txt(l), txt(r)), isinstance(op, ast.In))
            try:
                c = self.N.cmp(e)
            except NormError:
                c = None
            if c is not None and c[0] in ("lt", "eq", "ne") and isinstance(c[1], Poly):
                qk, q, s, k = _split(c[1])
                if qk is None:
                    if c[0] == "lt":
                        return ("const", k < 0)
                    return ("const", (k == 0) == (c[0] == "eq"))
                return ("iv", qk, q, s, k, c[0])
            if c is not None and c[0] in ("eq", "ne"):
                a, b = sorted([c[1], c[2]])
                return ("bool", ("eq", a, b), c[0] == "eq")
            return ("bool", ("expr", txt(e)), True)
        if isinstance(e, ast.Call) and chain(e.func) == "bool" and len(e.args) == 1 and not e.keywords:
            return self._atom(e.args[0])
        if txt(e) in self.domains:
            return self._atom(ast.Compare(left=e, ops=[ast.NotEq()], comparators=[ast.Constant(value=0)]))
        if txt(e) in self.nonempty_when_set:
            return self._atom(ast.Compare(left=e, ops=[ast.IsNot()], comparators=[ast.Constant(value=None)]))
        # the truth of a number is `!= 0`: remainders, quotients, shifted values, powers (operators that sets / strings
        # do not have, `%` on a string constant excluded; `a - b` and `a & b` may be set operations and stay opaque)
        if isinstance(e, ast.BinOp) and isinstance(e.op, (ast.Mod, ast.FloorDiv, ast.LShift, ast.RShift, ast.Pow)) and not (isinstance(e.left, ast.Constant) and isinstance(e.left.value, (str, bytes))) and not isinstance(e.left, ast.JoinedStr):
            try:
                return self._atom(ast.Compare(left=e, ops=[ast.NotEq()], comparators=[ast.Constant(value=0)]))
            except NormError:
                pass
        # truth of a value is the fact `len(value) >= 1` over the opaque non-negative integer len(value): `if x`,
        # `if len(x)`, `len(x) == 0`, `len(x) > 0`, `not x` are then one family of facts.  (For values without a
        # length the symbol is merely a name for their truth.)
        if not isinstance(e, (ast.Compare, ast.BoolOp, ast.UnaryOp, ast.Lambda, ast.Await)):
            inner = e
            if isinstance(e, ast.Call) and chain(e.func) == "len" and len(e.args) == 1 and not e.keywords:
                inner = e.args[0]
            try:
                return self._atom(ast.Compare(left=ast.Call(func=ast.Name(id="len", ctx=ast.Load()), args=[inner], keywords=[]), ops=[ast.GtE()], comparators=[ast.Constant(value=1)]))
            except NormError:
                pass
        return ("bool", ("truth", txt(e)), True)

    def _eval_atom(self, a, facts):
        if a[0] == "const":
            return a[1]
        if a[0] == "bool":
            v = facts.atoms.get(a[1])
            return None if v is None else (v == a[2])
        _, qk, q, s, c, op = a
        lo, hi, ex, _label = facts.iv.get(qk) or _default_iv(q, self.domains)
        ilo, ihi = self._implied(q, facts)
        lo, hi = max(lo, ilo), min(hi, ihi)
        if op == "lt":
            if s > 0:  # q < -c  <=>  q <= T
                T = math.ceil(-c) - 1
                if hi <= T:
                    return True
                if lo >= T + 1:
                    return False
                return None
            B = math.floor(c) + 1  # q > c <=> q >= B
            if lo >= B:
                return True
            if hi <= B - 1:
                return False
            return None
        v = -c * s  # s*q + c == 0
        if v.denominator != 1:
            r = False
        elif v < lo or v > hi or v in ex:
            r = False
        elif lo == hi == v:
            r = True
        else:
            return None
        return r if op == "eq" else (not r)

    def _assume_atom(self, a, val, facts):
        """facts + (atom == val) or None when inconsistent"""
        cur = self._eval_atom(a, facts)
        if cur is not None:
            return facts if cur == val else None
        if a[0] == "bool":
            at = dict(facts.atoms)
            at[a[1]] = (val == a[2])
            return Facts(at, facts.iv)
        _, qk, q, s, c, op = a
        lo, hi, ex, label = facts.iv.get(qk) or _default_iv(q, self.domains)
        if op == "lt":
            if s > 0:
                T = math.ceil(-c) - 1
                if val:
                    hi = min(hi, T)
                else:
                    lo = max(lo, T + 1)
            else:
                B = math.floor(c) + 1
                if val:
                    lo = max(lo, B)
                else:
                    hi = min(hi, B - 1)
        else:
            v = -c * s
            want_eq = (op == "eq") == val
            if want_eq:
                lo = hi = int(v)
            else:
                v = int(v)
                if v == lo:
                    lo += 1
                elif v == hi:
                    hi -= 1
                else:
                    ex = ex | {v}
        while lo in ex:
            lo += 1
        while hi in ex:
            hi -= 1
        if lo > hi:
            return None
        iv = dict(facts.iv)
        iv[qk] = (lo, hi, ex, label)
        nf = Facts(facts.atoms, iv)
        if self._distances(nf) is None:
            return None  # e.g. a <= b, b <= 1024, a >= 1025
        return nf

    # difference constraints: the facts `t1 - t2 in [lo, hi]` and `t in [lo, hi]` (t a term: monomial with its
    # coefficient) form a graph whose shortest paths are the bounds that follow by transitivity
    @staticmethod
    def _diff_form(q):
        """q = +t1 - t2 or q = +t1  ->  (t1, t2 | None), else None"""
        items = list(q.t.items())
        if len(items) == 1 and items[0][1] > 0:
            return (items[0], None)
        if len(items) == 2:
            (m1, c1), (m2, c2) = items
            if c1 > 0 > c2:
                return ((m1, c1), (m2, -c2))
            if c2 > 0 > c1:
                return ((m2, c2), (m1, -c1))
        return None

    def _distances(self, facts):
        """all-pairs shortest paths of the difference-constraint graph; None when it has a negative cycle (the facts
        are contradictory)"""
        edges = {}
        nodes = {None}

        def edge(a, b, w):
            # b - a <= w
            if w == INF:
                return
            nodes.add(a)
            nodes.add(b)
            if edges.get((a, b), INF) > w:
                edges[(a, b)] = w

        def term_default(t):
            mono, coef = t
            if coef == 1 and len(mono) == 1 and mono[0][1] == 1:
                name = mono[0][0]
                if name.startswith("len("):
                    edge(t, None, 0)  # 0 - t <= 0
                elif self.domains and name in self.domains:
                    lo, hi = self.domains[name]
                    edge(None, t, hi)
                    edge(t, None, -lo)

        for qk, (lo, hi, _ex, _label) in facts.iv.items():
            q = Poly(dict(qk))
            df = self._diff_form(q)
            if df is None:
                continue
            t1, t2 = df
            edge(t2, t1, hi)
            if lo != -INF:
                edge(t1, t2, -lo)
            term_default(t1)
            if t2 is not None:
                term_default(t2)
        if len(nodes) > 14:
            return {}
        nl = list(nodes)
        d = {(a, b): (0 if a == b else edges.get((a, b), INF)) for a in nl for b in nl}
        for k in nl:
            for a in nl:
                dak = d[(a, k)]
                if dak == INF:
                    continue
                for b in nl:
                    v = dak + d[(k, b)]
                    if v < d[(a, b)]:
                        d[(a, b)] = v
        if any(d[(a, a)] < 0 for a in nl):
            return None
        return d

    def _implied(self, q, facts):
        """bounds of q that follow from the other facts by transitivity"""
        df = self._diff_form(q)
        if df is None or len(facts.iv) < 2:
            return -INF, INF
        d = self._distances(facts)
        if not d:
            return -INF, INF
        t1, t2 = df
        hi = d.get((t2, t1), INF)
        lo = d.get((t1, t2), INF)
        return (-lo if lo != INF else -INF), hi

    # ------------------------------------------------------------------ decisions
    def decide(self, e, facts):
        """all consistent outcomes (truth value, refined facts) of the resolved boolean expression e"""
        if isinstance(e, ast.Constant):
            yield bool(e.value), facts
            return
        if isinstance(e, ast.BoolOp):
            is_and = isinstance(e.op, ast.And)
            vals = e.values

            def rec(i, f):
                if i == len(vals):
                    yield is_and, f
                    return
                for b, f2 in self.decide(vals[i], f):
                    if is_and and not b:
                        yield False, f2
                    elif (not is_and) and b:
                        yield True, f2
                    else:
                        yield from rec(i + 1, f2)

            yield from rec(0, facts)
            return
        if isinstance(e, ast.UnaryOp) and isinstance(e.op, ast.Not):
            for b, f in self.decide(e.operand, facts):
                yield (not b), f
            return
        if isinstance(e, ast.IfExp):
            for b, f in self.decide(e.test, facts):
                yield from self.decide(e.body if b else e.orelse, f)
            return
        if isinstance(e, ast.Compare) and len(e.ops) > 1:
            parts = []
            left = e.left
            for op, right in zip(e.ops, e.comparators):
                parts.append(ast.Compare(left=left, ops=[op], comparators=[right]))
                left = right
            yield from self.decide(ast.BoolOp(op=ast.And(), values=parts), facts)
            return
        if isinstance(e, ast.Compare):
            op = e.ops[0]
            r = e.comparators[0]
            if isinstance(op, (ast.Is, ast.IsNot, ast.Eq, ast.NotEq)):
                # `bool(x) is True`, `(a < b) == False`: the truth of the boolean-valued side
                for side, other in ((e.left, r), (r, e.left)):
                    if isinstance(other, ast.Constant) and isinstance(other.value, bool) and ((isinstance(side, ast.Call) and chain(side.func) == "bool" and len(side.args) == 1 and not side.keywords) or isinstance(side, (ast.Compare, ast.BoolOp)) or (isinstance(side, ast.UnaryOp) and isinstance(side.op, ast.Not))):
                        inner = side.args[0] if isinstance(side, ast.Call) else side
                        want = other.value == isinstance(op, (ast.Is, ast.Eq))
                        for b, f in self.decide(inner, facts):
                            yield (b == want), f
                        return
            if isinstance(op, (ast.In, ast.NotIn)) and isinstance(r, (ast.Tuple, ast.List, ast.Set)) and not any(isinstance(x, ast.Starred) for x in r.elts):
                if not r.elts:
                    yield isinstance(op, ast.NotIn), facts
                    return
                alts = [ast.Compare(left=e.left, ops=[ast.Eq()], comparators=[x]) for x in r.elts]
                disj = ast.BoolOp(op=ast.Or(), values=alts) if len(alts) > 1 else alts[0]
                for b, f in self.decide(disj, facts):
                    yield (b if isinstance(op, ast.In) else not b), f
                return
            if not (free_of_forks(e.left, self) and free_of_forks(r, self)):
                for l2, f1 in self.value(e.left, facts):
                    for r2, f2 in self.value(r, f1):
                        yield from self._decide_atom(ast.Compare(left=l2, ops=[op], comparators=[r2]), f2)
                return
            yield from self._decide_atom(e, facts)
            return
        if isinstance(e, ast.Call):
            agg = self._aggregate(e)
            if agg is not None:
                yield from self.decide(agg, facts)
                return
            if chain(e.func) in ("any", "all") and len(e.args) == 1 and not e.keywords and isinstance(e.args[0], (ast.Tuple, ast.List)) and not any(isinstance(x, ast.Starred) for x in e.args[0].elts):
                # every element of the display is evaluated, the result is their disjunction / conjunction
                elts = e.args[0].elts
                if not elts:
                    yield chain(e.func) == "all", facts
                    return
                yield from self.decide(ast.BoolOp(op=ast.Or() if chain(e.func) == "any" else ast.And(), values=list(elts)) if len(elts) > 1 else elts[0], facts)
                return
            inl = self._inline_call(e, facts)
            if inl is not None:
                for v, f in inl:
                    yield from self.decide(v, f)
                return
            if chain(e.func) == "bool" and len(e.args) == 1 and not e.keywords:
                yield from self.decide(e.args[0], facts)
                return
        if not free_of_forks(e, self):
            for v, f in self.value(e, facts):
                yield from self._decide_atom(v, f)
            return
        yield from self._decide_atom(e, facts)

    def _decide_atom(self, e, facts):
        a = self._atom(e)
        cur = self._eval_atom(a, facts)
        if cur is not None:
            yield cur, facts
            return
        lem = self._div_lemma(a, facts)
        if lem is not None:
            a1, a2 = lem  # A == B  <=>  A // B == 1 and A % B == 0   (B > 0)
            want_eq = a[5] == "eq"
            got = False
            f1 = self._assume_atom(a1, True, facts)
            f2 = self._assume_atom(a2, True, f1) if f1 is not None else None
            f3 = self._assume_atom(a, want_eq, f2) if f2 is not None else None
            if f3 is not None:
                got = True
                yield want_eq, f3
            for g in ([self._assume_atom(a1, False, facts)] + [self._assume_atom(a2, False, f1) if f1 is not None else None]):
                g2 = self._assume_atom(a, not want_eq, g) if g is not None else None
                if g2 is not None:
                    got = True
                    yield (not want_eq), g2
            if got:
                return
        for val in (True, False):
            f = self._assume_atom(a, val, facts)
            if f is not None:
                yield val, f

    def _div_lemma(self, a, facts):
        """For an undecided atom `A == B` (A, B the positive / negative part of its polynomial, B a positive
        power-of-two term) when the facts talk about A // B or A % B: the atoms `A // B == 1`, `A % B == 0`."""
        if a[0] != "iv" or a[5] not in ("eq", "ne") or a[4] != 0:
            return None
        q = a[2]
        pos = Poly({k: v for k, v in q.t.items() if v > 0})
        neg = Poly({k: -v for k, v in q.t.items() if v < 0})
        if not pos.t or not neg.t:
            return None
        for A, B in ((pos, neg), (neg, pos)):
            if len(B.t) != 1:
                continue
            (mono, coef), = B.t.items()
            if coef <= 0 or not mono or not all(x.startswith("pow2(") for x, _p in mono):
                if not (coef > 0 and not mono):
                    continue
            fd, md = "floordiv(%r,%r)" % (A, B), "mod(%r,%r)" % (A, B)
            seen = set()
            for qk in facts.iv:
                for m, _c in qk:
                    for x, _p in m:
                        seen.add(x)
            if fd not in seen and md not in seen:
                continue
            out = []
            for name, c in ((fd, 1), (md, 0)):
                qk, q2, s2, c2 = _split(Poly.atom(name) - Poly.const(c))
                out.append(("iv", qk, q2, s2, c2, "eq"))
            return out
        return None

    def entails(self, facts, cond):
        """cond is true in every consistent refinement of facts"""
        return all(b for b, _f in self.decide(cond, facts))

    def refutes(self, facts, cond):
        return all(not b for b, _f in self.decide(cond, facts))

    def assume(self, facts, cond, val=True):
        """list of refinements of facts in which cond has truth value val"""
        return [f for b, f in self.decide(cond, facts) if b == val]

    # ------------------------------------------------------------------ values
    def value(self, e, facts):
        """all (fork-free value expression, refined facts) of the resolved expression e"""
        if free_of_forks(e, self):
            yield e, facts
            return
        if isinstance(e, ast.IfExp):
            for b, f in self.decide(e.test, facts):
                yield from self.value(e.body if b else e.orelse, f)
            return
        if isinstance(e, ast.BoolOp):
            is_and = isinstance(e.op, ast.And)
            vals = e.values

            def rec(i, f):
                if i == len(vals) - 1:
                    yield from self.value(vals[i], f)
                    return
                for x, f1 in self.value(vals[i], f):
                    for b, f2 in self.decide(x, f1):
                        if b != is_and:  # `or`: first truthy operand; `and`: first falsy operand
                            yield x, f2
                        else:
                            yield from rec(i + 1, f2)

            yield from rec(0, facts)
            return
        if isinstance(e, ast.Call):
            fn = chain(e.func)
            agg = self._aggregate(e)
            if agg is not None:
                yield from self.value(agg, facts)
                return
            if fn in ("min", "max") and len(e.args) >= 2 and not e.keywords and not any(isinstance(a, ast.Starred) for a in e.args):
                def fold(i, best, f):
                    if i == len(e.args):
                        yield best, f
                        return
                    for x, f1 in self.value(e.args[i], f):
                        if best is None:
                            yield from fold(i + 1, x, f1)
                            continue
                        cmp_ = ast.Compare(left=x, ops=[ast.Lt() if fn == "min" else ast.Gt()], comparators=[best])
                        for b, f2 in self.decide(cmp_, f1):
                            yield from fold(i + 1, x if b else best, f2)

                yield from fold(0, None, facts)
                return
            if fn == "divmod" and len(e.args) == 2 and not e.keywords:
                # divmod(a, b) == (a // b, a % b)
                for a_, f1 in self.value(e.args[0], facts):
                    for b_, f2 in self.value(e.args[1], f1):
                        yield ast.Tuple(elts=[ast.BinOp(left=a_, op=ast.FloorDiv(), right=b_), ast.BinOp(left=a_, op=ast.Mod(), right=b_)], ctx=ast.Load()), f2
                return
            if fn in ("any", "all") and len(e.args) == 1 and not e.keywords and isinstance(e.args[0], (ast.Tuple, ast.List)):
                for b, f in self.decide(e, facts):
                    yield ast.Constant(value=b), f
                return
            inl = self._inline_call(e, facts)
            if inl is not None:
                yield from inl
                return
        if isinstance(e, ast.Attribute):
            tp = self._typed_prop(e)
            if tp is not None:
                done = False
                if free_of_forks(e.value, self):
                    call = ast.Call(func=e, args=[], keywords=[])
                    inl = self._inline_call(call, facts, r=(tp.node, e.value, True, tp.qn))
                    if inl is not None:
                        done = True
                        yield from inl
                else:
                    for rv, f1 in self.value(e.value, facts):
                        yield from self.value(ast.Attribute(value=rv, attr=e.attr, ctx=ast.Load()), f1)
                    done = True
                if not done:
                    yield e, facts
                return
        if isinstance(e, (ast.Lambda, ast.ListComp, ast.SetComp, ast.DictComp, ast.GeneratorExp)):
            yield e, facts
            return
        # generic: children one after the other
        slots = []
        for name, val in ast.iter_fields(e):
            if isinstance(val, ast.expr):
                slots.append((name, None, val))
            elif isinstance(val, list):
                for i, x in enumerate(val):
                    if isinstance(x, ast.expr):
                        slots.append((name, i, x))
                    elif isinstance(x, ast.keyword):
                        slots.append((name, i, x))

        def rec2(i, acc, f):
            if i == len(slots):
                yield acc, f
                return
            name, idx, child = slots[i]
            if isinstance(child, ast.keyword):
                for v, f1 in self.value(child.value, f):
                    nk = child if v is child.value else ast.keyword(arg=child.arg, value=v)
                    yield from rec2(i + 1, acc + [nk], f1)
            else:
                for v, f1 in self.value(child, f):
                    yield from rec2(i + 1, acc + [v], f1)

        for acc, f in rec2(0, [], facts):
            if all(a is s[2] for a, s in zip(acc, slots)):
                yield e, f
                continue
            kw = dict(ast.iter_fields(e))
            for (name, idx, _c), v in zip(slots, acc):
                if idx is None:
                    kw[name] = v
                else:
                    if kw[name] is getattr(e, name):
                        kw[name] = list(kw[name])
                    kw[name][idx] = v
            yield ast.copy_location(type(e)(**kw), e), f

    # ------------------------------------------------------------------ helper evaluation
    def _callee(self, call):
        """(FuncInfo-like (node, fi or None), bound receiver expr or None) of a call to a side-effect-free helper that is
        not part of the confirmed tree; None otherwise"""
        f = call.func
        prog = self.prog
        fi = self.fi
        if isinstance(f, ast.Name):
            d = self._defs_now.get(f.id)
            if d is not None:
                return d, None, False
            if fi is None:
                return None
            try:
                q = prog.resolve_in_module(fi.module, f.id)
            except Exception:
                q = None
            cf = prog.funcs.get(q) if q else None
            if cf is None or cf.cls is not None:
                return None
            return cf.node, None, False
        if isinstance(f, ast.Attribute) and fi is not None and fi.cls is not None:
            recv = chain(f.value)
            cq = None
            if recv in ("self", "cls"):
                cq = fi.cls.qn if hasattr(fi.cls, "qn") else fi.cls
            elif recv is not None:
                try:
                    q = prog.resolve_in_module(fi.module, recv)
                except Exception:
                    q = None
                if q in prog.classes:
                    cq = q
            if cq is None:
                return None
            m = prog.lookup_method(cq, f.attr)
            if m is None:
                return None
            # dynamically dispatched: another class of the family defines the same name
            for sc in prog.subclasses(cq):
                ci = prog.classes.get(sc)
                if sc != cq and ci is not None and f.attr in ci.methods:
                    return None
            decos = {ast.unparse(d) for d in m.node.decorator_list}
            if decos - {"staticmethod", "classmethod"}:
                return None
            static = "staticmethod" in decos
            return m.node, (None if static else f.value), (not static)
        return None

    @staticmethod
    def _pure_body(fn):
        if not isinstance(fn, ast.FunctionDef):
            return False
        a = fn.args
        if a.vararg or a.kwarg:
            return False
        own_collections = set()
        for n in ast.walk(fn):
            if isinstance(n, ast.Assign) and len(n.targets) == 1 and isinstance(n.targets[0], ast.Name) and _is_mutable_ctor(n.value):
                own_collections.add(n.targets[0].id)
        own_collections -= {x.arg for x in a.posonlyargs + a.args + a.kwonlyargs}

        def ok(stmts):
            for st in stmts:
                if isinstance(st, ast.Expr) and isinstance(st.value, ast.Constant):
                    continue
                if isinstance(st, ast.Pass):
                    continue
                if isinstance(st, ast.Return):
                    continue
                if isinstance(st, ast.Assign) and all(isinstance(t, ast.Name) or (isinstance(t, (ast.Tuple, ast.List)) and all(isinstance(x, ast.Name) for x in t.elts)) for t in st.targets):
                    continue
                if isinstance(st, ast.AnnAssign) and isinstance(st.target, ast.Name):
                    continue
                if isinstance(st, ast.Expr) and isinstance(st.value, ast.Call) and isinstance(st.value.func, ast.Attribute) and st.value.func.attr in ("append", "extend", "add", "update") and isinstance(st.value.func.value, ast.Name) and st.value.func.value.id in own_collections:
                    continue  # growing a collection created in this very function: no effect outside
                if isinstance(st, ast.If):
                    if not ok(st.body) or not ok(st.orelse):
                        return False
                    continue
                return False
            return True

        if not ok(fn.body):
            return False
        for n in ast.walk(fn):
            if isinstance(n, (ast.Await, ast.Yield, ast.YieldFrom, ast.NamedExpr, ast.Lambda)):
                return False
        return True

    def _elements(self, it):
        """the elements of an iterable that is a tuple / list display, or a local list whose contents are known on this
        path (created by a display, grown by append / extend only)"""
        if isinstance(it, ast.Name) and it.id in self._objs_now:
            it = self._objs_now[it.id]
        c = chain(it)
        if c is not None and c.count(".") == 1 and c.split(".")[0] in ("self", "cls") and getattr(getattr(self.fi, "cls", None), "qn", None):
            # a tuple constant of the class: `_FIELDS = ("a", "b")` in the class body, never assigned elsewhere
            try:
                v, _ci = self.prog.class_attr(self.fi.cls.qn, c.split(".")[1])
            except Exception:
                v = None
            if isinstance(v, ast.Tuple):
                it = v
        if isinstance(it, ast.Call) and chain(it.func) in ("list", "tuple") and not it.args and not it.keywords:
            return []
        if isinstance(it, (ast.Tuple, ast.List)) and not any(isinstance(x, ast.Starred) for x in it.elts):
            return list(it.elts)
        return None

    def _aggregate(self, e):
        """min / max / len / any / all over a collection with known elements -> the equivalent expression, else None"""
        if not isinstance(e, ast.Call) or e.keywords or len(e.args) != 1:
            return None
        fn = chain(e.func)
        a = e.args[0]
        if fn in ("min", "max", "len"):
            els = self._elements(a) if isinstance(a, ast.Name) else None
            if els is None:
                return None
            if fn == "len":
                return ast.Constant(value=len(els))
            if not els:
                return None
            return els[0] if len(els) == 1 else ast.Call(func=e.func, args=list(els), keywords=[])
        if fn in ("tuple", "list") and isinstance(a, (ast.GeneratorExp, ast.ListComp)) and len(a.generators) == 1 and not a.generators[0].is_async and not a.generators[0].ifs and isinstance(a.generators[0].target, ast.Name):
            g = a.generators[0]
            els = self._elements(g.iter)
            if els is None:
                return None
            out = [_Canon(self).visit(_Subst({g.target.id: x}, {}).visit(a.elt)) for x in els]
            return ast.Tuple(elts=out, ctx=ast.Load()) if fn == "tuple" else ast.List(elts=out, ctx=ast.Load())
        if fn in ("any", "all") and isinstance(a, (ast.GeneratorExp, ast.ListComp)) and len(a.generators) == 1 and not a.generators[0].is_async and isinstance(a.generators[0].target, ast.Name):
            g = a.generators[0]
            els = self._elements(g.iter)
            if els is None:
                return None
            parts = []
            for x in els:
                env = {g.target.id: x}
                conds = [_Subst(env, {}).visit(c) for c in g.ifs]
                body = _Subst(env, {}).visit(a.elt)
                if fn == "all":
                    parts.append(ast.BoolOp(op=ast.Or(), values=[ast.UnaryOp(op=ast.Not(), operand=c) for c in conds] + [body]) if conds else body)
                else:
                    parts.append(ast.BoolOp(op=ast.And(), values=conds + [body]) if conds else body)
            if not parts:
                return ast.Constant(value=(fn == "all"))
            return parts[0] if len(parts) == 1 else ast.BoolOp(op=ast.And() if fn == "all" else ast.Or(), values=parts)
        return None

    def _vtype(self, e):
        for pred, ci, fields in self.value_types:
            if pred(e):
                return ci, fields
        return None

    def _typed_prop(self, e):
        """FuncInfo of the side-effect-free property read by `e` (an attribute of a declared namedtuple value), or None"""
        if not isinstance(e, ast.Attribute) or not isinstance(e.ctx, ast.Load) or self._depth >= self.inline_depth:
            return None
        vt = self._vtype(e.value)
        if vt is None:
            # a side-effect-free property of the method's own class that is not part of the confirmed tree (a clean-up
            # introduced it): `self._is_ticking` is its body `self._timeout is not None`
            cls = getattr(self.fi, "cls", None)
            if isinstance(e.value, ast.Name) and e.value.id == "self" and cls is not None and hasattr(cls, "qn"):
                m = self.prog.lookup_method(cls.qn, e.attr)
                if m is not None and m.qn not in baseline() and any(ast.unparse(d) == "property" for d in m.node.decorator_list) and self._pure_body(m.node):
                    if not any(sc != cls.qn and e.attr in self.prog.classes[sc].methods for sc in self.prog.subclasses(cls.qn) if sc in self.prog.classes):
                        return m
            return None
        m = vt[0].methods.get(e.attr)
        if m is None or not any(ast.unparse(d) == "property" for d in m.node.decorator_list) or not self._pure_body(m.node):
            return None
        return m

    def _inlinable(self, call):
        """(def node, receiver, has_self, qualified name) when the call goes to a side-effect-free helper that is not
        a function of the confirmed tree (or to a side-effect-free method of a declared namedtuple value), else None"""
        if self._depth >= self.inline_depth:
            return None
        if self.value_types and isinstance(call.func, ast.Attribute):
            vt = self._vtype(call.func.value)
            if vt is not None:
                m = vt[0].methods.get(call.func.attr)
                if m is not None and not m.node.decorator_list and self._pure_body(m.node) and not any(isinstance(a, ast.Starred) for a in call.args) and not any(k.arg is None for k in call.keywords):
                    return m.node, call.func.value, True, m.qn
                return None
        r = self._callee(call)
        if r is None:
            return None
        node, recv, has_self = r
        if id(node) not in self._inl_cache:
            qn = None
            for q, f in self.prog.funcs.items():
                if f.node is node:
                    qn = q
                    break
            ok = not (qn is not None and qn in baseline()) and self._pure_body(node)
            self._inl_cache[id(node)] = (ok, qn)
        ok, qn = self._inl_cache[id(node)]
        if not ok:
            return None
        if any(isinstance(a, ast.Starred) for a in call.args) or any(k.arg is None for k in call.keywords):
            return None
        return node, recv, has_self, qn

    def _inline_call(self, call, facts, r=None):
        """list of (return value, facts) of a helper evaluated in place, or None"""
        if r is None:
            r = self._inlinable(call)
        if r is None:
            return None
        node, recv, has_self, qn = r
        a = node.args
        names = [x.arg for x in a.posonlyargs + a.args]
        env = {}
        if has_self and names:
            if recv is not None and not (isinstance(recv, ast.Name) and recv.id == names[0]):
                env[names[0]] = recv
            names = names[1:]
        if len(call.args) > len(names):
            return None
        for n_, v in zip(names, call.args):
            env[n_] = v
        for k in call.keywords:
            if k.arg not in names + [x.arg for x in a.kwonlyargs] or k.arg in env:
                return None
            env[k.arg] = k.value
        allp = a.posonlyargs + a.args
        for p, d in zip(reversed(allp), reversed(a.defaults)):
            env.setdefault(p.arg, d)
        for p, d in zip(a.kwonlyargs, a.kw_defaults):
            if d is not None:
                env.setdefault(p.arg, d)
        if any(n_ not in env for n_ in names):
            return None
        # identity bindings are dropped (the name stands for itself)
        env = {k: v for k, v in env.items() if not (isinstance(v, ast.Name) and v.id == k)}
        if isinstance(call.func, ast.Name) and call.func.id in self._defs_now:
            # a closure reads the enclosing function's locals
            env = dict(self._env_now, **env)
        cfi = _FakeFI(node, self.fi)
        sub = SymExec(self.prog, cfi, loop_bound=self.loop_bound, include_exc=False, max_paths=self.max_paths, inline_depth=self.inline_depth, _depth=self._depth + 1)
        sub._defs_now = dict(self._defs_now)
        sub._inl_cache = self._inl_cache
        sub.nonempty_when_set = self.nonempty_when_set
        sub.domains = self.domains
        sub.value_types = self.value_types
        sub._modenv = {}
        out = []
        for p in sub.paths(facts=facts, env=env):
            if p.end == "return" and p.ret is not None:
                out.append((p.ret, p.facts))
            elif p.end in ("fall", "return"):
                out.append((ast.Constant(value=None), p.facts))
            else:
                return None
        self.inlined.append(qn or getattr(node, "name", "?"))
        return out

    # ------------------------------------------------------------------ path enumeration
    def subst(self, e, env, chains=None):
        if env or chains:
            e = _Subst(env, chains or {}).visit(e)
        return _Canon(self).visit(e)

    def declare_type(self, pred, clsinfo, fields):
        self.value_types.append((pred, clsinfo, list(fields)))

    def module_env(self):
        """Free names of the function that are module-level constants (bound once at module level to a number, a
        string, or a tuple of such / of dotted names): name -> value expression.  `_BERT_SIZE = 7` used in the
        function is the number 7."""
        if self._modenv is not None:
            return self._modenv
        env = {}
        fi = self.fi
        mod = getattr(fi, "module", None)
        node = getattr(fi, "node", None)
        if mod is not None and node is not None and hasattr(mod, "tree"):
            local = set()
            for n in ast.walk(node):
                if isinstance(n, ast.Name) and isinstance(n.ctx, (ast.Store, ast.Del)):
                    local.add(n.id)
                elif isinstance(n, ast.arg):
                    local.add(n.arg)
                elif isinstance(n, (ast.FunctionDef, ast.AsyncFunctionDef, ast.ClassDef)) and n is not node:
                    local.add(n.name)
                elif isinstance(n, (ast.Global, ast.Nonlocal)):
                    local |= set(n.names)
                elif isinstance(n, ast.ExceptHandler) and n.name:
                    local.add(n.name)
                elif isinstance(n, ast.alias):
                    local.add((n.asname or n.name).split(".")[0])
            free = {n.id for n in ast.walk(node) if isinstance(n, ast.Name) and isinstance(n.ctx, ast.Load)} - local
            binds = {}
            for st in ast.walk(mod.tree):
                if isinstance(st, ast.Global):
                    for nm in st.names:
                        binds[nm] = None
            for st in mod.tree.body:
                tg = []
                if isinstance(st, ast.Assign):
                    tg = [(t, st.value) for t in st.targets]
                elif isinstance(st, ast.AnnAssign) and st.value is not None:
                    tg = [(st.target, st.value)]
                else:
                    for n in ast.walk(st):
                        if isinstance(n, ast.Name) and isinstance(n.ctx, (ast.Store, ast.Del)) and not isinstance(st, (ast.FunctionDef, ast.AsyncFunctionDef, ast.ClassDef)):
                            binds[n.id] = None
                    if isinstance(st, (ast.FunctionDef, ast.AsyncFunctionDef, ast.ClassDef)):
                        binds[st.name] = None
                    continue
                for t, v in tg:
                    for n in ast.walk(t):
                        if isinstance(n, ast.Name):
                            binds[n.id] = v if (isinstance(t, ast.Name) and n.id not in binds) else None

            def simple(v, depth=0):
                if isinstance(v, ast.Constant) and (v.value is None or isinstance(v.value, (bool, int, str, bytes))):
                    return True
                if isinstance(v, ast.UnaryOp) and isinstance(v.op, ast.USub) and isinstance(v.operand, ast.Constant) and isinstance(v.operand.value, int):
                    return True
                if isinstance(v, ast.Tuple) and depth < 2:
                    return all(simple(x, depth + 1) or (chain(x) is not None and chain(x).split(".")[0] not in local) for x in v.elts)
                if isinstance(v, ast.Call) and (chain(v.func) or "").split(".")[-1] in ("attrgetter", "itemgetter") and v.args and not v.keywords and all(isinstance(x, ast.Constant) for x in v.args):
                    return True  # a constant callable: operator.attrgetter("a", "b") / itemgetter(0, 2)
                return False

            for nm in free:
                v = binds.get(nm)
                if v is not None and simple(v):
                    env[nm] = v
        self._modenv = env
        return env

    def paths(self, facts=None, env=None, assume=(), chains=None):
        """enumerate the paths.  `assume`: [(condition source or AST, bool)] facts taken for granted at entry."""
        facts = facts or Facts()
        for cond, val in assume:
            if isinstance(cond, str):
                cond = parse(cond)
            fs = self.assume(facts, cond, val)
            if len(fs) != 1:
                raise AnalysisError("assumption %s is not atomic" % txt(cond))
            facts = fs[0]
        c = self.cfg
        env0 = dict(self.module_env())
        env0.update(env or {})
        st0 = _State(env0, dict(chains or {}), facts, (), (), {}, NORET, {}, {}, 0)
        out = []
        stack = [(c.entry, st0, None)]
        while stack:
            nid, st, via = stack.pop()
            for item in self._step(nid, st, via):
                if isinstance(item, SPath):
                    out.append(item)
                    if len(out) > self.max_paths:
                        raise AnalysisError("symbolic execution of %s: more than %d paths" % (self.fi.short, self.max_paths))
                else:
                    stack.append(item)
        return out

    def _finish(self, st, end):
        return SPath(st.nodes, st.events, st.facts, st.env, st.chains, end, None if st.ret is NORET else st.ret, st.objs, st.defs)

    def _ev(self, st, kind, nid, node, **kw):
        return Ev(kind, nid, node, st.env, st.chains, st.facts, **kw)

    def _step(self, nid, st, via):
        c = self.cfg
        node = c.nodes[nid]
        n_seen = st.cnt.get(nid, 0)
        if n_seen > self.loop_bound + 1:
            yield self._finish(st, "cut")
            return
        cnt = dict(st.cnt)
        cnt[nid] = n_seen + 1
        st = st.but(nodes=st.nodes + (nid,), cnt=cnt)
        if nid == c.exit:
            yield self._finish(st, "fall" if st.ret is NORET else "return")
            return
        if nid == c.rexit:
            yield self._finish(st, "raise")
            return
        succ = c.succ[nid]
        normal = [(d, l) for d, l in succ if l != "exc"]
        excs = [(d, l) for d, l in succ if l == "exc"]
        self._defs_now = st.defs
        self._env_now = st.env
        self._objs_now = st.objs
        k = node.kind
        # exceptional continuation into a handler of this function: the statement's effect did not happen
        if self.include_exc and k in ("stmt", "return", "test", "for", "with"):
            for d, _l in excs:
                if c.nodes[d].kind == "handler":
                    ev = self._ev(st, "exc", nid, node.ast, value=d)
                    yield (d, st.but(events=st.events + (ev,)), "exc")
        if k in ("entry", "join", "T", "F"):
            for d, _l in normal:
                yield (d, st, None)
            return
        if k == "handler":
            h = node.ast
            env = st.env
            if h.name:
                env = dict(env)
                env[h.name] = ast.Name(id="%s@%d" % (h.name, nid), ctx=ast.Load())
            st2 = st.but(env=env)
            st2 = st2.but(events=st2.events + (self._ev(st2, "handler", nid, h),))
            for d, _l in normal:
                yield (d, st2, None)
            return
        if k == "with":
            w = node.ast
            st2 = st
            for it in w.items:
                raw = it.context_expr
                for v, f in self.value(self.subst(raw, st2.env, st2.chains), st2.facts):
                    st2 = st2.but(facts=f)
                    st2 = st2.but(events=st2.events + (self._ev(st2, "expr", nid, w, value=v, raw=raw),))
                    break
                if it.optional_vars is not None:
                    env = dict(st2.env)
                    for x in ast.walk(it.optional_vars):
                        if isinstance(x, ast.Name):
                            env[x.id] = ast.Name(id="%s@%d" % (x.id, nid), ctx=ast.Load())
                    st2 = st2.but(env=env)
            for d, _l in normal:
                yield (d, st2, None)
            return
        if k == "test":
            e, st = self._pre(node.ast, st, nid, node.ast)
            caps = {}
            if isinstance(e, ast.Call) and chain(e.func) == "__match__":
                e, caps = self._match_cond(e)
            for b, f in self.decide(e, st.facts):
                st2 = st.but(facts=f)
                st2 = st2.but(events=st2.events + (self._ev(st, "test", nid, node.ast, value=e, outcome=b, raw=node.ast),))
                if b and caps:
                    env = dict(st2.env)
                    env.update(caps)
                    st2 = st2.but(env=env)
                for d, l in normal:
                    if l == ("T" if b else "F"):
                        yield (d, st2, None)
            return
        if k == "for":
            f_ = node.ast
            it, st = self._pre(f_.iter, st, nid, f_)
            iters = n_seen
            for d, l in normal:
                if l == "T" and iters < self.loop_bound:
                    env = dict(st.env)
                    fresh = {}
                    for x in ast.walk(f_.target):
                        if isinstance(x, ast.Name):
                            fresh[x.id] = ast.Name(id="%s@%d" % (x.id, st.fresh + 1), ctx=ast.Load())
                    env.update(fresh)
                    st2 = st.but(env=env, fresh=st.fresh + 1)
                    st2 = st2.but(events=st2.events + (self._ev(st2, "for", nid, f_, value=it, target=_rename_target(f_.target, fresh), raw=f_.iter),))
                    yield (d, st2, None)
                elif l == "F":
                    yield (d, st, None)
            return
        if k == "raise":
            r = node.ast
            exc = None
            if r.exc is not None:
                exc, st = self._pre(r.exc, st, nid, r)
            st2 = st.but(events=st.events + (self._ev(st, "raise", nid, r, value=exc, raw=r.exc),))
            for d, _l in excs:
                if c.nodes[d].kind == "handler":
                    # an explicit raise caught in this function is ordinary control flow (followed also without include_exc)
                    yield (d, st2.but(events=st2.events + (self._ev(st2, "exc", nid, r, value=d),)), "exc")
                elif d == c.rexit:
                    yield self._finish(st2.but(nodes=st2.nodes + (d,)), "raise")
                else:
                    # finally copy on the exceptional continuation
                    yield (d, st2, None)
            if not excs:
                yield self._finish(st2, "raise")
            return
        if k == "return":
            r = node.ast
            if r.value is None:
                st2 = st.but(ret=None, events=st.events + (self._ev(st, "ret", nid, r, value=None),))
                for d, _l in normal:
                    yield (d, st2, None)
                return
            e, st = self._pre(r.value, st, nid, r)
            for v, f in self.value(e, st.facts):
                st2 = st.but(facts=f)
                st2 = st2.but(ret=v, events=st2.events + (self._ev(st2, "ret", nid, r, value=v, raw=r.value),))
                for d, _l in normal:
                    yield (d, st2, None)
            return
        # plain statements
        s = node.ast
        if isinstance(s, ast.Expr) or (isinstance(s, (ast.Assign, ast.AnnAssign)) and s.value is not None):
            fol = self._follow_stmt(nid, s, st)
            if fol is not None:
                for kind, st2 in fol:
                    if kind == "normal":
                        for d, _l in normal:
                            yield (d, st2, None)
                        continue
                    # the helper raised: as an explicit raise at this statement
                    for d, _l in excs:
                        if c.nodes[d].kind == "handler":
                            yield (d, st2.but(events=st2.events + (self._ev(st2, "exc", nid, s, value=d),)), "exc")
                        elif d == c.rexit:
                            yield self._finish(st2.but(nodes=st2.nodes + (d,)), "raise")
                        else:
                            yield (d, st2, None)
                    if not excs:
                        yield self._finish(st2, "raise")
                return
        for st2 in self._exec(nid, s, st):
            for d, _l in normal:
                yield (d, st2, None)

    def _followable(self, v):
        """(FuncInfo, call) when the fork-free statement value `v` is a call of a helper with effects that is not part
        of the confirmed tree and that the canonicalisation did not expand (e.g. because the callee is chosen by a
        conditional expression, or the helper returns from inside a try)"""
        call = v.value if isinstance(v, ast.Await) else v
        if not isinstance(call, ast.Call) or self._depth >= self.inline_depth:
            return None
        if any(isinstance(a, ast.Starred) for a in call.args) or any(k.arg is None for k in call.keywords):
            return None
        try:
            cal = self._callee(call)
        except Exception:
            cal = None
        if cal is None:
            return None
        node, recv, has_self = cal
        fi2 = None
        for q, f in self.prog.funcs.items():
            if f.node is node:
                fi2 = f
                break
        if fi2 is None or fi2.qn in baseline() or self._pure_body(node):
            return None
        if isinstance(node, ast.AsyncFunctionDef) != isinstance(v, ast.Await):
            return None
        if node.args.vararg or node.args.kwarg or any(isinstance(n, (ast.Yield, ast.YieldFrom)) for n in ast.walk(node)):
            return None
        return fi2, call, recv, has_self

    def _follow_stmt(self, nid, s, st):
        """[(kind, state)] for an expression statement whose value calls a followable helper on at least one fork, else None"""
        e, st1 = self._pre(s.value, st, nid, s)
        vals = list(self.value(e, st1.facts))
        if not any(self._followable(v) for v, _f in vals):
            return None
        out = []
        for v, f in vals:
            st2 = st1.but(facts=f)
            targets = [] if isinstance(s, ast.Expr) else (list(s.targets) if isinstance(s, ast.Assign) else [s.target])
            fo = self._followable(v)
            if fo is None:
                if isinstance(s, ast.Expr):
                    st2 = st2.but(events=st2.events + (self._ev(st2, "expr", nid, s, value=v, raw=s.value),))
                    for obj, name, val in _attr_stores(v):
                        st2 = self._bind(nid, s, ast.Attribute(value=obj, attr=name, ctx=ast.Store()), val, st2, raw=None)
                else:
                    for t in targets:
                        st2 = self._bind(nid, s, t, v, st2, raw=s.value)
                out.append(("normal", st2))
                continue
            st2 = st2.but(events=st2.events + (self._ev(st2, "expr", nid, s, value=v, raw=s.value),))
            fi2, call, recv, has_self = fo
            a = fi2.node.args
            names = [x.arg for x in a.posonlyargs + a.args]
            env = {}
            if has_self and names:
                if recv is not None and not (isinstance(recv, ast.Name) and recv.id == names[0]):
                    env[names[0]] = recv
                names = names[1:]
            if len(call.args) > len(names):
                for t in targets:
                    st2 = self._bind(nid, s, t, v, st2, raw=None)
                out.append(("normal", st2))
                continue
            env.update(zip(names, call.args))
            for k in call.keywords:
                env[k.arg] = k.value
            for p_, d in zip(reversed(a.posonlyargs + a.args), reversed(a.defaults)):
                env.setdefault(p_.arg, d)
            for p_, d in zip(a.kwonlyargs, a.kw_defaults):
                if d is not None:
                    env.setdefault(p_.arg, d)
            env = {k: x for k, x in env.items() if not (isinstance(x, ast.Name) and x.id == k)}
            sub = SymExec(self.prog, fi2, loop_bound=self.loop_bound, include_exc=self.include_exc, max_paths=self.max_paths, inline_depth=self.inline_depth, _depth=self._depth + 1)
            sub.nonempty_when_set = self.nonempty_when_set
            sub.domains = self.domains
            sub.value_types = self.value_types
            sub._inl_cache = self._inl_cache
            self.followed.add(fi2.qn)
            for sp in sub.paths(facts=st2.facts, env=env, chains=st2.chains):
                evs = tuple(Ev(x.kind, ("helper", fi2.qn, x.nid), x.node, x.env, x.chains, x.facts, target=x.target, key=x.key, value=x.value, outcome=x.outcome, raw=x.raw) for x in sp.events)
                # the helper's nested functions / local collections can be referred to by what it returned or passed on
                st3 = st2.but(facts=sp.facts, chains=sp.chains, events=st2.events + evs, defs=dict(sp.defs, **st2.defs), objs=dict(sp.objs, **st2.objs))
                if sp.end in ("return", "fall"):
                    rv = sp.ret if (sp.end == "return" and sp.ret is not None) else ast.Constant(value=None)
                    for t in targets:
                        st3 = self._bind(nid, s, t, rv, st3, raw=None)
                    out.append(("normal", st3))
                elif sp.end == "raise":
                    out.append(("raise", st3))
                else:
                    raise AnalysisError("helper %s: loop in the path model" % fi2.short)
            self.followed |= sub.followed
        return out

    def _grow(self, v, st):
        """a method call on a local list / set created in this function: its contents stay known while it only grows"""
        if not (isinstance(v, ast.Call) and isinstance(v.func, ast.Attribute) and isinstance(v.func.value, ast.Name) and v.func.value.id in st.objs):
            return st
        name = v.func.value.id
        cur = st.objs[name]
        if isinstance(cur, ast.Call) and chain(cur.func) in ("list", "set") and not cur.args and not cur.keywords:
            cur = ast.List(elts=[], ctx=ast.Load()) if chain(cur.func) == "list" else ast.Set(elts=[])
        new = None
        if isinstance(cur, (ast.List, ast.Set)) and not v.keywords:
            if v.func.attr in ("append", "add") and len(v.args) == 1 and not isinstance(v.args[0], ast.Starred):
                new = type(cur)(elts=list(cur.elts) + [v.args[0]], **({"ctx": ast.Load()} if isinstance(cur, ast.List) else {}))
            elif v.func.attr in ("extend", "update") and len(v.args) == 1 and isinstance(v.args[0], (ast.List, ast.Tuple)) and not any(isinstance(x, ast.Starred) for x in v.args[0].elts):
                new = type(cur)(elts=list(cur.elts) + list(v.args[0].elts), **({"ctx": ast.Load()} if isinstance(cur, ast.List) else {}))
        if new is None:
            if v.func.attr in ("copy", "count", "index", "get", "keys", "items", "values", "__contains__", "__len__"):
                return st
            new = ast.Call(func=ast.Name(id="<changed>", ctx=ast.Load()), args=[cur], keywords=[])  # contents no longer known
        objs = dict(st.objs)
        objs[name] = new
        return st.but(objs=objs)

    def _pre(self, raw, st, nid, node):
        """resolve an expression about to be evaluated.  Assignment expressions in it are bindings made on the way:
        `(x := e)` binds x to the value of e (a `bind` event) and stands for that value."""
        ws = [n for n in _walk_values(raw) if isinstance(n, ast.NamedExpr)]
        if not ws:
            return self.subst(raw, st.env, st.chains), st
        ws.sort(key=lambda n: (getattr(n, "end_lineno", 0), getattr(n, "end_col_offset", 0)))
        repl = {}
        for w in ws:
            v = self.subst(_Repl(repl).visit(w.value), st.env, st.chains)
            st = self._bind(nid, node, w.target, v, st, raw=None)
            repl[id(w)] = ast.Name(id=w.target.id, ctx=ast.Load())
        return self.subst(_Repl(repl).visit(raw), st.env, st.chains), st

    def _match_cond(self, e):
        """`match` on a declared namedtuple value with a fixed-length sequence pattern of literals / captures /
        wildcards: the equivalent condition over its components and the captured names.  Anything else stays the
        opaque test the CFG made of it."""
        if len(e.args) != 2 or not isinstance(e.args[1], ast.Constant) or not isinstance(e.args[1].value, str):
            return e, {}
        subj = e.args[0]
        try:
            pat = ast.parse("match _:\n case %s:\n  pass" % e.args[1].value).body[0].cases[0].pattern
        except SyntaxError:
            return e, {}
        r = self._pattern_cond(pat, subj)
        if r is None:
            return e, {}
        cond, caps = r
        return cond, caps

    def _pattern_cond(self, pat, subj):
        """(condition, captures) equivalent to `subj` matching `pat`, or None.  Understood: literals, None/True/False,
        captures and wildcards, alternatives without captures, fixed-length sequence patterns against a tuple display or a
        declared namedtuple value."""
        TRUE = ast.Constant(value=True)
        if isinstance(pat, ast.MatchAs):
            if pat.pattern is None:
                return TRUE, ({pat.name: subj} if pat.name else {})
            r = self._pattern_cond(pat.pattern, subj)
            if r is None:
                return None
            return r[0], dict(r[1], **({pat.name: subj} if pat.name else {}))
        if isinstance(pat, ast.MatchValue):
            return ast.Compare(left=subj, ops=[ast.Eq()], comparators=[pat.value]), {}
        if isinstance(pat, ast.MatchSingleton):
            if pat.value is None:
                return ast.Compare(left=subj, ops=[ast.Is()], comparators=[ast.Constant(value=None)]), {}
            # `case True` on bool(x): the truth of x
            if isinstance(subj, ast.Call) and chain(subj.func) == "bool" and len(subj.args) == 1:
                return (subj.args[0] if pat.value else ast.UnaryOp(op=ast.Not(), operand=subj.args[0])), {}
            return ast.Compare(left=subj, ops=[ast.Is()], comparators=[ast.Constant(value=pat.value)]), {}
        if isinstance(pat, ast.MatchOr):
            parts = []
            for alt in pat.patterns:
                r = self._pattern_cond(alt, subj)
                if r is None or r[1]:
                    return None
                parts.append(r[0])
            return ast.BoolOp(op=ast.Or(), values=parts), {}
        if isinstance(pat, ast.MatchSequence) and not any(isinstance(q, ast.MatchStar) for q in pat.patterns):
            comps = None
            pre = []
            if isinstance(subj, ast.Tuple) and len(subj.elts) == len(pat.patterns) and not any(isinstance(x, ast.Starred) for x in subj.elts):
                comps = list(subj.elts)
            else:
                vt = self._vtype(subj)
                if vt is not None and len(vt[1]) == len(pat.patterns):
                    comps = [ast.Attribute(value=subj, attr=f, ctx=ast.Load()) for f in vt[1]]
                    pre = [ast.Compare(left=subj, ops=[ast.IsNot()], comparators=[ast.Constant(value=None)])]
                elif vt is not None:
                    return ast.Constant(value=False), {}
            if comps is None:
                return None
            conds, caps = list(pre), {}
            for q, c in zip(pat.patterns, comps):
                r = self._pattern_cond(q, c)
                if r is None:
                    return None
                if not (isinstance(r[0], ast.Constant) and r[0].value is True):
                    conds.append(r[0])
                caps.update(r[1])
            if not conds:
                return TRUE, caps
            return (ast.BoolOp(op=ast.And(), values=conds) if len(conds) > 1 else conds[0]), caps
        return None

    def _exec(self, nid, s, st):
        if isinstance(s, (ast.FunctionDef, ast.AsyncFunctionDef)):
            defs = dict(st.defs)
            defs[s.name] = s
            env = dict(st.env)
            env.pop(s.name, None)
            st2 = st.but(defs=defs, env=env)
            yield st2.but(events=st2.events + (self._ev(st2, "def", nid, s),))
            return
        if isinstance(s, ast.Assign):
            e, st = self._pre(s.value, st, nid, s)
            for v, f in self.value(e, st.facts):
                st2 = st.but(facts=f)
                for t in sorted(s.targets, key=lambda t: 0 if isinstance(t, ast.Name) else 1) if (_is_mutable_ctor(v) and len(s.targets) > 1) else s.targets:
                    # `(m := f()).attr = v`: the target expression is evaluated (and binds m) after the value
                    ws = [n for n in ast.walk(t) if isinstance(n, ast.NamedExpr)]
                    if ws:
                        repl = {}
                        for w in sorted(ws, key=lambda n: (getattr(n, "end_lineno", 0), getattr(n, "end_col_offset", 0))):
                            wv = self.subst(_Repl(repl).visit(w.value), st2.env, st2.chains)
                            st2 = self._bind(nid, s, w.target, wv, st2, raw=w.value)
                            repl[id(w)] = ast.Name(id=w.target.id, ctx=ast.Load())
                        t = _Repl(repl).visit(t)
                    if isinstance(t, (ast.Attribute, ast.Subscript)) and any(isinstance(n, ast.Call) for n in _walk_values(t.value)):
                        # calls made while the target is evaluated (`f().attr = v`) are effects of the statement too
                        st2 = st2.but(events=st2.events + (self._ev(st2, "expr", nid, s, value=self.subst(t.value, st2.env, st2.chains), raw=t.value),))
                    st2 = self._bind(nid, s, t, v, st2, raw=s.value)
                    if isinstance(t, ast.Name) and _is_mutable_ctor(v) and len(s.targets) > 1:
                        v = ast.Name(id=t.id, ctx=ast.Load())  # `a = b = {}`: the other targets hold the same object
                yield st2
            return
        if isinstance(s, ast.AnnAssign):
            if s.value is None:
                yield st
                return
            e, st = self._pre(s.value, st, nid, s)
            for v, f in self.value(e, st.facts):
                yield self._bind(nid, s, s.target, v, st.but(facts=f), raw=s.value)
            return
        if isinstance(s, ast.AugAssign):
            cur = self.subst(_as_load(s.target), st.env, st.chains)
            e = ast.BinOp(left=cur, op=s.op, right=self.subst(s.value, st.env, st.chains))
            ast.copy_location(e, s)
            for v, f in self.value(e, st.facts):
                yield self._bind(nid, s, s.target, v, st.but(facts=f), raw=s.value)
            return
        if isinstance(s, ast.Expr):
            e, st = self._pre(s.value, st, nid, s)
            for v, f in self.value(e, st.facts):
                st2 = st.but(facts=f)
                st2 = st2.but(events=st2.events + (self._ev(st2, "expr", nid, s, value=v, raw=s.value),))
                st2 = self._grow(v, st2)
                # attribute stores spelled as calls: setattr(x, "a", v), vars(x).update(a=v), x.__dict__.update(a=v)
                for obj, name, val in _attr_stores(v):
                    st2 = self._bind(nid, s, ast.Attribute(value=obj, attr=name, ctx=ast.Store()), val, st2, raw=None)
                yield st2
            return
        if isinstance(s, ast.Delete):
            st2 = st
            for t in s.targets:
                if isinstance(t, ast.Subscript):
                    cont = self.subst(_as_load(t.value), st2.env, st2.chains)
                    key = self.subst(t.slice, st2.env, st2.chains)
                    st2 = st2.but(events=st2.events + (self._ev(st2, "delitem", nid, s, target=cont, key=key),))
                elif isinstance(t, ast.Name):
                    env = dict(st2.env)
                    env.pop(t.id, None)
                    st2 = st2.but(env=env)
                else:
                    tt = self.subst(_as_load(t), st2.env, st2.chains)
                    st2 = st2.but(events=st2.events + (self._ev(st2, "del", nid, s, target=tt),))
            yield st2
            return
        # Pass, Import, Global, Nonlocal, Assert, Break, Continue, ClassDef, match subject: no effect tracked
        yield st

    def _bind(self, nid, s, target, v, st, raw=None):
        if isinstance(target, ast.Name):
            env = dict(st.env)
            objs = st.objs
            if _is_mutable_ctor(v):
                objs = dict(objs)
                objs[target.id] = v
                env.pop(target.id, None)
            else:
                env[target.id] = v
            ev = self._ev(st, "bind", nid, s, target=target.id, value=v, raw=raw)
            return st.but(env=env, objs=objs, events=st.events + (ev,))
        if isinstance(target, (ast.Tuple, ast.List)):
            elts = target.elts
            if isinstance(v, (ast.Tuple, ast.List)) and len(v.elts) == len(elts) and not any(isinstance(x, ast.Starred) for x in list(v.elts) + list(elts)):
                vals = list(v.elts)
            else:
                vals = [self.subst(ast.Subscript(value=v, slice=ast.Constant(value=i), ctx=ast.Load()), {}) for i in range(len(elts))]
                if any(isinstance(x, ast.Starred) for x in elts):
                    vals = [ast.Name(id="<unpacked@%d_%d>" % (nid, i), ctx=ast.Load()) for i in range(len(elts))]
            first = True
            for t, x in zip(elts, vals):
                if isinstance(t, ast.Starred):
                    t = t.value
                st = self._bind(nid, s, t, x, st, raw=raw if first else None)
                first = False
            return st
        if isinstance(target, ast.Attribute):
            tt = self.subst(_as_load(target), st.env, {})  # the object the attribute lives on, resolved; the attribute itself is the slot
            tt2 = ast.Attribute(value=self.subst(_as_load(target.value), st.env, st.chains), attr=target.attr, ctx=ast.Load())
            c = chain(tt)
            chains = st.chains
            if c is not None:
                chains = {k: x for k, x in chains.items() if not k.startswith(c + ".")}
                chains[c] = v
            ev = self._ev(st, "store", nid, s, target=tt2, value=v, raw=raw)
            return st.but(chains=chains, events=st.events + (ev,))
        if isinstance(target, ast.Subscript):
            cont = self.subst(_as_load(target.value), st.env, st.chains)
            key = self.subst(target.slice, st.env, st.chains)
            ev = self._ev(st, "setitem", nid, s, target=cont, key=key, value=v, raw=raw)
            return st.but(events=st.events + (ev,))
        return st

    # ------------------------------------------------------------------ queries
    def resolve(self, e, ev):
        """value of expression e (written in the function's own names) at event ev"""
        return self.subst(e, ev.env, ev.chains)

    def calls(self, path, kinds=None):
        """(event, original call node, resolved call) for every call site executed on the path, in order.  Calls
        inside lambdas / nested defs are not executed here and not reported."""
        for ev in path.events:
            if ev.raw is None or (kinds and ev.kind not in kinds):
                continue
            sites = [n for n in _walk_values(ev.raw) if isinstance(n, ast.Call)]
            sites.sort(key=lambda n: (getattr(n, "end_lineno", 0), getattr(n, "end_col_offset", 0)))
            taken = None
            for cl in sites:
                r = self.subst(cl, ev.env, ev.chains)
                if not isinstance(r, ast.Call):
                    continue  # a constant callable applied: attrgetter("a")(x) is x.a
                if not free_of_forks(r.func) and isinstance(ev.value, ast.AST):
                    # `(f if c else g)(...)`: the callee this path has chosen (the event's value is fork free)
                    if taken is None:
                        taken = {(getattr(n, "lineno", None), getattr(n, "col_offset", None), getattr(n, "end_col_offset", None)): n for n in _walk_values(ev.value) if isinstance(n, ast.Call)}
                    r = taken.get((getattr(cl, "lineno", None), getattr(cl, "col_offset", None), getattr(cl, "end_col_offset", None)), r)
                yield ev, cl, r


def _sx_unfollowed(self, path):
    """Calls on the path to functions of the program that are not part of the confirmed tree (helpers introduced by a
    clean-up) and have effects, which neither the canonicalisation nor this executor has looked into: what they
    store / raise / call is missing from the path, so an obligation that fails on it proves nothing."""
    out = set()
    self._defs_now = path.defs
    for ev, c, r in self.calls(path):
        try:
            cal = self._callee(r)
        except Exception:
            cal = None
        if cal is None:
            continue
        node = cal[0]
        qn = None
        for q, f in self.prog.funcs.items():
            if f.node is node:
                qn = q
                break
        if qn is None or qn in baseline() or self._pure_body(node) or qn in self.followed:
            continue
        out.add(qn)
    return out


SymExec.unfollowed = _sx_unfollowed


class _FakeFI:
    """FuncInfo stand-in for a helper evaluated in place (cfg_of caches on the object)."""

    def __init__(self, node, outer):
        self.node = node
        self.module = getattr(outer, "module", None)
        self.cls = getattr(outer, "cls", None)
        self.short = getattr(node, "name", "<helper>")
        self.qn = self.short
        self.parent = outer


def _as_load(t):
    return t


def _attr_stores(v):
    """[(object expr, attribute name, value expr)] for an expression statement that only stores attributes"""
    if not isinstance(v, ast.Call) or any(isinstance(a, ast.Starred) for a in v.args) or any(k.arg is None for k in v.keywords):
        return []
    fn = chain(v.func)
    if fn in ("setattr", "object.__setattr__") and len(v.args) == 3 and not v.keywords and isinstance(v.args[1], ast.Constant) and isinstance(v.args[1].value, str) and v.args[1].value.isidentifier():
        return [(v.args[0], v.args[1].value, v.args[2])]
    if isinstance(v.func, ast.Attribute) and v.func.attr == "update" and not v.args and v.keywords:
        d = v.func.value
        obj = None
        if isinstance(d, ast.Call) and chain(d.func) == "vars" and len(d.args) == 1 and not d.keywords:
            obj = d.args[0]
        elif isinstance(d, ast.Attribute) and d.attr == "__dict__":
            obj = d.value
        if obj is not None:
            return [(obj, k.arg, k.value) for k in v.keywords]
    return []


def _rename_target(t, fresh):
    """loop target with its names replaced by the fresh symbols of this iteration (Load context)"""
    if isinstance(t, ast.Name):
        return fresh.get(t.id, t)
    if isinstance(t, (ast.Tuple, ast.List)):
        return type(t)(elts=[_rename_target(x, fresh) for x in t.elts], ctx=ast.Load())
    if isinstance(t, ast.Starred):
        return ast.Starred(value=_rename_target(t.value, fresh), ctx=ast.Load())
    return t


def _is_mutable_ctor(v):
    if isinstance(v, (ast.List, ast.Dict, ast.Set, ast.ListComp, ast.SetComp, ast.DictComp)):
        return True
    if isinstance(v, ast.Call) and chain(v.func) in MUTABLE_CTORS:
        return True
    return False


def callable_body(sx, path, e, ev):
    """Uniform view of a callable value handed to somebody who invokes it without arguments: lambda (also with
    default-argument binding), nested def, functools.partial(f, a...), bound method.
    -> the call expression performed by the invocation, resolved at event ev (free variables of a lambda / nested def
    are read when it runs, i.e. at ev, defaults and partial arguments when it is created), or None."""
    if isinstance(e, ast.Lambda):
        a = e.args
        env = dict(ev.env)
        allp = a.posonlyargs + a.args
        bound = {}
        for p, d in zip(reversed(allp), reversed(a.defaults)):
            bound[p.arg] = d
        for p, d in zip(a.kwonlyargs, a.kw_defaults):
            if d is not None:
                bound[p.arg] = d
        if len(bound) != len(allp) + len(a.kwonlyargs) or a.vararg or a.kwarg:
            return None
        env.update(bound)
        body = e.body
        if isinstance(body, ast.Await):
            body = body.value
        return _Subst(env, ev.chains).visit(body)
    if isinstance(e, ast.Name) and e.id in path.defs:
        d = path.defs[e.id]
        if d.args.args or d.args.posonlyargs or d.args.kwonlyargs or d.args.vararg or d.args.kwarg:
            return None
        body = [s for s in d.body if not (isinstance(s, ast.Expr) and isinstance(s.value, ast.Constant))]
        if len(body) == 1 and isinstance(body[0], (ast.Return, ast.Expr)) and body[0].value is not None:
            v = body[0].value
            if isinstance(v, ast.Await):
                v = v.value
            return sx.subst(v, ev.env, ev.chains)
        return None
    if isinstance(e, ast.Call) and (chain(e.func) or "").split(".")[-1] == "partial" and e.args:
        return ast.Call(func=e.args[0], args=list(e.args[1:]), keywords=list(e.keywords))
    if isinstance(e, ast.Attribute):
        return ast.Call(func=e, args=[], keywords=[])
    return None


# =====================================================================================================================
# Call-shape flow analysis: which statements / expression arms of a callee are dead under ONE call shape
# =====================================================================================================================
#
# `KwFlow(prog, fi, shape).run()` abstractly executes the body of ONE function for one call shape of the escape
# analysis (exc.EscapeAnalysis.shape_for: parameter -> constant / present, `**kwargs` -> set of keyword names) and
# reports the statements, conditional-expression arms and boolean operands that are executed under NO run with that
# shape.  `ShapedEscapes` (below) is an EscapeAnalysis that skips them -- the *meaning* of "this keyword was (not)
# passed", however it is asked:
#
#     "k" in kw / "k" not in kw / kw.__contains__("k") / "k" in kw.keys()        membership
#     kw["k"], kw.pop("k"), del kw["k"]  (KeyError when absent: in try/except/else, or ending the block)
#     kw.get("k"[, d]), kw.pop("k", d), kw.setdefault("k", d)  followed by a test of the value against None / a
#         private sentinel object (module-level or local `object()`) / its truth, through locals and walrus
#     bool(kw), len(kw), iteration over an empty kw
#     the same through local aliases and copies (`rest = kw`, `dict(kw)`, `kw.copy()`, `{**kw}`), through nested
#     helper functions / lambdas that close over kw (evaluated in place), through loops over literal tables
#     (unrolled), named booleans, De Morgan forms, early returns.
#
# Abstract domain.  A value is a constant, a unique object (`object()` sentinel), a tracked dictionary reference, a
# tuple of values, a local function, or TOP.  A tracked dictionary is (must, may, vals): keys that are certainly
# present, keys that are possibly present (None = unknown), and the value per key.  Everything outside this vocabulary
# evaluates to TOP, a dictionary that is handed to code the analysis does not follow ("escapes") loses all knowledge,
# an unknown condition executes both arms (with the membership fact refined per arm) and joins, loops over literal
# tables are unrolled and other loops iterated to a fixed point.  The result therefore over-approximates the set of
# executed nodes: a node reported dead is dead on every concrete run with that call shape (soundness argument: every
# transfer function below keeps `must` a subset of the concrete key set and `may` a superset, and never decides a
# test whose operands are not constants / sentinels / tracked key sets).  On any internal error or budget overrun the
# analysis reports nothing dead (the engine's native behaviour).

TOP = ("top",)
NN = ("nn",)  # an unknown value that is certainly not None (a slice, a sum, a formatted string, ...)


def K(v):
    return ("const", type(v).__name__, v)


def _is_const(a):
    return a[0] == "const"


class _D:
    """abstract dictionary"""

    __slots__ = ("must", "may", "vals", "esc")

    def __init__(self, must=frozenset(), may=frozenset(), vals=None, esc=False):
        self.must, self.may, self.vals, self.esc = must, may, vals or {}, esc

    def key(self):
        return (self.must, self.may, tuple(sorted(self.vals.items(), key=repr)), self.esc)

    def __eq__(self, o):
        return isinstance(o, _D) and self.key() == o.key()

    def has(self, k):
        """True / False / None"""
        if self.esc:
            return None
        if k in self.must:
            return True
        if self.may is not None and k not in self.may:
            return False
        return None

    def val(self, k):
        return self.vals.get(k, TOP) if not self.esc else TOP

    def without(self, k):
        if self.esc:
            return self
        return _D(self.must - {k}, None if self.may is None else self.may - {k}, {a: b for a, b in self.vals.items() if a != k})

    def without_unknown(self):
        """some key (unknown which) may have been removed"""
        if self.esc:
            return self
        return _D(frozenset(), self.may, dict(self.vals))

    def with_key(self, k, v, weak=False):
        """d[k] = v (weak: only if k was absent: setdefault)"""
        if self.esc:
            return self
        vals = dict(self.vals)
        if weak and self.has(k) is not False:
            vals[k] = v if (self.has(k) is None and self.vals.get(k, v) == v) else (self.val(k) if self.has(k) else TOP)
        else:
            vals[k] = v
        return _D(self.must | {k}, None if self.may is None else self.may | {k}, vals)

    def with_unknown_key(self):
        if self.esc:
            return self
        return _D(self.must, None, {})

    def escaped(self):
        return _D(frozenset(), None, {}, True)

    @staticmethod
    def join(a, b):
        if a.esc or b.esc:
            return a.escaped()
        may = None if (a.may is None or b.may is None) else (a.may | b.may)
        vals = {}
        for k in set(a.vals) | set(b.vals):
            va, vb = a.vals.get(k, None), b.vals.get(k, None)
            if va is not None and vb is not None:
                vals[k] = va if va == vb else TOP
            else:
                # present in one only: the key's value where it exists (absent on the other side)
                vals[k] = va if va is not None else vb
                if (a if va is None else b).has(k) is not False:
                    vals[k] = TOP
        return _D(a.must & b.must, may, vals)


class _St:
    __slots__ = ("env", "heap")

    def __init__(self, env, heap):
        self.env, self.heap = env, heap

    def copy(self):
        return _St(dict(self.env), dict(self.heap))

    def __eq__(self, o):
        return isinstance(o, _St) and self.env == o.env and self.heap == o.heap


class _Out:
    __slots__ = ("next", "ret", "brk", "cont", "exc")

    def __init__(self):
        self.next = self.ret = self.brk = self.cont = self.exc = None


class _AbsRaise(Exception):
    """the evaluated expression certainly raises `name` in state `st`"""

    def __init__(self, name, st):
        Exception.__init__(self, name)
        self.name, self.st = name, st


class _Abort(Exception):
    pass


_READ_METHODS = {"get", "keys", "items", "values", "copy", "__contains__", "__getitem__", "__len__", "__iter__"}
_PURE_BUILTINS = {
    "len", "bool", "isinstance", "issubclass", "type", "id", "repr", "str", "bytes", "int", "float", "print", "hasattr", "callable",
    "list", "tuple", "sorted", "set", "frozenset", "iter", "min", "max", "any", "all", "enumerate", "zip", "reversed", "sum", "format", "hash", "abs", "range", "object",
}
_MUTATING = {
    "add", "discard", "remove", "update", "clear", "pop", "append", "extend", "insert", "sort", "reverse", "setdefault", "popitem",
    "intersection_update", "difference_update", "symmetric_difference_update", "__setitem__", "__delitem__", "__iadd__", "__ior__",
}
_CATCH_ALL = {"Exception", "BaseException"}
_EXC_PARENTS = {"KeyError": {"KeyError", "LookupError"}, "IndexError": {"IndexError", "LookupError"}}


class KwFlow:
    MAX_STEPS = 6000
    MAX_DEPTH = 3
    MAX_UNROLL = 24

    def __init__(self, prog, fi, shape):
        self.prog, self.fi = prog, fi
        self.shape = dict(shape or ())
        self.live = set()
        self.cand = set()  # conditional-expression arms / boolean operands whose liveness was decided by evaluation
        self.raised = {}  # id(stmt) -> exception name (certain raises)
        self.completed = set()  # id(stmt) that completed normally at least once
        self.steps = 0
        self.depth = 0
        self.frames = []  # saved caller environments of the functions evaluated in place
        self.acc = []  # per enclosing try / with: [frame depth, joined state at the points an exception may arise]
        self.funcs = {}
        self.notes = []
        self._unm = False
        self.callinfo = {}  # id(call node) -> what the call passes (joined over its evaluations at depth 0)
        self.setattrs = {}  # id(setattr call) -> attribute names it is evaluated with ("?": unknown)
        self._modvals = {}
        self._plain = {}
        a0 = getattr(fi.node, "args", None)
        first = (a0.posonlyargs + a0.args)[:1] if a0 is not None else []
        is_method = getattr(fi, "cls", None) is not None and not any(ast.unparse(d) in ("staticmethod", "classmethod") for d in getattr(fi.node, "decorator_list", []))
        self.selfname = first[0].arg if (first and is_method) else None
        self.params = set()
        if a0 is not None:
            self.params = {x.arg for x in a0.posonlyargs + a0.args + a0.kwonlyargs} | ({a0.vararg.arg} if a0.vararg else set()) | ({a0.kwarg.arg} if a0.kwarg else set())
        node = fi.node
        self.locals = set()
        self.untracked = set()
        self.parents = {}
        if not isinstance(node, ast.Lambda):
            for n in ast.walk(node):
                for c in ast.iter_child_nodes(n):
                    self.parents[id(c)] = n
                if isinstance(n, ast.Name) and isinstance(n.ctx, (ast.Store, ast.Del)):
                    self.locals.add(n.id)
                elif isinstance(n, (ast.Global, ast.Nonlocal)):
                    self.untracked |= set(n.names)
                elif isinstance(n, (ast.FunctionDef, ast.AsyncFunctionDef, ast.ClassDef)) and n is not node:
                    self.locals.add(n.name)
                elif isinstance(n, ast.ExceptHandler) and n.name:
                    self.locals.add(n.name)
                elif isinstance(n, (ast.Import, ast.ImportFrom)):
                    for a in n.names:
                        self.locals.add((a.asname or a.name).split(".")[0])
                elif isinstance(n, ast.arg):
                    self.locals.add(n.arg)

    # ------------------------------------------------------------------ entry
    def decidable(self):
        return True  # also without any tag: local constants, values handed on to callees

    def run(self):
        """-> (dead node ids, {id(stmt): exception name certainly raised}) or None"""
        node = self.fi.node
        if isinstance(node, ast.Lambda) or not self.decidable():
            return None
        for n in ast.walk(node):
            if isinstance(n, (ast.Yield, ast.YieldFrom)) and self._owner(n) is node:
                return None
        a = node.args
        env = {}
        heap = {}
        allp = a.posonlyargs + a.args
        dflt = {p.arg: d for p, d in zip(reversed(allp), reversed(a.defaults))}
        dflt.update({p.arg: d for p, d in zip(a.kwonlyargs, a.kw_defaults) if d is not None})
        for p in a.posonlyargs + a.args + a.kwonlyargs:
            t = self.shape.get(p.arg)
            if t == ("default",) and isinstance(dflt.get(p.arg), ast.Name) and dflt[p.arg].id not in self.locals:
                env[p.arg] = self.module_value(dflt[p.arg].id)  # the default expression, evaluated where it is written
            else:
                env[p.arg] = self._from_tag(t)
        if a.vararg:
            env[a.vararg.arg] = TOP
        if a.kwarg:
            t = self.shape.get("**" + a.kwarg.arg)
            if t and t[0] in ("keys", "maykeys"):
                keys = frozenset(t[1])
                vals = {k: self._from_tag(self.shape.get(k)) for k in keys}
                # "maykeys": explicit keywords (they carry a tag of their own) are certainly passed, names that can only
                # come out of a `**mapping` possibly
                heap["kw"] = _D(keys if t[0] == "keys" else frozenset(k for k in keys if k in self.shape), keys, vals)
                env[a.kwarg.arg] = ("ref", "kw")
            else:
                env[a.kwarg.arg] = TOP
        st = _St(env, heap)
        try:
            self.block(node.body, st)
        except _Abort as e:
            self.notes.append("aborted: %s" % e)
            return None
        except _AbsRaise:
            pass
        universe = set()
        for n in _walk_own(node):
            if isinstance(n, ast.stmt) and n is not node:
                universe.add(id(n))
        dead = (universe | self.cand) - self.live
        certain = {i: name for i, name in self.raised.items() if i not in self.completed}
        return dead, certain, self.callinfo, self.setattrs

    def _owner(self, n):
        p = self.parents.get(id(n))
        while p is not None and not isinstance(p, (ast.FunctionDef, ast.AsyncFunctionDef, ast.Lambda)):
            p = self.parents.get(id(p))
        return p

    @staticmethod
    def _from_tag(t):
        if t and t[0] == "nn":
            return NN
        if t and t[0] == "const":
            v = t[1]
            if v is None or isinstance(v, (bool, int, str, bytes, float)):
                return K(v)
        return TOP

    # ------------------------------------------------------------------ states
    @staticmethod
    def _not_none(v):
        return v[0] in ("nn", "obj", "tuple", "list", "keyset", "ref", "view", "func", "callable") or (v[0] == "const" and v[2] is not None) or (v[0] == "oneof" and all(x[1] is not None for x in v[1]))

    @staticmethod
    def _alts(v):
        """the constants a value can be: {c} for a constant, the set of a "oneof", None otherwise"""
        if v[0] == "const" and (v[2] is None or isinstance(v[2], (bool, int, str, bytes))):
            return frozenset([(v[1], v[2])])
        if v[0] == "oneof":
            return v[1]
        return None

    def join_val(self, a, b, sa, sb):
        if a == b:
            return a
        xa, xb = self._alts(a), self._alts(b)
        if xa is not None and xb is not None and len(xa | xb) <= 6:
            return ("oneof", xa | xb)  # e.g. "block1" if c else "block2"
        if all(x[0] in ("nn", "tuple", "oneof") or (x[0] == "const" and x[2] is not None) or (x[0] == "keyset" and x[3]) for x in (a, b)) and self._not_none(a) and self._not_none(b) and all(self._storable(x) for x in (a, b)):
            return NN  # some value (a number, a string, a slice, a tuple): not None, and not one of the unique objects
        for v, s in ((a, sa), (b, sb)):
            self.escape_val(v, s)
        return TOP

    def join(self, a, b):
        if a is None:
            return b
        if b is None:
            return a
        if a is b:
            return a
        a, b = a.copy(), b.copy()
        env = {}
        for k in set(a.env) | set(b.env):
            if k in a.env and k in b.env:
                env[k] = self.join_val(a.env[k], b.env[k], a, b)
            else:
                # bound on one side only: unknown (reading it where unbound raises; liveness is over-approximated)
                self.escape_val(a.env.get(k, TOP), a)
                self.escape_val(b.env.get(k, TOP), b)
                env[k] = TOP
        heap = {}
        for o in set(a.heap) | set(b.heap):
            if o in a.heap and o in b.heap:
                heap[o] = _D.join(a.heap[o], b.heap[o])
            else:
                heap[o] = (a.heap.get(o) or b.heap.get(o))
        return _St(env, heap)

    def escape_val(self, v, st):
        """the value is handed to code the analysis does not follow"""
        if v[0] == "ref":
            d = st.heap.get(v[1])
            if d is not None and not d.esc:
                st.heap[v[1]] = d.escaped()
        elif v[0] == "view":
            self.escape_val(("ref", v[1]), st)
        elif v[0] == "tuple":
            for x in v[1]:
                self.escape_val(x, st)
        elif v[0] == "list" or (v[0] == "keyset" and not v[3]):
            # a mutable list / set the analysis holds a snapshot of: whoever receives it may change it
            self.havoc_mutables(st)
            if v[0] == "list":
                for x in v[1]:
                    self.escape_val(x, st)
        elif v[0] == "func":
            node = self.funcs[v[1]]
            for n in ast.walk(node):
                if isinstance(n, ast.Name) and st.env.get(n.id, TOP)[0] in ("ref", "view") and not self._readonly_use(n):
                    self.escape_val(st.env[n.id], st)

    @staticmethod
    def havoc_mutables(st):
        for k, x in list(st.env.items()):
            if x[0] == "list" or (x[0] == "keyset" and not x[3]):
                st.env[k] = TOP

    @staticmethod
    def _storable(v):
        """values kept inside tracked dictionaries / tuples: immutable ones"""
        return v[0] in ("const", "obj", "top", "nn", "callable", "oneof") or (v[0] == "keyset" and v[3]) or (v[0] == "tuple" and all(KwFlow._storable(x) for x in v[1]))

    def to_keyset(self, v, st):
        """(must, may) of a set-like value, or None"""
        if v[0] == "keyset":
            return v[1], v[2]
        if v[0] == "ref" or (v[0] == "view" and v[2] == "keys"):
            d = st.heap.get(v[1])
            if d is not None and not d.esc:
                return d.must, d.may
            return frozenset(), None
        if v[0] in ("tuple", "list"):
            ks = set()
            for x in v[1]:
                if not self._hkey(x):
                    return None
                ks.add(x[2])
            return frozenset(ks), frozenset(ks)
        return None

    def _readonly_use(self, name_node):
        """the occurrence of a dictionary name only reads it"""
        p = self.parents.get(id(name_node))
        if isinstance(p, ast.Attribute) and p.value is name_node and p.attr in _READ_METHODS:
            g = self.parents.get(id(p))
            return isinstance(g, ast.Call) and g.func is p
        if isinstance(p, ast.Subscript) and p.value is name_node and isinstance(p.ctx, ast.Load):
            return True
        if isinstance(p, ast.Compare) and name_node in p.comparators and all(isinstance(o, (ast.In, ast.NotIn)) for o in p.ops):
            return True
        if isinstance(p, ast.comprehension) and p.iter is name_node:
            return True
        if isinstance(p, (ast.For, ast.AsyncFor)) and p.iter is name_node:
            return True
        if isinstance(p, ast.keyword) and p.arg is None:
            return True
        if isinstance(p, ast.Call) and isinstance(p.func, ast.Name) and p.func.id in _PURE_BUILTINS | {"dict"} and name_node in p.args:
            return True
        return False

    def escape_mentions(self, node, st):
        """a construct that is not evaluated (comprehension, class body, unsupported statement): dictionaries it may modify escape"""
        for n in ast.walk(node):
            if isinstance(n, ast.Name) and n.id in st.env and st.env[n.id][0] in ("ref", "view", "func", "tuple") and not self._readonly_use(n):
                self.escape_val(st.env[n.id], st)

    def note_exc(self, st):
        if not self.acc or st is None:
            return
        ent = self.acc[-1]
        if self.depth > ent[0]:
            st = _St(dict(self.frames[ent[0]]), dict(st.heap))
            for k in self.untracked:
                st.env.pop(k, None)
        ent[1] = self.join(ent[1], st.copy())

    def tick(self):
        self.steps += 1
        if self.steps > self.MAX_STEPS:
            raise _Abort("step budget")

    # ------------------------------------------------------------------ truth
    def truth(self, v, st):
        if v[0] == "const":
            return bool(v[2])
        if v[0] == "oneof":
            ts = {bool(x[1]) for x in v[1]}
            return ts.pop() if len(ts) == 1 else None
        if v[0] in ("func", "callable"):
            return True
        if v[0] == "obj":
            return True if v[2] else None  # an instance of a program class may define __bool__ / __len__
        if v[0] in ("tuple", "list"):
            return bool(v[1])
        if v[0] == "keyset":
            if v[1]:
                return True
            if v[2] is not None and not v[2]:
                return False
            return None
        if v[0] in ("ref", "view"):
            d = st.heap.get(v[1])
            if d is None or d.esc:
                return None
            if d.must:
                return True
            if d.may is not None and not d.may:
                return False
        return None

    @staticmethod
    def _identical(a, b):
        """a is b: True / False / None"""
        if a[0] == "oneof" or b[0] == "oneof":
            o, x = (a, b) if a[0] == "oneof" else (b, a)
            if _is_const(x) and x[2] is None:
                return False if all(y[1] is not None for y in o[1]) else None
            if x[0] in ("obj", "ref", "tuple", "list", "keyset", "func", "callable"):
                return False
            return None
        if (a[0] == "nn" and _is_const(b) and b[2] is None) or (b[0] == "nn" and _is_const(a) and a[2] is None):
            return False
        if (a[0] == "nn" and b[0] in ("obj", "ref", "func", "callable", "list")) or (b[0] == "nn" and a[0] in ("obj", "ref", "func", "callable", "list")):
            return False  # a freshly computed value is not a pre-existing unique object
        if a[0] == "nn" or b[0] == "nn":
            return None
        if a[0] == "obj" or b[0] == "obj":
            if a[0] == "obj" and b[0] == "obj":
                return a[1] == b[1]
            if a[0] == "top" or b[0] == "top":
                return None
            return False
        if _is_const(a) and _is_const(b):
            va, vb = a[2], b[2]
            if va is None or vb is None or isinstance(va, bool) or isinstance(vb, bool):
                return va is vb
            if a[1] != b[1] or va != vb:
                return False
            return None  # equal immutable values: identity is an implementation detail
        if {a[0], b[0]} <= {"const", "ref", "tuple", "list", "keyset", "view", "func", "callable"} and a[0] != b[0]:
            if _is_const(a) and a[2] is None or _is_const(b) and b[2] is None:
                return False
        return None

    @staticmethod
    def _equal(a, b):
        if a[0] == "oneof" or b[0] == "oneof":
            xa, xb = KwFlow._alts(a), KwFlow._alts(b)
            if xa is not None and xb is not None and not (xa & xb):
                return False
            return None
        if (a[0] == "nn" and _is_const(b) and b[2] is None) or (b[0] == "nn" and _is_const(a) and a[2] is None):
            return False  # None compares equal to None only (no class of the program overrides __eq__ to claim otherwise for bytes / numbers / strings)
        if a[0] == "nn" or b[0] == "nn":
            return None
        if a[0] == "obj" or b[0] == "obj":
            # only the plain `object()` is known to compare by identity
            if a[0] == "obj" and b[0] == "obj":
                return (a[1] == b[1]) if (a[2] and b[2]) else (True if a[1] == b[1] and a[2] else None)
            o, x = (a, b) if a[0] == "obj" else (b, a)
            if o[2] and x[0] == "const":
                return False
            return None
        if _is_const(a) and _is_const(b):
            try:
                return bool(a[2] == b[2])
            except Exception:
                return None
        if (_is_const(a) and a[2] is None and b[0] in ("ref", "tuple", "list", "keyset", "func", "callable")) or (_is_const(b) and b[2] is None and a[0] in ("ref", "tuple", "list", "keyset", "func", "callable")):
            return False
        return None

    def contains(self, item, cont, st):
        """item in cont: True / False / None"""
        if cont[0] in ("ref", "view"):
            if cont[0] == "view" and cont[2] != "keys":
                return None
            d = st.heap.get(cont[1])
            if d is None:
                return None
            if d.may is not None and not d.may and not d.esc:
                return False
            if _is_const(item):
                try:
                    hash(item[2])
                except TypeError:
                    return None
                return d.has(item[2])
            return None
        if item[0] == "oneof" and cont[0] in ("keyset", "tuple", "list", "ref", "view"):
            rs = {self.contains(K(x[1]), cont, st) for x in item[1]}
            return rs.pop() if len(rs) == 1 else None
        if cont[0] == "keyset":
            if cont[2] is not None and not cont[2]:
                return False
            if _is_const(item):
                try:
                    hash(item[2])
                except TypeError:
                    return None
                if item[2] in cont[1]:
                    return True
                if cont[2] is not None and item[2] not in cont[2]:
                    return False
            return None
        if cont[0] in ("tuple", "list"):
            res = False
            for x in cont[1]:
                e = self._equal(item, x)
                if e is True:
                    return True
                if e is None:
                    res = None
            return res
        if _is_const(cont) and isinstance(cont[2], (str, bytes)) and _is_const(item) and type(item[2]) is type(cont[2]):
            return item[2] in cont[2]
        return None

    # ------------------------------------------------------------------ expressions
    def ev(self, e, st):
        self.tick()
        m = getattr(self, "ev_" + type(e).__name__, None)
        if m is not None:
            return m(e, st)
        if isinstance(e, (ast.Yield, ast.YieldFrom)):
            raise _Abort("generator")
        self.unmodelled(st)
        for c in ast.iter_child_nodes(e):
            if isinstance(c, ast.expr):
                self.escape_val(self.ev(c, st), st)
        return TOP

    def ev_Constant(self, e, st):
        v = e.value
        if v is None or isinstance(v, (bool, int, str, bytes, float)):
            return K(v)
        return TOP

    def ev_Name(self, e, st):
        if e.id in self.untracked:
            return TOP
        if e.id in st.env:
            return st.env[e.id]
        if e.id in self.locals or self.depth and any(e.id in f for f in self.frames):
            return TOP
        return self.module_value(e.id)

    def module_value(self, name):
        if name not in self._modvals:
            self._modvals[name] = self._module_value(name)
        return self._modvals[name]

    def _module_value(self, name):
        mod = self.fi.module
        found = []
        for s in ast.walk(mod.tree):
            if isinstance(s, ast.Global) and name in s.names:
                return TOP
        for s in mod.tree.body:
            tg = []
            if isinstance(s, ast.Assign):
                tg = [(t, s.value) for t in s.targets]
            elif isinstance(s, ast.AnnAssign) and s.value is not None:
                tg = [(s.target, s.value)]
            elif isinstance(s, (ast.AugAssign, ast.For, ast.With, ast.If, ast.Try, ast.While, ast.FunctionDef, ast.ClassDef, ast.AsyncFunctionDef, ast.Import, ast.ImportFrom)):
                for n in ast.walk(s):
                    if isinstance(n, ast.Name) and n.id == name and isinstance(n.ctx, (ast.Store, ast.Del)):
                        return TOP
                    if isinstance(n, ast.alias) and (n.asname or n.name).split(".")[0] == name:
                        return TOP
                    if isinstance(n, (ast.FunctionDef, ast.ClassDef, ast.AsyncFunctionDef)) and n.name == name and n in mod.tree.body:
                        return TOP
                continue
            for t, v in tg:
                for n in ast.walk(t):
                    if isinstance(n, ast.Name) and n.id == name:
                        found.append((t, v))
        if len(found) != 1 or not isinstance(found[0][0], ast.Name):
            return TOP
        return self.static_value(found[0][1], "%s.%s" % (mod.name, name))

    def static_value(self, v, tag):
        if isinstance(v, ast.Constant):
            return self.ev_Constant(v, None)
        if isinstance(v, ast.Call) and isinstance(v.func, ast.Name) and v.func.id == "object" and not v.args and not v.keywords:
            return ("obj", tag, True)
        if isinstance(v, ast.Call) and chain(v.func):
            # an instance of a class of the program created once at import time: a unique, non-None object
            try:
                q = self.prog.resolve_in_module(self.fi.module, chain(v.func))
            except Exception:
                q = None
            if q in self.prog.classes:
                return ("obj", tag, False)
            if chain(v.func) in ("frozenset", "set") and len(v.args) == 1 and not v.keywords and isinstance(v.args[0], (ast.Tuple, ast.List, ast.Set)):
                ks = self._const_elts(v.args[0])
                if ks is not None and (chain(v.func) == "frozenset" or not self._module_mutates(tag.split(".")[-1])):
                    return ("keyset", ks, ks, True)
            return TOP
        if isinstance(v, ast.Set):
            ks = self._const_elts(v)
            if ks is not None and not self._module_mutates(tag.split(".")[-1]):
                return ("keyset", ks, ks, True)
            return TOP
        if isinstance(v, ast.Tuple) and not any(isinstance(x, ast.Starred) for x in v.elts):
            return ("tuple", tuple(self.static_value(x, "%s[%d]" % (tag, i)) if isinstance(x, (ast.Constant, ast.Tuple, ast.Name, ast.Attribute)) else TOP for i, x in enumerate(v.elts)))
        if isinstance(v, (ast.Name, ast.Attribute)) and chain(v):
            # a function / class named in a module-level table: calling the table entry calls it
            try:
                q = self.prog.resolve_in_module(self.fi.module, chain(v))
            except Exception:
                q = None
            if q in self.prog.classes or q in self.prog.funcs:
                return ("callable", chain(v))
        return TOP

    @staticmethod
    def _const_elts(node):
        ks = set()
        for x in node.elts:
            if not (isinstance(x, ast.Constant) and isinstance(x.value, (str, int, bytes)) and not isinstance(x.value, bool)):
                return None
            ks.add(x.value)
        return frozenset(ks)

    def _module_mutates(self, name):
        """the module calls a mutating method on / augments the module-level collection `name`"""
        for n in ast.walk(self.fi.module.tree):
            if isinstance(n, ast.Attribute) and isinstance(n.value, ast.Name) and n.value.id == name and n.attr in _MUTATING:
                return True
            if isinstance(n, ast.AugAssign) and isinstance(n.target, ast.Name) and n.target.id == name:
                return True
        return False

    def ev_NamedExpr(self, e, st):
        v = self.ev(e.value, st)
        self.assign(e.target, v, st)
        return v

    def ev_Tuple(self, e, st):
        if any(isinstance(x, ast.Starred) for x in e.elts):
            for x in e.elts:
                self.escape_val(self.ev(x.value if isinstance(x, ast.Starred) else x, st), st)
            return TOP
        return ("tuple", tuple(self._elt(self.ev(x, st), st) for x in e.elts))

    def _elt(self, v, st):
        """element of a tracked tuple / list: only immutable values are kept"""
        if self._storable(v) or v[0] == "func":
            return v
        self.escape_val(v, st)
        return TOP

    def ev_List(self, e, st):
        if any(isinstance(x, ast.Starred) for x in e.elts):
            for x in e.elts:
                self.escape_val(self.ev(x.value if isinstance(x, ast.Starred) else x, st), st)
            return TOP
        # a snapshot: forgotten as soon as the list may be modified (mutating method, handed to unknown code)
        return ("list", tuple(self._elt(self.ev(x, st), st) for x in e.elts))

    def ev_Set(self, e, st):
        must, may = frozenset(), frozenset()
        ok = True
        rest = []
        for x in e.elts:
            v = self.ev(x.value if isinstance(x, ast.Starred) else x, st)
            if isinstance(x, ast.Starred):
                ks = self.to_keyset(v, st)  # {*mapping, ...}: its keys (read only)
                if ks is None:
                    ok = False
                    rest.append(v)
                else:
                    must = must | ks[0]
                    may = None if (may is None or ks[1] is None) else may | ks[1]
            elif self._hkey(v):
                must = must | {v[2]}
                may = None if may is None else may | {v[2]}
            else:
                ok = False
                rest.append(v)
        if ok:
            return ("keyset", must, may, False)
        for v in rest:
            self.escape_val(v, st)
        return TOP

    def ev_Dict(self, e, st):
        d = _D()
        ok = True
        for k, v in zip(e.keys, e.values):
            if k is None:
                src = self.ev(v, st)
                sd = st.heap.get(src[1]) if src[0] == "ref" else None
                if sd is None or sd.esc:
                    self.escape_val(src, st)
                    ok = False
                    continue
                for kk in (sd.may if sd.may is not None else ()):
                    if sd.has(kk):
                        d = d.with_key(kk, sd.val(kk))
                    else:
                        d = _D.join(d, d.with_key(kk, sd.val(kk)))
                if sd.may is None:
                    d = d.with_unknown_key()
                continue
            kv = self.ev(k, st)
            vv = self.ev(v, st)
            if not self._storable(vv):
                self.escape_val(vv, st)
                vv = TOP
            if _is_const(kv) and isinstance(kv[2], (str, int, bytes)) :
                d = d.with_key(kv[2], vv)
            elif kv[0] == "oneof" and all(isinstance(x[1], (str, int, bytes)) and not isinstance(x[1], bool) for x in kv[1]):
                alt = None
                for _t, x in sorted(kv[1], key=repr):
                    alt = d.with_key(x, vv) if alt is None else _D.join(alt, d.with_key(x, vv))
                d = alt
            else:
                d = d.with_unknown_key()
        oid = "dict@%d" % id(e)
        if oid in st.heap or not ok:
            d = d.escaped()
        st.heap[oid] = d
        return ("ref", oid)

    # -- comprehensions
    _CONSUMERS = {"tuple", "list", "dict", "set", "frozenset", "sorted", "any", "all", "sum", "min", "max", "next"}

    def _consumed_at_once(self, e):
        """a generator expression whose elements are all produced where it is written"""
        p = self.parents.get(id(e))
        if isinstance(p, ast.Call) and e in p.args and (isinstance(p.func, ast.Name) and p.func.id in self._CONSUMERS or isinstance(p.func, ast.Attribute) and p.func.attr == "join"):
            return True
        if isinstance(p, ast.Starred):
            return True
        if isinstance(p, ast.Assign) and p.value is e and all(isinstance(t, (ast.Tuple, ast.List)) for t in p.targets):
            return True
        if isinstance(p, (ast.For, ast.comprehension)) and p.iter is e:
            return True
        return False

    def _comp_pure(self, e, st):
        """nothing in the comprehension can change tracked state"""
        for n in ast.walk(e):
            if isinstance(n, (ast.NamedExpr, ast.Await, ast.Yield, ast.YieldFrom)):
                return False
            if isinstance(n, ast.Name) and n.id in st.env and st.env[n.id][0] in ("ref", "view", "func", "list", "keyset") and not self._readonly_use(n):
                if st.env[n.id][0] in ("list", "keyset") and isinstance(n.ctx, ast.Load):
                    p = self.parents.get(id(n))
                    if not (isinstance(p, ast.Attribute) and p.attr in _MUTATING):
                        continue
                return False
        return True

    def _comp_elems(self, it, st, pure):
        """[(certain, element)] produced by iterating `it`, or None.  An unordered source is enumerated only for a
        comprehension that cannot change state (the order is then immaterial)."""
        if it[0] in ("tuple", "list"):
            return [(True, x) for x in it[1]]
        if not pure:
            return None
        if it[0] in ("ref", "view"):
            d = st.heap.get(it[1])
            if d is None or d.esc or d.may is None:
                return None
            kind = it[2] if it[0] == "view" else "keys"
            out = []
            for k in sorted(d.may, key=repr):
                kv = K(k)
                el = kv if kind == "keys" else (d.val(k) if kind == "values" else ("tuple", (kv, d.val(k))))
                out.append((d.has(k) is True, el))
            return out
        if it[0] == "keyset":
            if it[2] is None:
                return None
            return [(k in it[1], K(k)) for k in sorted(it[2], key=repr)]
        return None

    def _comp(self, e, st):
        self.unmodelled(st)
        lazy = isinstance(e, ast.GeneratorExp) and not self._consumed_at_once(e)
        pure = self._comp_pure(e, st)
        gens = e.generators
        if lazy or any(g.is_async for g in gens) or len(gens) > 2:
            it = self.ev(gens[0].iter, st)
            self.escape_mentions(e, st)
            self.escape_val(it, st) if it[0] == "func" else None
            return TOP
        bound = set()
        for g in gens:
            for n in ast.walk(g.target):
                if isinstance(n, ast.Name):
                    bound.add(n.id)
        saved = {k: st.env[k] for k in bound if k in st.env}
        results = []  # (certain, key value or None, value)

        class _GiveUp(Exception):
            pass

        def run(gi, certain):
            if gi == len(gens):
                self.tick()
                if isinstance(e, ast.DictComp):
                    results.append((certain, self.ev(e.key, st), self.ev(e.value, st)))
                else:
                    results.append((certain, None, self.ev(e.elt, st)))
                return
            g = gens[gi]
            it = self.ev(g.iter, st)
            elems = self._comp_elems(it, st, pure)
            if elems is None or len(elems) > 4 * self.MAX_UNROLL:
                raise _GiveUp()
            for cert, el in elems:
                self.assign(g.target, el, st)
                c = certain and cert
                skip = False
                for cond in g.ifs:
                    t = self.truth(self.ev(cond, st), st)
                    if t is False:
                        skip = True
                        break
                    if t is None:
                        if not pure:
                            raise _GiveUp()
                        c = False
                if not skip:
                    if not c and not pure:
                        raise _GiveUp()
                    run(gi + 1, c)

        snapshot = st.copy()
        try:
            run(0, True)
        except _GiveUp:
            st.env, st.heap = snapshot.env, snapshot.heap
            self.ev(gens[0].iter, st)
            self.escape_mentions(e, st)
            return TOP
        finally:
            for k in bound:
                st.env.pop(k, None)
            st.env.update(saved)
        if isinstance(e, ast.DictComp):
            d = _D()
            for cert, k, v in results:
                if not self._storable(v):
                    self.escape_val(v, st)
                    v = TOP
                if self._hkey(k):
                    d = d.with_key(k[2], v) if cert else _D.join(d, d.with_key(k[2], v))
                else:
                    d = d.with_unknown_key()
            oid = "comp@%d" % id(e)
            if oid in st.heap:
                d = d.escaped()
            st.heap[oid] = d
            return ("ref", oid)
        if isinstance(e, ast.SetComp):
            if all(self._hkey(v) for _c, _k, v in results):
                return ("keyset", frozenset(v[2] for c, _k, v in results if c), frozenset(v[2] for _c, _k, v in results), False)
            for _c, _k, v in results:
                self.escape_val(v, st)
            return TOP
        if all(c for c, _k, _v in results):
            return ("list" if isinstance(e, ast.ListComp) else "tuple", tuple(self._elt(v, st) for _c, _k, v in results))
        for _c, _k, v in results:
            self.escape_val(v, st)
        return TOP

    ev_ListComp = ev_SetComp = ev_DictComp = ev_GeneratorExp = _comp

    def ev_Lambda(self, e, st):
        self.funcs[id(e)] = e
        return ("func", id(e))

    def ev_Await(self, e, st):
        self.unmodelled(st)
        if isinstance(e.value, ast.Call):
            return self.ev_Call(e.value, st, awaited=True)
        self.escape_val(self.ev(e.value, st), st)
        if self.selfname is not None:
            self.forget_self(st)  # other tasks run while this one waits
        return TOP

    def ev_Attribute(self, e, st):
        if isinstance(e.value, ast.Name) and e.value.id == self.selfname and self.depth == 0 and ("." + e.attr) in st.env:
            return st.env["." + e.attr]
        v = self.ev(e.value, st)
        # a bound method / attribute of a tracked value taken as a value
        self.escape_val(v, st)
        self.unmodelled(st)
        return TOP

    def forget_self(self, st):
        """the receiver was handed to code the analysis does not follow (or one of its methods runs): what was stored in
        its attributes is no longer known"""
        for k in [k for k in st.env if k.startswith(".")]:
            del st.env[k]
        st.env["<self escaped>"] = K(True)

    def plain_attr(self, attr):
        """`self.attr = v; ... self.attr` reads v back: no property / descriptor of that name in the class"""
        cls = getattr(self.fi, "cls", None)
        if cls is None:
            f = getattr(self.fi, "parent", None)
            while f is not None and cls is None:
                cls = getattr(f, "cls", None)
                f = getattr(f, "parent", None)
        if cls is None or self.selfname is None:
            return False
        if attr not in self._plain:
            ok = True
            try:
                for k in self.prog.mro(cls.qn):
                    ci = self.prog.classes.get(k)
                    if ci is None:
                        if k not in ("object", "builtins.object"):
                            ok = False
                        continue
                    if attr in ci.methods or attr in ci.attrs or "__setattr__" in ci.methods or "__getattribute__" in ci.methods or "__getattr__" in ci.methods or "__slots__" in ci.attrs and False:
                        ok = False
            except Exception:
                ok = False
            self._plain[attr] = ok
        return self._plain[attr]

    def ev_JoinedStr(self, e, st):
        self.unmodelled(st)
        for c in e.values:
            if isinstance(c, ast.FormattedValue):
                self.escape_val(self.ev(c.value, st), st)
        return NN

    def ev_Starred(self, e, st):
        self.ev(e.value, st)
        return TOP

    def ev_UnaryOp(self, e, st):
        v = self.ev(e.operand, st)
        if v[0] not in ("const", "obj", "tuple", "ref", "func", "callable", "keyset", "list"):
            self.unmodelled(st)  # __bool__ / __neg__ of an unknown object
        if isinstance(e.op, ast.Not):
            t = self.truth(v, st)
            return TOP if t is None else K(not t)
        if _is_const(v) and isinstance(v[2], (int, float)) and not isinstance(v[2], bool):
            if isinstance(e.op, ast.USub):
                return K(-v[2])
            if isinstance(e.op, ast.UAdd):
                return v
        self.escape_val(v, st)
        return TOP

    def ev_BinOp(self, e, st):
        l = self.ev(e.left, st)
        r = self.ev(e.right, st)
        if not (_is_const(l) and _is_const(r)):
            self.unmodelled(st)
        if _is_const(l) and _is_const(r) and type(l[2]) is type(r[2]) and isinstance(l[2], (int, str, bytes)) and not isinstance(l[2], bool):
            try:
                if isinstance(e.op, ast.Add):
                    return K(l[2] + r[2])
                if isinstance(l[2], int):
                    if isinstance(e.op, ast.Sub):
                        return K(l[2] - r[2])
                    if isinstance(e.op, ast.Mult) and abs(l[2]) < 2 ** 32 and abs(r[2]) < 2 ** 32:
                        return K(l[2] * r[2])
            except Exception:
                pass
        # set algebra on key views / sets of constants (`kw.keys() & {...}`, `set(kw) - FIELDS`): reads only
        if isinstance(e.op, (ast.BitAnd, ast.BitOr, ast.Sub)) and l[0] in ("keyset", "view") and r[0] in ("keyset", "view"):
            a, b = self.to_keyset(l, st), self.to_keyset(r, st)
            if a is not None and b is not None:
                (am, ay), (bm, by) = a, b
                if isinstance(e.op, ast.BitAnd):
                    may = (ay & by) if (ay is not None and by is not None) else (ay if by is None else by)
                    return ("keyset", am & bm, may, False)
                if isinstance(e.op, ast.BitOr):
                    return ("keyset", am | bm, None if (ay is None or by is None) else ay | by, False)
                return ("keyset", (am - by) if by is not None else frozenset(), ay if ay is None else ay - bm, False)
            return TOP
        if isinstance(e.op, ast.BitOr) and l[0] == "ref" and r[0] == "ref":
            # d1 | d2: a new dictionary, d1 updated with d2 (reads both)
            d, src = st.heap.get(l[1]), st.heap.get(r[1])
            if d is not None and src is not None and not d.esc and not src.esc:
                nd = _D(d.must, d.may, dict(d.vals))
                if src.may is None:
                    nd = nd.with_unknown_key()
                    nd = _D(nd.must | src.must, None, {})
                else:
                    for kk in sorted(src.may, key=repr):
                        nd = nd.with_key(kk, src.val(kk)) if src.has(kk) else _D.join(nd, nd.with_key(kk, src.val(kk)))
                oid = "or@%d" % id(e)
                st.heap[oid] = nd.escaped() if oid in st.heap else nd
                return ("ref", oid)
        if isinstance(e.op, ast.Add) and l[0] in ("tuple", "list") and r[0] == l[0]:
            return (l[0], l[1] + r[1])
        self.escape_val(l, st)
        self.escape_val(r, st)
        return NN  # arithmetic / concatenation / formatting does not produce None

    def ev_BoolOp(self, e, st):
        is_and = isinstance(e.op, ast.And)
        res = None  # joined value of the operands that can be the result
        resst = None  # joined state of the evaluations that stopped early
        cur = st
        last = TOP
        for i, x in enumerate(e.values):
            if i:
                self.cand.add(id(x))
            self.live.add(id(x))
            try:
                v = self.ev(x, cur)
            except _AbsRaise as r:
                if resst is None:
                    raise
                # an earlier operand may have ended the evaluation: the expression does not certainly raise
                self.note_exc(r.st)
                st.env, st.heap = resst.env, resst.heap
                return res
            last = v
            if i == len(e.values) - 1:
                break
            t = self.truth(v, cur)
            if t is None:
                # may stop here
                t_st, f_st = cur.copy(), cur
                self.refine(x, t_st, not is_and)
                self.refine(x, f_st, is_and)
                res = v if res is None else (res if res == v else TOP)
                resst = self.join(resst, t_st)
                cur = f_st
                continue
            if t != is_and:
                # certainly stops here
                break
        if resst is not None:
            j = self.join(resst, cur)
            st.env, st.heap = j.env, j.heap
            return last if res == last else TOP
        if cur is not st:
            st.env, st.heap = cur.env, cur.heap
        return last

    def ev_IfExp(self, e, st):
        tv = self.ev(e.test, st)
        t = self.truth(tv, st)
        self.cand.add(id(e.body))
        self.cand.add(id(e.orelse))
        if t is True:
            self.live.add(id(e.body))
            return self.ev(e.body, st)
        if t is False:
            self.live.add(id(e.orelse))
            return self.ev(e.orelse, st)
        a, b = st.copy(), st.copy()
        self.refine(e.test, a, True)
        self.refine(e.test, b, False)
        self.live.add(id(e.body))
        self.live.add(id(e.orelse))
        ra = rb = None
        va = vb = TOP
        try:
            va = self.ev(e.body, a)
            ra = a
        except _AbsRaise as r:
            self.note_exc(r.st)
        try:
            vb = self.ev(e.orelse, b)
            rb = b
        except _AbsRaise as r:
            if ra is None:
                raise
            self.note_exc(r.st)
        if ra is None and rb is None:
            raise _AbsRaise("?", st)
        j = self.join(ra, rb)
        st.env, st.heap = j.env, j.heap
        if ra is None:
            return vb
        if rb is None:
            return va
        fresh = (ast.Dict, ast.DictComp)
        if va[0] == "ref" and vb[0] == "ref" and va != vb and all(isinstance(x, fresh) or (isinstance(x, ast.Call) and chain(x.func) == "dict") for x in (e.body, e.orelse)):
            # either of two dictionaries made on the spot: one object that is their join (nothing else refers to them)
            da, db = ra.heap.get(va[1]), rb.heap.get(vb[1])
            if da is not None and db is not None:
                oid = "either@%d" % id(e)
                st.heap[oid] = _D.join(da, db).escaped() if oid in st.heap else _D.join(da, db)
                return ("ref", oid)
        return va if va == vb else self.join_val(va, vb, st, st)

    def ev_Compare(self, e, st):
        left = self.ev(e.left, st)
        result = True
        for op, c in zip(e.ops, e.comparators):
            right = self.ev(c, st)
            r = None
            if not isinstance(op, (ast.Is, ast.IsNot)) and not ((_is_const(left) or left[0] == "obj") and (right[0] in ("const", "obj", "tuple", "keyset", "ref", "view", "list"))):
                self.unmodelled(st)  # __eq__ / __lt__ / __contains__ of an unknown object
            if isinstance(op, ast.Is):
                r = self._identical(left, right)
            elif isinstance(op, ast.IsNot):
                r = self._identical(left, right)
                r = None if r is None else not r
            elif isinstance(op, ast.Eq):
                r = self._equal(left, right)
            elif isinstance(op, ast.NotEq):
                r = self._equal(left, right)
                r = None if r is None else not r
            elif isinstance(op, (ast.In, ast.NotIn)):
                r = self.contains(left, right, st)
                if r is not None and isinstance(op, ast.NotIn):
                    r = not r
            elif _is_const(left) and _is_const(right) and isinstance(left[2], (int, float)) and isinstance(right[2], (int, float)):
                a, b = left[2], right[2]
                r = {ast.Lt: a < b, ast.LtE: a <= b, ast.Gt: a > b, ast.GtE: a >= b}.get(type(op))
            if r is False:
                # the remaining comparators are not evaluated
                return K(False)
            if r is None:
                result = None
            left = right
        return TOP if result is None else K(True)

    def ev_Subscript(self, e, st):
        recv = self.ev(e.value, st)
        if isinstance(e.slice, ast.Slice):
            for x in (e.slice.lower, e.slice.upper, e.slice.step):
                if x is not None:
                    self.ev(x, st)
            return NN  # a slice of a sequence is a sequence
        key = self.ev(e.slice, st)
        if recv[0] == "ref":
            return self.dict_get(recv, key, st, strict=True)
        if not (recv[0] in ("tuple", "list") and _is_const(key) and isinstance(key[2], int) and not isinstance(key[2], bool) and -len(recv[1]) <= key[2] < len(recv[1])):
            self.unmodelled(st)
        if recv[0] in ("tuple", "list") and _is_const(key) and isinstance(key[2], int) and not isinstance(key[2], bool) and -len(recv[1]) <= key[2] < len(recv[1]):
            return recv[1][key[2]]
        return TOP

    # -- dictionaries
    @staticmethod
    def _hkey(key):
        if _is_const(key):
            try:
                hash(key[2])
                return True
            except TypeError:
                return False
        return False

    def dict_get(self, recv, key, st, strict, default=None, remove=False):
        """d[k] (strict) / d.get(k, default) / d.pop(k[, default])"""
        d = st.heap.get(recv[1])
        if d is None or d.esc:
            self.unmodelled(st)
            return TOP
        if self._hkey(key):
            k = key[2]
            h = d.has(k)
            if h is None and strict:
                self.unmodelled(st)  # may or may not raise KeyError
            v = d.val(k)
            if remove:
                st.heap[recv[1]] = d.without(k)
            if h is True:
                return v
            if h is False:
                if strict:
                    raise _AbsRaise("KeyError", st)
                return default if default is not None else K(None)
            if strict:
                return v
            dv = default if default is not None else K(None)
            return v if v == dv else TOP
        # unknown key
        self.unmodelled(st)
        if d.may is not None and not d.may:
            if strict:
                raise _AbsRaise("KeyError", st)
            return default if default is not None else K(None)
        if remove:
            st.heap[recv[1]] = d.without_unknown()
        return TOP

    def dict_method(self, e, recv, attr, st):
        oid = recv[1]
        args = []
        for a in e.args:
            if isinstance(a, ast.Starred):
                self.escape_val(self.ev(a.value, st), st)
                args.append(None)
            else:
                args.append(self.ev(a, st))
        kws = {}
        for k in e.keywords:
            v = self.ev(k.value, st)
            kws[k.arg] = v
        d = st.heap.get(oid)
        if d is None:
            return TOP
        plain = None not in args and not kws
        if attr in ("get", "pop") and plain and len(args) in (1, 2):
            strict = attr == "pop" and len(args) == 1
            dflt = args[1] if len(args) == 2 else None
            if dflt is not None and not self._storable(dflt):
                self.escape_val(dflt, st)
                dflt = TOP
            return self.dict_get(recv, args[0], st, strict=strict, default=dflt, remove=(attr == "pop"))
        if attr == "__getitem__" and plain and len(args) == 1:
            return self.dict_get(recv, args[0], st, strict=True)
        if attr == "__contains__" and plain and len(args) == 1:
            r = self.contains(args[0], recv, st)
            return TOP if r is None else K(r)
        if attr == "__delitem__" and plain and len(args) == 1:
            self.dict_get(recv, args[0], st, strict=True, remove=True)
            return K(None)
        if attr in ("keys", "items", "values") and plain and not args:
            return ("view", oid, attr)
        if attr == "copy" and plain and not args:
            noid = "copy@%d" % id(e)
            st.heap[noid] = d.escaped() if noid in st.heap else _D(d.must, d.may, dict(d.vals), d.esc)
            return ("ref", noid)
        if attr == "clear" and plain and not args:
            if not d.esc:
                st.heap[oid] = _D()
            return K(None)
        if attr == "popitem" and plain and not args:
            if not d.esc and d.may is not None and not d.may:
                raise _AbsRaise("KeyError", st)
            st.heap[oid] = d.without_unknown()
            return TOP
        if attr in ("setdefault", "__setitem__") and plain and len(args) in (1, 2):
            v = args[1] if len(args) == 2 else K(None)
            if not self._storable(v):
                self.escape_val(v, st)
                v = TOP
            if self._hkey(args[0]):
                k = args[0][2]
                if attr == "setdefault":
                    h = d.has(k)
                    old = d.val(k)
                    st.heap[oid] = d.with_key(k, v, weak=True)
                    return old if h is True else (v if h is False else (v if v == old else TOP))
                st.heap[oid] = d.with_key(k, v)
                return K(None)
            st.heap[oid] = d.with_unknown_key()
            return TOP
        if attr == "update":
            nd = d
            for a in args:
                src = st.heap.get(a[1]) if a is not None and a[0] == "ref" else None
                if src is None or src.esc or src.may is None:
                    nd = nd.with_unknown_key()
                else:
                    for kk in src.may:
                        nd = nd.with_key(kk, src.val(kk)) if src.has(kk) else _D.join(nd, nd.with_key(kk, src.val(kk)))
            for k, v in kws.items():
                if k is None:
                    src = st.heap.get(v[1]) if v[0] == "ref" else None
                    if src is None or src.esc or src.may is None:
                        nd = nd.with_unknown_key()
                    else:
                        for kk in src.may:
                            nd = nd.with_key(kk, src.val(kk)) if src.has(kk) else _D.join(nd, nd.with_key(kk, src.val(kk)))
                else:
                    if not self._storable(v):
                        self.escape_val(v, st)
                        v = TOP
                    nd = nd.with_key(k, v)
            st.heap[oid] = nd
            return K(None)
        # anything else: not followed
        for a in args:
            if a is not None:
                self.escape_val(a, st)
        for v in kws.values():
            self.escape_val(v, st)
        self.escape_val(recv, st)
        return TOP

    # -- calls
    def ev_Call(self, e, st, awaited=False):
        r = self._ev_call(e, st, awaited)
        self._after_call(e, st, awaited)
        return r

    def _after_call(self, e, st, awaited):
        """what a call may have done to the attributes of the receiver of the analysed method"""
        sn = self.selfname
        if sn is None:
            return
        if not any(k.startswith(".") for k in st.env) and "<self escaped>" in st.env:
            return
        f = e.func
        if isinstance(f, ast.Name) and f.id not in st.env and f.id not in self.locals and f.id in _PURE_BUILTINS | {"dict", "getattr"}:
            return
        if isinstance(f, ast.Name) and st.env.get(f.id, TOP)[0] == "func":
            return  # evaluated in place: its stores were seen
        if isinstance(f, ast.Attribute):
            root = f.value
            while isinstance(root, (ast.Attribute, ast.Subscript)):
                root = root.value
            if isinstance(root, ast.Name) and st.env.get(root.id, TOP)[0] in ("ref", "view", "tuple", "list", "keyset", "const"):
                return  # a method of a tracked dictionary / constant
            if (isinstance(root, ast.Name) and root.id == sn) or (isinstance(root, ast.Call) and chain(root.func) == "super"):
                if self._passes_self(e) or isinstance(f.value, (ast.Name, ast.Call)):
                    self.forget_self(st)  # a method of the receiver itself
                else:
                    for k in [k for k in st.env if k.startswith(".")]:
                        del st.env[k]  # a method of something reached through the receiver
                return
        if isinstance(f, ast.Name) and f.id == "setattr" and e.args and isinstance(e.args[0], ast.Name) and e.args[0].id == sn:
            if len(e.args) == 3 and isinstance(e.args[1], ast.Constant) and isinstance(e.args[1].value, str):
                st.env.pop("." + e.args[1].value, None)
            else:
                for k in [k for k in st.env if k.startswith(".")]:
                    del st.env[k]
            return
        if self._passes_self(e) or "<self escaped>" in st.env or awaited:
            self.forget_self(st)

    def _passes_self(self, e):
        sn = self.selfname
        for a in list(e.args) + [k.value for k in e.keywords]:
            for n in ast.walk(a):
                if isinstance(n, ast.Name) and n.id == sn:
                    p = self.parents.get(id(n))
                    if not (isinstance(p, ast.Attribute) and p.value is n):
                        return True
        return False

    def _follow(self, e, st, awaited):
        """a call of a function of the program that is handed a tracked dictionary / list / local function: evaluated in
        place (what it does to that object is then known) -> (True, value) or (False, None)"""
        if self.depth >= self.MAX_DEPTH or any(isinstance(a, ast.Starred) for a in e.args) or any(k.arg is None for k in e.keywords):
            return False, None
        if not any(isinstance(n, ast.Name) and st.env.get(n.id, TOP)[0] in ("ref", "view", "list", "keyset", "func") for a in list(e.args) + [k.value for k in e.keywords] for n in ast.walk(a)):
            return False, None
        pc = self.program_callee(e, st, awaited)
        if pc is None:
            return False, None
        node, skip = pc
        self.funcs[id(node)] = node
        if isinstance(e.func, ast.Attribute):
            self.ev(e.func.value, st)
        return True, self.inline(("func", id(node)), e, st, awaited, closure=False, skip_first=skip)

    def _ev_call(self, e, st, awaited=False):
        f = e.func
        if isinstance(f, (ast.Name, ast.Attribute)):
            done, val = self._follow(e, st, awaited)
            if done:
                return val
        # every call is an operation that may raise anything -- except the methods of a tracked dictionary (exact) and
        # local functions evaluated in place (their own statements speak for themselves)
        if not (isinstance(f, ast.Attribute) and isinstance(f.value, ast.Name) and st.env.get(f.value.id, TOP)[0] == "ref" and f.attr in ("get", "pop", "setdefault", "keys", "items", "values", "copy", "clear", "__contains__")) and not (isinstance(f, ast.Name) and st.env.get(f.id, TOP)[0] == "func"):
            self.unmodelled(st)
        if isinstance(f, ast.Attribute):
            recv = self.ev(f.value, st)
            if recv[0] == "ref":
                return self.dict_method(e, recv, f.attr, st)
            if recv[0] == "view":
                # methods of a key/item view do not modify the dictionary
                for a in e.args:
                    self.ev(a.value if isinstance(a, ast.Starred) else a, st)
                return TOP
            if recv[0] in ("tuple", "const", "list", "keyset"):
                vals = self.call_args(e, st)
                if f.attr in _MUTATING and recv[0] in ("list", "keyset"):
                    self.havoc_mutables(st)
                    if f.attr in ("add", "append", "discard", "remove", "insert", "clear", "sort", "reverse"):
                        return K(None)  # the container keeps immutable arguments only by reference: nothing escapes
                if recv[0] == "keyset" and f.attr in ("intersection", "union", "difference") and len(vals) == 1 and not e.keywords:
                    o = self.to_keyset(vals[0], st)
                    if o is not None:
                        (am, ay), (bm, by) = (recv[1], recv[2]), o
                        if f.attr == "intersection":
                            return ("keyset", am & bm, (ay & by) if (ay is not None and by is not None) else (ay if by is None else by), False)
                        if f.attr == "union":
                            return ("keyset", am | bm, None if (ay is None or by is None) else ay | by, False)
                        return ("keyset", (am - by) if by is not None else frozenset(), ay if ay is None else ay - bm, False)
                for v in vals:
                    self.escape_val(v, st)
                return TOP
            self.escape_val(recv, st)
            for v in self.call_args(e, st):
                self.escape_val(v, st)
            return TOP
        if isinstance(f, ast.Name):
            fv = self.ev_Name(f, st)
            if fv[0] == "func":
                return self.inline(fv, e, st, awaited)
            shadow = f.id in st.env or f.id in self.locals
            if shadow and self.depth == 0 and f.id not in self.params:
                # a call through a local variable: which function it is (a table entry) or that it is not known
                vals = self.call_args(e, st)
                for v in vals:
                    self.escape_val(v, st)
                rec = self.callinfo.setdefault(id(e), {"pos": None, "kw": {}, "dstar": []})
                rec.setdefault("func", set()).add(fv[1] if fv[0] == "callable" else "?")
                return TOP
            if not shadow and f.id in _PURE_BUILTINS:
                vals = self.call_args(e, st)
                if f.id == "len" and len(vals) == 1:
                    v = vals[0]
                    if v[0] in ("tuple", "list"):
                        return K(len(v[1]))
                    if v[0] == "keyset":
                        return K(len(v[1])) if v[1] == v[2] else TOP
                    if v[0] in ("ref", "view"):
                        d = st.heap.get(v[1])
                        if d is not None and not d.esc and d.may is not None and d.must == d.may:
                            return K(len(d.may))
                    return TOP
                if f.id == "bool" and len(vals) == 1:
                    t = self.truth(vals[0], st)
                    return TOP if t is None else K(t)
                if f.id in ("set", "frozenset") and not e.keywords and len(vals) <= 1:
                    ks = self.to_keyset(vals[0], st) if vals else (frozenset(), frozenset())
                    if ks is not None:
                        return ("keyset", ks[0], ks[1], f.id == "frozenset")
                    self.escape_val(vals[0], st)
                    return TOP
                if f.id in ("list", "tuple", "sorted", "iter", "reversed") and len(vals) == 1 and not e.keywords:
                    v = vals[0]
                    if v[0] in ("ref", "view"):
                        d = st.heap.get(v[1])
                        if d is not None and not d.esc and d.may is not None and not d.may:
                            return ("tuple", ())
                        return TOP
                    if v[0] == "keyset":
                        if v[2] is not None and not v[2]:
                            return ("tuple", ())
                        if f.id == "sorted" and v[1] == v[2] and len({type(x) for x in v[1]}) == 1:
                            return ("list", tuple(K(x) for x in sorted(v[1])))
                        return TOP
                    if v[0] in ("tuple", "list"):
                        if f.id == "tuple":
                            return ("tuple", v[1])
                        if f.id == "list":
                            return ("list", v[1])
                        if f.id == "reversed":
                            return ("tuple", tuple(reversed(v[1])))
                    return TOP
                if f.id == "object" and not vals:
                    return ("obj", "local@%d" % id(e), True)
                for v in vals:
                    if v[0] == "func":
                        self.escape_val(v, st)
                return TOP
            if not shadow and f.id == "setattr" and not e.keywords and e.args and not isinstance(e.args[0], ast.Starred):
                vals = self.call_args(e, st)  # `setattr(obj, *item)` passes the elements of a tracked tuple
                for v in vals[2:]:
                    self.escape_val(v, st)
                if self.depth == 0:
                    nm = vals[1] if len(vals) == 3 and not any(isinstance(a, ast.Starred) and self.callinfo.get(id(e), {}).get("pos") is None and False for a in e.args) else TOP
                    if len(vals) != 3:
                        nm = TOP
                    self.setattrs.setdefault(id(e), set()).add(nm[2] if _is_const(nm) and isinstance(nm[2], str) else "?")
                return K(None)
            if not shadow and f.id == "getattr" and len(e.args) in (2, 3) and not e.keywords:
                vals = self.call_args(e, st)
                if vals[0][0] in ("ref", "view", "list", "keyset", "func"):
                    self.escape_val(vals[0], st)
                return TOP
            if not shadow and f.id == "dict":
                return self.dict_ctor(e, st)
            for v in self.call_args(e, st):
                self.escape_val(v, st)
            return TOP
        fv = self.ev(f, st)
        self.escape_val(fv, st)
        for v in self.call_args(e, st):
            self.escape_val(v, st)
        return TOP

    def call_args(self, e, st):
        """evaluate the arguments in order -> values that are handed to the callee (`*x` / `**x` only read x)"""
        out = []
        rec = {"pos": [], "kw": {}, "dstar": []}
        for a in e.args:
            if isinstance(a, ast.Starred):
                v = self.ev(a.value, st)
                rec["pos"] = None
                if v[0] in ("tuple", "list"):
                    out.extend(v[1])
                elif v[0] not in ("ref", "view", "keyset"):
                    out.append(v)
            else:
                v = self.ev(a, st)
                out.append(v)
                if rec["pos"] is not None:
                    rec["pos"].append(v)
        for k in e.keywords:
            v = self.ev(k.value, st)
            if k.arg is None:
                d = st.heap.get(v[1]) if v[0] == "ref" else None
                if d is not None and not d.esc and d.may is not None and all(isinstance(x, str) for x in d.may):
                    rec["dstar"].append((d.must, d.may, tuple(sorted(d.vals.items()))))
                    out.extend(x for x in d.vals.values())
                    continue
                rec["dstar"].append(None)
                if v[0] == "ref":
                    continue
            else:
                rec["kw"][k.arg] = v
            out.append(v)
        if self.depth == 0:
            old = self.callinfo.get(id(e))
            self.callinfo[id(e)] = rec if old is None else self._join_rec(old, rec)
        return out

    @staticmethod
    def _join_rec(a, b):
        """what a call site passes, over several evaluations of it"""
        out = {"pos": None, "kw": {}, "dstar": []}
        if "func" in a or "func" in b:
            out["func"] = set(a.get("func", ())) | set(b.get("func", ()))
        if a["pos"] is not None and b["pos"] is not None and len(a["pos"]) == len(b["pos"]):
            out["pos"] = [x if x == y else TOP for x, y in zip(a["pos"], b["pos"])]
        for k in set(a["kw"]) | set(b["kw"]):
            x, y = a["kw"].get(k, TOP), b["kw"].get(k, TOP)
            out["kw"][k] = x if x == y else TOP
        if len(a["dstar"]) != len(b["dstar"]):
            out["dstar"] = [None] * max(len(a["dstar"]), len(b["dstar"]))
        else:
            for x, y in zip(a["dstar"], b["dstar"]):
                if x is None or y is None:
                    out["dstar"].append(None)
                    continue
                vx, vy = dict(x[2]), dict(y[2])
                vals = {k: (vx[k] if vx.get(k) == vy.get(k) else TOP) for k in set(vx) | set(vy)}
                out["dstar"].append((x[0] & y[0], x[1] | y[1], tuple(sorted(vals.items()))))
        return out

    def dict_ctor(self, e, st):
        d = _D()
        ok = True
        for a in e.args:
            v = self.ev(a.value if isinstance(a, ast.Starred) else a, st)
            src = st.heap.get(v[1]) if v[0] == "ref" and not isinstance(a, ast.Starred) else None
            if src is None or src.esc:
                self.escape_val(v, st) if v[0] != "ref" else None
                ok = False
                continue
            d = _D(src.must, src.may, dict(src.vals))
        for k in e.keywords:
            v = self.ev(k.value, st)
            if k.arg is None:
                src = st.heap.get(v[1]) if v[0] == "ref" else None
                if src is None or src.esc or src.may is None:
                    d = d.with_unknown_key()
                else:
                    for kk in src.may:
                        d = d.with_key(kk, src.val(kk)) if src.has(kk) else _D.join(d, d.with_key(kk, src.val(kk)))
                continue
            if not self._storable(v):
                self.escape_val(v, st)
                v = TOP
            d = d.with_key(k.arg, v)
        oid = "dict@%d" % id(e)
        if oid in st.heap or not ok:
            d = d.escaped()
        st.heap[oid] = d
        return ("ref", oid)

    def program_callee(self, call, st, awaited):
        """The function of the program (same module) that the call certainly runs -- `f(..)`, `self.m(..)`, `cls.m(..)`,
        `Class.m(..)` without dynamic dispatch, decorators (other than staticmethod / classmethod), generators -- or None.
        -> (def node, skip first parameter?)"""
        f = call.func
        prog, fi = self.prog, self.fi
        target = None
        bound = False
        try:
            if isinstance(f, ast.Name):
                if f.id in st.env or f.id in self.locals:
                    return None
                q = prog.resolve_in_module(fi.module, f.id)
                cf = prog.funcs.get(q)
                if cf is not None and cf.cls is None:
                    target = cf
            elif isinstance(f, ast.Attribute) and isinstance(f.value, ast.Name):
                cls = getattr(fi, "cls", None)
                g = fi
                while cls is None and getattr(g, "parent", None) is not None:
                    g = g.parent
                    cls = getattr(g, "cls", None)
                cq = None
                if f.value.id == self.selfname and self.depth == 0 and cls is not None:
                    cq, bound = cls.qn, True
                elif f.value.id not in st.env and f.value.id not in self.locals:
                    q = prog.resolve_in_module(fi.module, f.value.id)
                    if q in prog.classes:
                        cq = q
                if cq is not None:
                    m = prog.lookup_method(cq, f.attr)
                    if m is not None and not any(sc != cq and f.attr in prog.classes[sc].methods for sc in prog.subclasses(cq) if sc in prog.classes):
                        target = m
        except Exception:
            return None
        if target is None or target.module is not fi.module or not isinstance(target.node, (ast.FunctionDef, ast.AsyncFunctionDef)):
            return None
        node = target.node
        decos = {ast.unparse(d) for d in node.decorator_list}
        if decos - {"staticmethod", "classmethod"}:
            return None
        if isinstance(node, ast.AsyncFunctionDef) and not awaited:
            return None
        skip = (bound and "staticmethod" not in decos) or ("classmethod" in decos)
        if not bound and target.cls is not None and not decos:
            return None  # Class.method(obj, ..): the explicit receiver is passed positionally; not followed
        return node, skip

    def inline(self, fv, call, st, awaited, closure=True, skip_first=False):
        node = self.funcs[fv[1]]
        is_lambda = isinstance(node, ast.Lambda)
        a = node.args
        bad = self.depth >= self.MAX_DEPTH or a.vararg or a.kwarg or any(isinstance(x, ast.Starred) for x in call.args) or any(k.arg is None for k in call.keywords)
        if not is_lambda:
            bad = bad or (node.decorator_list and closure) or (isinstance(node, ast.AsyncFunctionDef) and not awaited)
            bad = bad or any(isinstance(n, (ast.Yield, ast.YieldFrom)) for n in _walk_own(node))
        vals = [self.ev(x, st) for x in call.args] if not bad else None
        if bad:
            self.escape_val(fv, st)
            for v in self.call_args(call, st):
                self.escape_val(v, st)
            return TOP
        names = [x.arg for x in a.posonlyargs + a.args]
        first = None
        if skip_first and names:
            first, names = names[0], names[1:]
        if len(vals) > len(names):
            self.escape_val(fv, st)
            for v in vals:
                self.escape_val(v, st)
            return TOP
        bound = dict(zip(names, vals))
        if first is not None:
            bound[first] = TOP
        for k in call.keywords:
            bound[k.arg] = self.ev(k.value, st)
        allp = a.posonlyargs + a.args
        for p, d in zip(reversed(allp), reversed(a.defaults)):
            if p.arg not in bound:
                bound[p.arg] = self.ev_Constant(d, st) if isinstance(d, ast.Constant) else TOP
        for p, d in zip(a.kwonlyargs, a.kw_defaults):
            if p.arg not in bound:
                bound[p.arg] = self.ev_Constant(d, st) if isinstance(d, ast.Constant) else TOP
        if any(p.arg not in bound for p in allp + a.kwonlyargs):
            self.escape_val(fv, st)
            return TOP
        own = set(bound)
        nonloc = set()
        if not is_lambda:
            for n in _walk_own(node):
                if isinstance(n, ast.Name) and isinstance(n.ctx, (ast.Store, ast.Del)):
                    own.add(n.id)
                elif isinstance(n, (ast.Nonlocal, ast.Global)):
                    nonloc |= set(n.names)
                elif isinstance(n, (ast.FunctionDef, ast.AsyncFunctionDef, ast.ClassDef)) and n is not node:
                    own.add(n.name)
                elif isinstance(n, ast.ExceptHandler) and n.name:
                    own.add(n.name)
        own -= nonloc
        saved = st.env
        env = {k: v for k, v in saved.items() if k not in own} if closure else {}
        env.update(bound)
        st.env = env
        self.frames.append(saved)
        self.depth += 1
        try:
            if is_lambda:
                body = node.body
                if isinstance(body, ast.Await):
                    body = body.value
                res = self.ev(body, st)
            else:
                o = self.block(node.body, st)
                end = o.next
                if end is not None:
                    end.env["<ret>"] = K(None)
                fin = self.join(o.ret, end)
                if fin is None:
                    raise _AbsRaise("?", o.exc if o.exc is not None else st)
                res = fin.env.get("<ret>", TOP)
                st.env, st.heap = fin.env, fin.heap
        except _AbsRaise as r:
            rs = _St(dict(saved), dict(r.st.heap))
            raise _AbsRaise(r.name, rs)
        finally:
            self.depth -= 1
            self.frames.pop()
        new_env = dict(saved)
        for n in nonloc:
            new_env.pop(n, None)
        # locals of the caller that the callee could not rebind keep their values; values it could reach through closures are shared through the heap
        st.env = new_env
        return res

    # ------------------------------------------------------------------ refinement
    def refine(self, test, st, pol):
        """add the fact `test == pol` to st (only membership facts on tracked dictionaries are kept)"""
        if isinstance(test, ast.UnaryOp) and isinstance(test.op, ast.Not):
            return self.refine(test.operand, st, not pol)
        if isinstance(test, ast.BoolOp):
            if isinstance(test.op, ast.And) == pol:
                for v in test.values:
                    self.refine(v, st, pol)
            return
        if isinstance(test, ast.Compare) and len(test.ops) == 1 and isinstance(test.ops[0], (ast.In, ast.NotIn)):
            present = isinstance(test.ops[0], ast.In) == pol
            c = test.comparators[0]
            if isinstance(c, ast.Call) and isinstance(c.func, ast.Attribute) and c.func.attr == "keys" and not c.args:
                c = c.func.value
            if not isinstance(c, ast.Name) or st.env.get(c.id, TOP)[0] != "ref":
                return
            if not (isinstance(test.left, ast.Constant) and isinstance(test.left.value, (str, int, bytes))):
                return
            oid = st.env[c.id][1]
            d = st.heap.get(oid)
            if d is None or d.esc:
                return
            k = test.left.value
            if present:
                st.heap[oid] = _D(d.must | {k}, None if d.may is None else d.may | {k}, dict(d.vals))
            else:
                st.heap[oid] = d.without(k)

    # ------------------------------------------------------------------ statements
    def block(self, stmts, st):
        out = _Out()
        cur = st
        for s in stmts:
            if cur is None:
                break
            o = self.stmt(s, cur)
            out.ret = self.join(out.ret, o.ret)
            out.brk = self.join(out.brk, o.brk)
            out.cont = self.join(out.cont, o.cont)
            out.exc = self.join(out.exc, o.exc)
            cur = o.next
        out.next = cur
        return out

    _SIMPLE = (ast.Expr, ast.Assign, ast.AnnAssign, ast.AugAssign, ast.Return, ast.Delete, ast.Pass, ast.Break, ast.Continue, ast.Global, ast.Nonlocal)

    def stmt(self, s, st):
        """execute one statement.  An enclosing try / with learns the states in which an exception may arise here: for a
        simple statement made only of operations the analysis models exactly (names, constants, operations on tracked
        dictionaries whose outcome is certain, identity tests) there is none besides the certain raises."""
        self.tick()
        self.live.add(id(s))
        simple = isinstance(s, self._SIMPLE)
        if not simple:
            self.note_exc(st)
        saved_unm, self._unm = self._unm, False
        m = getattr(self, "do_" + type(s).__name__, None)
        out = _Out()
        try:
            if m is None:
                self.unmodelled(st)
                out = self.havoc(s, st)
            else:
                r = m(s, st)
                if isinstance(r, _Out):
                    out = r
                else:
                    out.next = st
            if self.depth == 0:
                self.completed.add(id(s))
        except _AbsRaise as r:
            if self.depth == 0:
                self.raised.setdefault(id(s), r.name)
            out = _Out()
            out.exc = r.st
            self.note_exc(r.st)
        if not simple or self._unm:
            self.note_exc(out.next)
            for k in ("ret", "brk", "cont"):
                if simple and getattr(out, k) is not None:
                    self.note_exc(getattr(out, k))
        self._unm = saved_unm or self._unm
        return out

    def unmodelled(self, st):
        """an operation that may raise something the analysis does not model is about to be evaluated in state st"""
        self._unm = True
        self.note_exc(st)

    def havoc(self, s, st):
        for n in ast.walk(s):
            self.live.add(id(n))
            if isinstance(n, ast.Name) and isinstance(n.ctx, (ast.Store, ast.Del)):
                if n.id in st.env:
                    self.escape_val(st.env[n.id], st)
                st.env[n.id] = TOP
        self.escape_mentions(s, st)
        out = _Out()
        out.next = st
        out.exc = st.copy()
        for n in ast.walk(s):
            if isinstance(n, ast.Return):
                r = st.copy()
                r.env["<ret>"] = TOP
                out.ret = r
            elif isinstance(n, ast.Break):
                out.brk = st.copy()
            elif isinstance(n, ast.Continue):
                out.cont = st.copy()
        return out

    def assign(self, t, v, st):
        if isinstance(t, ast.Name):
            if t.id in self.untracked:
                self.escape_val(v, st)
                return
            st.env[t.id] = v
            return
        if isinstance(t, (ast.Tuple, ast.List)):
            elts = t.elts
            vals = None
            stars = [i for i, x in enumerate(elts) if isinstance(x, ast.Starred)]
            if v[0] in ("tuple", "list"):
                if not stars and len(v[1]) == len(elts):
                    vals = list(v[1])
                elif len(stars) == 1 and len(v[1]) >= len(elts) - 1:
                    i = stars[0]
                    tail = len(elts) - 1 - i
                    seq = list(v[1])
                    vals = seq[:i] + [("list", tuple(seq[i:len(seq) - tail]))] + seq[len(seq) - tail:]
            if vals is None:
                self.escape_val(v, st)
                vals = [TOP] * len(elts)
            for x, xv in zip(elts, vals):
                self.assign(x.value if isinstance(x, ast.Starred) else x, xv, st)
            return
        if isinstance(t, ast.Attribute):
            self.unmodelled(st)  # a property setter may run
            if isinstance(t.value, ast.Name) and t.value.id == self.selfname and self.depth > 0:
                st.env.pop("." + t.attr, None)
            if isinstance(t.value, ast.Name) and t.value.id == self.selfname and self.depth == 0 and t.value.id in st.env and st.env[t.value.id] == TOP:
                st.env.pop("." + t.attr, None)
                if self._storable(v) and self.plain_attr(t.attr):
                    st.env["." + t.attr] = v
                else:
                    self.escape_val(v, st)
                return
            self.escape_val(self.ev(t.value, st), st)
            self.escape_val(v, st)
            return
        if isinstance(t, ast.Subscript):
            recv = self.ev(t.value, st)
            if isinstance(t.slice, ast.Slice):
                self.escape_val(v, st)
                return
            key = self.ev(t.slice, st)
            if recv[0] != "ref":
                self.unmodelled(st)
            if recv[0] == "ref":
                d = st.heap.get(recv[1])
                if not self._storable(v):
                    self.escape_val(v, st)
                    v = TOP
                if d is not None:
                    if key[0] == "oneof" and all(isinstance(x[1], (str, int, bytes)) and not isinstance(x[1], bool) for x in key[1]):
                        alt = None
                        for _t, x in sorted(key[1], key=repr):
                            alt = d.with_key(x, v) if alt is None else _D.join(alt, d.with_key(x, v))
                        st.heap[recv[1]] = alt
                    else:
                        st.heap[recv[1]] = d.with_key(key[2], v) if self._hkey(key) else d.with_unknown_key()
                return
            self.escape_val(v, st)
            return
        self.escape_val(v, st)

    def do_Assign(self, s, st):
        v = self.ev(s.value, st)
        for t in s.targets:
            self.assign(t, v, st)

    def do_AnnAssign(self, s, st):
        if s.value is not None:
            self.assign(s.target, self.ev(s.value, st), st)

    def do_AugAssign(self, s, st):
        v = self.ev(s.value, st)
        t = s.target
        if not (isinstance(t, ast.Name) and isinstance(s.op, ast.BitOr) and v[0] == "ref" and st.env.get(t.id, TOP)[0] == "ref"):
            self.escape_val(v, st)
            self.unmodelled(st)
        if isinstance(t, ast.Name) and isinstance(s.op, ast.BitOr) and st.env.get(t.id, TOP)[0] == "ref" and v[0] == "ref" and t.id not in self.untracked:
            # d |= other: an in-place update with the entries of another tracked dictionary
            d, src = st.heap.get(st.env[t.id][1]), st.heap.get(v[1])
            if d is not None and src is not None and not src.esc and src.may is not None:
                nd = d
                for kk in sorted(src.may, key=repr):
                    nd = nd.with_key(kk, src.val(kk)) if src.has(kk) else _D.join(nd, nd.with_key(kk, src.val(kk)))
                st.heap[st.env[t.id][1]] = nd
                return
        if isinstance(t, ast.Name):
            cur = st.env.get(t.id, TOP)
            self.escape_val(cur, st)
            if cur[0] in ("list", "keyset"):
                self.havoc_mutables(st)  # `x += ...` / `x |= ...` changes a list / set in place: aliases too
            st.env[t.id] = TOP
        elif isinstance(t, ast.Subscript):
            recv = self.ev(t.value, st)
            key = self.ev(t.slice, st) if not isinstance(t.slice, ast.Slice) else TOP
            if recv[0] == "ref":
                self.dict_get(recv, key, st, strict=True)
                d = st.heap.get(recv[1])
                if d is not None:
                    st.heap[recv[1]] = d.with_key(key[2], TOP) if self._hkey(key) else d.with_unknown_key()
        elif isinstance(t, ast.Attribute):
            self.escape_val(self.ev(t.value, st), st)

    def do_Expr(self, s, st):
        self.ev(s.value, st)

    def do_Pass(self, s, st):
        pass

    def do_Import(self, s, st):
        for a in s.names:
            st.env[(a.asname or a.name).split(".")[0]] = TOP

    do_ImportFrom = do_Import

    def do_Global(self, s, st):
        pass

    do_Nonlocal = do_Global

    def do_Assert(self, s, st):
        # an assertion is not a guard (python -O)
        c = st.copy()
        try:
            self.ev(s.test, c)
            if s.msg is not None:
                self.ev(s.msg, c)
        except _AbsRaise:
            pass
        j = self.join(st, c)
        st.env, st.heap = j.env, j.heap

    def do_Delete(self, s, st):
        for t in s.targets:
            if not (isinstance(t, ast.Subscript) and not isinstance(t.slice, ast.Slice)):
                self.unmodelled(st)
            if isinstance(t, ast.Name):
                st.env.pop(t.id, None)
            elif isinstance(t, ast.Subscript) and not isinstance(t.slice, ast.Slice):
                recv = self.ev(t.value, st)
                key = self.ev(t.slice, st)
                if recv[0] == "ref":
                    self.dict_get(recv, key, st, strict=True, remove=True)
                else:
                    self.unmodelled(st)
            else:
                for c in ast.iter_child_nodes(t):
                    if isinstance(c, ast.expr):
                        self.escape_val(self.ev(c, st), st)

    def do_Return(self, s, st):
        v = self.ev(s.value, st) if s.value is not None else K(None)
        st.env["<ret>"] = v
        out = _Out()
        out.ret = st
        return out

    def do_Raise(self, s, st):
        name = "?"
        if s.exc is not None:
            self.escape_val(self.ev(s.exc, st), st)
            c = chain(s.exc.func if isinstance(s.exc, ast.Call) else s.exc)
            if c:
                name = c.split(".")[-1]
        if s.cause is not None:
            self.ev(s.cause, st)
        out = _Out()
        out.exc = st
        return out

    def do_Break(self, s, st):
        out = _Out()
        out.brk = st
        return out

    def do_Continue(self, s, st):
        out = _Out()
        out.cont = st
        return out

    def do_FunctionDef(self, s, st):
        for d in s.decorator_list:
            self.escape_val(self.ev(d, st), st)
        for d in s.args.defaults + [x for x in s.args.kw_defaults if x is not None]:
            self.escape_val(self.ev(d, st), st)
        self.funcs[id(s)] = s
        st.env[s.name] = ("func", id(s))
        if s.decorator_list:
            self.escape_val(st.env[s.name], st)
            st.env[s.name] = TOP

    do_AsyncFunctionDef = do_FunctionDef

    def do_If(self, s, st):
        tv = self.ev(s.test, st)
        t = self.truth(tv, st)
        if t is True:
            return self.block(s.body, st)
        if t is False:
            return self.block(s.orelse, st)
        a, b = st.copy(), st
        self.refine(s.test, a, True)
        self.refine(s.test, b, False)
        oa = self.block(s.body, a)
        ob = self.block(s.orelse, b)
        return self.merge(oa, ob)

    def merge(self, a, b):
        out = _Out()
        for k in ("next", "ret", "brk", "cont", "exc"):
            setattr(out, k, self.join(getattr(a, k), getattr(b, k)))
        return out

    def iter_elems(self, it_node, it, st):
        if it[0] in ("tuple", "list"):
            return list(it[1])
        if it[0] == "keyset" and it[2] is not None and not it[2]:
            return []
        if it[0] in ("ref", "view"):
            d = st.heap.get(it[1])
            if d is not None and not d.esc and d.may is not None and not d.may:
                return []
        return None

    def do_For(self, s, st):
        it = self.ev(s.iter, st)
        elems = self.iter_elems(s.iter, it, st)
        if elems is not None and len(elems) <= self.MAX_UNROLL:
            return self._unrolled(s, st, elems)
        if it[0] == "func":
            self.escape_val(it, st)
        cands = self._comp_elems(it, st, True) if it[0] in ("ref", "view", "keyset") else None
        if cands is not None and 1 <= len(cands) <= 4 and all(c for c, _el in cands):
            # every element is certainly there, only the order is unknown: all orders, joined
            import itertools
            res = None
            for perm in itertools.permutations([el for _c, el in cands]):
                o = self._unrolled(s, st.copy(), list(perm))
                res = o if res is None else self.merge(res, o)
            return res
        if cands is not None and len(cands) <= 4 * self.MAX_UNROLL:
            return self.loop(s, st, None, [el for _c, el in cands])
        return self.loop(s, st, None)

    def _unrolled(self, s, st, elems):
        out = _Out()
        if True:
            cur = st
            for el in elems:
                if cur is None:
                    break
                self.assign(s.target, el, cur)
                o = self.block(s.body, cur)
                out.ret = self.join(out.ret, o.ret)
                out.exc = self.join(out.exc, o.exc)
                out.brk = self.join(out.brk, o.brk)
                cur = self.join(o.next, o.cont)
            nxt = None
            if cur is not None:
                o2 = self.block(s.orelse, cur)
                out.ret = self.join(out.ret, o2.ret)
                out.exc = self.join(out.exc, o2.exc)
                out.cont = o2.cont
                nxt = o2.next
                brk2 = o2.brk
            else:
                brk2 = None
            out.next = self.join(nxt, out.brk)
            out.brk = brk2
            return out

    do_AsyncFor = do_For

    def do_While(self, s, st):
        return self.loop(s, st, s.test)

    def loop(self, s, st, test, cands=None):
        """fixed point over the loop head.  `cands`: the possible elements of a `for` loop over an unordered / partly
        known collection -- every round runs the body once per candidate and joins (any order, any multiplicity)"""
        out = _Out()
        head = st
        exits = None
        for rnd in range(12):
            h = head.copy()
            exit_here = None
            body_in = h
            if test is None and cands:
                exits = self.join(exits, h.copy())
                back = None
                for el in cands:
                    hc = head.copy()
                    self.assign(s.target, el, hc)
                    o = self.block(s.body, hc)
                    out.ret = self.join(out.ret, o.ret)
                    out.exc = self.join(out.exc, o.exc)
                    out.brk = self.join(out.brk, o.brk)
                    back = self.join(back, self.join(o.next, o.cont))
                if back is None:
                    break
                new_head = self.join(head, back)
                if new_head == head:
                    break
                head = new_head
                continue
            if test is not None:
                tv = self.ev(test, h)
                t = self.truth(tv, h)
                if t is False:
                    exit_here, body_in = h, None
                elif t is None:
                    exit_here = h.copy()
                    self.refine(test, exit_here, False)
                    self.refine(test, h, True)
            else:
                exit_here = h.copy()
                self.assign(s.target, TOP, h)
            exits = self.join(exits, exit_here)
            if body_in is None:
                break
            o = self.block(s.body, body_in)
            out.ret = self.join(out.ret, o.ret)
            out.exc = self.join(out.exc, o.exc)
            out.brk = self.join(out.brk, o.brk)
            back = self.join(o.next, o.cont)
            if back is None:
                break
            new_head = self.join(head, back)
            if new_head == head:
                break
            head = new_head
        else:
            # no fixed point within the budget: forget what the loop touches
            w = head.copy()
            hv = self.havoc(s, w)
            out.ret = self.join(out.ret, hv.ret)
            out.exc = self.join(out.exc, hv.exc)
            exits = self.join(exits, w)
        brk = out.brk
        out.brk = None
        nxt = None
        if exits is not None:
            o2 = self.block(s.orelse, exits)
            out.ret = self.join(out.ret, o2.ret)
            out.exc = self.join(out.exc, o2.exc)
            out.brk, out.cont = o2.brk, o2.cont
            nxt = o2.next
        out.next = self.join(nxt, brk)
        return out

    def _handler_names(self, h):
        if h.type is None:
            return None
        ts = h.type.elts if isinstance(h.type, ast.Tuple) else [h.type]
        return {(chain(t) or "?").split(".")[-1] for t in ts}

    def do_Try(self, s, st):
        self.acc.append([self.depth, None])
        try:
            ob = self.block(s.body, st)
        finally:
            maybe = self.acc.pop()[1]
        self.note_exc(maybe)  # what no handler of this statement takes reaches the enclosing one
        out = _Out()
        out.ret, out.brk, out.cont = ob.ret, ob.brk, ob.cont
        nxt = None
        if ob.next is not None:
            oe = self.block(s.orelse, ob.next)
            nxt = oe.next
            out = self.merge(out, self._without_next(oe))
        # handlers: entered from any point of the body (an exception the analysis does not model), and from its certain raises
        hin = self.join(maybe, ob.exc)
        uncaught = ob.exc
        for h in s.handlers:
            names = self._handler_names(h)
            if names is None or names & _CATCH_ALL:
                uncaught = None
            if hin is None:
                continue
            hs = hin.copy()
            if h.name:
                hs.env[h.name] = TOP
            self.live.add(id(h))
            oh = self.block(h.body, hs)
            if oh.next is not None and h.name:
                oh.next.env.pop(h.name, None)
            nxt = self.join(nxt, oh.next)
            out = self.merge(out, self._without_next(oh))
        # an exception no handler takes leaves the statement (kept as an `exc` outcome: over-approximation)
        out.exc = self.join(out.exc, ob.exc if s.handlers else ob.exc)
        out.next = nxt
        if s.finalbody:
            allst = None
            for k in ("next", "ret", "brk", "cont", "exc"):
                allst = self.join(allst, getattr(out, k))
            allst = self.join(allst, maybe)
            if allst is not None:
                of = self.block(s.finalbody, allst.copy())
                for k in ("next", "ret", "brk", "cont", "exc"):
                    if getattr(out, k) is not None:
                        setattr(out, k, None if of.next is None else self._with_ret(of.next, getattr(out, k)))
                out = self.merge(out, self._without_next(of))
        return out

    do_TryStar = do_Try

    @staticmethod
    def _with_ret(after, before):
        r = after.copy()
        if "<ret>" in before.env:
            r.env["<ret>"] = before.env["<ret>"]
        return r

    @staticmethod
    def _without_next(o):
        r = _Out()
        r.ret, r.brk, r.cont, r.exc = o.ret, o.brk, o.cont, o.exc
        return r

    def match_pattern(self, pat, v, st, binds):
        """does pattern `pat` match the value v?  True / False / None; captures are collected in `binds`"""
        if isinstance(pat, ast.MatchAs):
            r = True if pat.pattern is None else self.match_pattern(pat.pattern, v, st, binds)
            if pat.name is not None and r is not False:
                binds[pat.name] = v
            return r
        if isinstance(pat, ast.MatchSingleton):
            return self._identical(v, K(pat.value))
        if isinstance(pat, ast.MatchValue):
            return self._equal(v, self.ev(pat.value, st))
        if isinstance(pat, ast.MatchOr):
            res = False
            for alt in pat.patterns:
                b2 = {}
                r = self.match_pattern(alt, v, st, b2)
                if r is True:
                    binds.update(b2)
                    return True
                if r is None:
                    res = None
                    for k in b2:
                        binds[k] = TOP
            return res
        if isinstance(pat, ast.MatchSequence):
            if v[0] in ("const",) and (v[2] is None or isinstance(v[2], (bool, int, float, str, bytes))):
                return False  # None, numbers, strings and bytes are not sequences for `match`
            if v[0] in ("ref", "view", "keyset", "obj", "func", "callable"):
                return False
            if v[0] not in ("tuple", "list"):
                for sub in ast.walk(pat):
                    if isinstance(sub, (ast.MatchAs, ast.MatchStar)) and sub.name:
                        binds[sub.name] = TOP
                return None
            elts = list(v[1])
            stars = [i for i, q in enumerate(pat.patterns) if isinstance(q, ast.MatchStar)]
            if not stars and len(pat.patterns) != len(elts):
                return False
            if stars and (len(stars) > 1 or len(elts) < len(pat.patterns) - 1):
                return False
            res = True
            if stars:
                i = stars[0]
                tail = len(pat.patterns) - 1 - i
                pairs = list(zip(pat.patterns[:i], elts[:i])) + (list(zip(pat.patterns[i + 1:], elts[len(elts) - tail:])) if tail else [])
                if pat.patterns[i].name:
                    binds[pat.patterns[i].name] = ("list", tuple(elts[i:len(elts) - tail]))
            else:
                pairs = list(zip(pat.patterns, elts))
            for q, x in pairs:
                r = self.match_pattern(q, x, st, binds)
                if r is False:
                    return False
                if r is None:
                    res = None
            return res
        if isinstance(pat, ast.MatchMapping):
            if v[0] in ("const", "tuple", "list", "keyset", "obj", "func", "callable", "oneof", "nn") and v[0] != "nn":
                return False
            d = st.heap.get(v[1]) if v[0] == "ref" else None
            if d is None or d.esc:
                for sub in ast.walk(pat):
                    if isinstance(sub, (ast.MatchAs, ast.MatchStar)) and sub.name:
                        binds[sub.name] = TOP
                if pat.rest:
                    binds[pat.rest] = TOP
                return None
            res = True
            for kx, q in zip(pat.keys, pat.patterns):
                kv = self.ev(kx, st)
                if not self._hkey(kv):
                    res = None
                    self.match_pattern(q, TOP, st, binds)
                    continue
                h = d.has(kv[2])  # mapping patterns look keys up with .get(): nothing is removed
                if h is False:
                    return False
                r = self.match_pattern(q, d.val(kv[2]), st, binds)
                if r is False:
                    return False
                if h is None or r is None:
                    res = None
            if pat.rest:
                binds[pat.rest] = TOP
            return res
        for sub in ast.walk(pat):
            if isinstance(sub, (ast.MatchAs, ast.MatchStar)) and getattr(sub, "name", None):
                binds[sub.name] = TOP
        return None

    def do_Match(self, s, st):
        """cases are tried in order: a case that certainly matches ends the statement, one that certainly does not is
        dead, an undecided one is executed on a copy of the state (with the membership facts of a mapping pattern)"""
        subj = self.ev(s.subject, st)
        out = _Out()
        cur = st
        for case in s.cases:
            if cur is None:
                break
            binds = {}
            r = self.match_pattern(case.pattern, subj, cur, binds)
            if r is False:
                continue
            body_st = cur.copy() if r is None else cur
            if r is None:
                self.unmodelled(cur)
            for k, v in binds.items():
                if not (self._storable(v) or v[0] in ("list", "func")):
                    self.escape_val(v, body_st)
                    v = TOP
                body_st.env[k] = v
            if isinstance(case.pattern, ast.MatchMapping) and subj[0] == "ref":
                d = body_st.heap.get(subj[1])
                if d is not None and not d.esc:
                    for kx in case.pattern.keys:
                        if isinstance(kx, ast.Constant) and isinstance(kx.value, (str, int, bytes)):
                            d = _D(d.must | {kx.value}, None if d.may is None else d.may | {kx.value}, dict(d.vals))
                    body_st.heap[subj[1]] = d
            certain = r is True
            if case.guard is not None:
                g = self.truth(self.ev(case.guard, body_st), body_st)
                if g is False:
                    if certain:
                        cur = body_st
                    continue
                if g is None:
                    certain = False
                    if r is True:
                        # the guard decides: keep a copy for the cases below
                        rest = body_st.copy()
                        self.refine(case.guard, rest, False)
                        self.refine(case.guard, body_st, True)
                        o = self.block(case.body, body_st)
                        out = self.merge(out, o)
                        cur = rest
                        continue
            o = self.block(case.body, body_st)
            out = self.merge(out, o)
            if certain:
                cur = None
            elif r is None and isinstance(case.pattern, ast.MatchMapping) and subj[0] == "ref" and len(case.pattern.keys) == 1 and isinstance(case.pattern.keys[0], ast.Constant) and isinstance(case.pattern.patterns[0], ast.MatchAs) and case.pattern.patterns[0].pattern is None and case.guard is None:
                # `case {"k": name}` not matching means the key is absent
                d = cur.heap.get(subj[1])
                if d is not None and not d.esc:
                    cur.heap[subj[1]] = d.without(case.pattern.keys[0].value)
        if cur is not None:
            out.next = self.join(out.next, cur)
        return out

    def do_With(self, s, st):
        for it in s.items:
            v = self.ev(it.context_expr, st)
            self.escape_val(v, st)
            if it.optional_vars is not None:
                self.assign(it.optional_vars, TOP, st)
        self.acc.append([self.depth, None])
        try:
            o = self.block(s.body, st)
        finally:
            maybe = self.acc.pop()[1]
        # a context manager may swallow an exception raised anywhere in the body
        o.next = self.join(o.next, self.join(maybe, o.exc))
        self.note_exc(maybe)
        return o

    do_AsyncWith = do_With


def _walk_own(node):
    """nodes of a function that belong to it (nested functions / lambdas / classes are not entered)"""
    todo = list(ast.iter_child_nodes(node))
    while todo:
        n = todo.pop()
        yield n
        if isinstance(n, (ast.FunctionDef, ast.AsyncFunctionDef, ast.Lambda, ast.ClassDef)):
            continue
        todo.extend(ast.iter_child_nodes(n))


from ..exc import EscapeAnalysis as _EscapeAnalysis, Esc as _Esc  # noqa: E402
from ..model import stmt_text as _stmt_text  # noqa: E402


class ShapedEscapes(_EscapeAnalysis):
    """EscapeAnalysis whose call-site specialisation is decided by `KwFlow`: while a callee is analysed for one call
    shape, the statements / conditional-expression arms / boolean operands that no run with that shape executes are
    skipped, and a statement that certainly raises KeyError on the `**kwargs` dictionary contributes that KeyError
    (so that it is filtered by the enclosing handlers like any other raise).  The engine's own pruning stays in force
    (both are sound: the live set used is the intersection)."""

    def __init__(self, *a, **kw):
        _EscapeAnalysis.__init__(self, *a, **kw)
        self._flows = {}
        self._grow = {}
        self._cur = None
        self._cur_fi = None
        self._cur_shape = None
        self.flow_log = []  # (function, shape summary, number of dead nodes) for the evidence file

    def _flow(self, fi, shape):
        key = (fi.qn, shape)
        if key not in self._flows:
            res = None
            if shape is not None:
                kf = KwFlow(self.prog, fi, shape)
                try:
                    res = kf.run()
                except RecursionError:
                    res = None
                    kf.notes.append("recursion limit")
                if res is not None and (res[0] or res[1]):
                    self.flow_log.append((fi.short, sorted("%s=%s" % (k, "/".join(sorted(v[1])) if v[0] in ("keys", "maykeys") else repr(v[1])) for k, v in dict(shape).items() if v and v[0] in ("const", "keys", "maykeys")), len(res[0]), sorted(set(res[1].values()))))
                if kf.notes:
                    self.flow_log.append((fi.short, "not decided", kf.notes))
            self._flows[key] = res
        return self._flows[key]

    def escapes(self, fi, shape=None, selfcls=None):
        key = (fi.qn, shape, selfcls)
        if key in self.memo or key in self.inprogress:
            return _EscapeAnalysis.escapes(self, fi, shape, selfcls)
        saved = (self._cur, self._cur_fi, self._cur_shape)
        self._cur, self._cur_fi, self._cur_shape = self._flow(fi, shape), fi, shape
        try:
            return _EscapeAnalysis.escapes(self, fi, shape, selfcls)
        finally:
            self._cur, self._cur_fi, self._cur_shape = saved

    def _stmt(self, fi, st, shape, caught):
        cur = self._cur
        if cur is not None and id(st) in cur[0]:
            return set()
        out = _EscapeAnalysis._stmt(self, fi, st, shape, caught)
        if cur is not None and id(st) in cur[1] and cur[1][id(st)] != "?":
            out = set(out)
            out.add(_Esc(cur[1][id(st)], fi.short, st.lineno, _stmt_text(st, 100)))
        return out

    def _live(self, root, shape):
        """the engine's walk (dead arm of a conditional expression decided by the shape skipped), also skipping what KwFlow found dead"""
        cur = self._cur
        dead = cur[0] if cur is not None else ()
        todo = [root]
        first = True
        while todo:
            n = todo.pop()
            if not first and isinstance(n, (ast.FunctionDef, ast.AsyncFunctionDef, ast.Lambda, ast.ClassDef)):
                continue
            if not first and id(n) in dead:
                continue
            first = False
            yield n
            if isinstance(n, ast.IfExp):
                d = self.decide(n.test, shape)
                todo.append(n.test)
                if d is not False:
                    todo.append(n.body)
                if d is not True:
                    todo.append(n.orelse)
                continue
            todo.extend(reversed(list(ast.iter_child_nodes(n))))

    def _ends_flow(self, st, shape):
        """Control never falls through `st` under the call shape.  For a simple statement this is KwFlow's verdict "raises
        on every run with this shape" (the engine's syntactic scan also counts a `kwargs.pop("k")` that sits in the
        not-evaluated arm of a conditional expression / behind `"k" in kwargs and ...`, which would silence everything after
        such a statement); compound statements as in the engine."""
        if isinstance(st, (ast.Return, ast.Raise, ast.Continue, ast.Break)):
            return True
        if isinstance(st, ast.If):
            d = self.decide(st.test, shape)
            body_ends = bool(st.body) and self._block_ends(st.body, shape)
            else_ends = bool(st.orelse) and self._block_ends(st.orelse, shape)
            if d is True:
                return body_ends
            if d is False:
                return else_ends
            return body_ends and else_ends
        cur = self._cur
        if isinstance(st, (ast.Assign, ast.Expr, ast.AnnAssign, ast.AugAssign, ast.Delete)):
            return cur is not None and id(st) in cur[1]
        return False

    def decide(self, test, shape):
        """Three-valued truth of a test under the call shape.  While a KwFlow result is in force, tests over parameters
        and the `**kwargs` dictionary are left to it (it follows re-assignments of a parameter and insertions into /
        removals from the dictionary, which the engine's static tags do not): the engine decides only what KwFlow does
        not model (receiver facts, isinstance(p, self.type), `self.X` aliases of parameters).  Without a KwFlow result
        the engine's membership decision is trusted only for a function that never adds keys to the dictionary."""
        if isinstance(test, ast.BoolOp) or (isinstance(test, ast.UnaryOp) and isinstance(test.op, ast.Not)):
            return _EscapeAnalysis.decide(self, test, shape)
        alias = getattr(self, "_alias", None) or {}
        if alias and any(isinstance(n, ast.Attribute) and chain(n) in alias for n in ast.walk(test)):
            return _EscapeAnalysis.decide(self, test, shape)
        if self._cur is not None:
            if isinstance(test, ast.Call):
                return _EscapeAnalysis.decide(self, test, shape)
            return None
        if isinstance(test, ast.Compare) and len(test.ops) == 1 and isinstance(test.ops[0], (ast.In, ast.NotIn)) and isinstance(test.comparators[0], ast.Name):
            if self._cur_fi is not None and self._kw_may_grow(self._cur_fi, test.comparators[0].id):
                return None
        return _EscapeAnalysis.decide(self, test, shape)

    def _kw_may_grow(self, fi, name):
        key = (fi.qn, name)
        if key not in self._grow:
            kf = KwFlow(self.prog, fi, None)
            grow = False
            if not isinstance(fi.node, ast.Lambda):
                for n in ast.walk(fi.node):
                    if not (isinstance(n, ast.Name) and n.id == name):
                        continue
                    if kf._readonly_use(n):
                        continue
                    p = kf.parents.get(id(n))
                    g = kf.parents.get(id(p)) if p is not None else None
                    if isinstance(p, ast.Attribute) and p.value is n and p.attr in ("pop", "popitem", "clear") and isinstance(g, ast.Call) and g.func is p:
                        continue
                    if isinstance(p, ast.Subscript) and p.value is n and isinstance(p.ctx, ast.Del):
                        continue
                    if isinstance(p, ast.arg):
                        continue
                    grow = True
            self._grow[key] = grow
        return self._grow[key]

    def shape_for(self, caller, call, callee, extra_first=0):
        """The engine's call shape, refined by what KwFlow knows about the call site in the caller's current shape: a
        `**mapping` whose key set was tracked becomes explicit keywords (keys that are certainly passed) plus possible
        keys (tagged `present` when they name a parameter, "maykeys" for the callee's own `**kwargs`); an argument whose
        value is a known constant is tagged with it."""
        cur = self._cur
        info = cur[2].get(id(call)) if cur is not None and caller is self._cur_fi and len(cur) > 2 else None
        if info is None:
            return self._default_tags(call, callee, _EscapeAnalysis.shape_for(self, caller, call, callee, extra_first), ())
        use = call
        maybe = set()
        nn_keys = {}
        if any(k.arg is None for k in call.keywords):
            ds = info["dstar"]
            stars = [k for k in call.keywords if k.arg is None]
            if len(ds) == len(stars) and all(x is not None for x in ds):
                kws = [k for k in call.keywords if k.arg is not None]
                have = {k.arg for k in kws}
                for must, may, vals in ds:
                    vals = dict(vals)
                    for name in sorted(must):
                        if name in have:
                            continue
                        have.add(name)
                        v = vals.get(name, TOP)
                        nn_keys[name] = v
                        val = ast.Constant(value=v[2]) if _is_const(v) and (v[2] is None or isinstance(v[2], (bool, int, str, bytes))) else ast.Name(id="<tracked>", ctx=ast.Load())
                        kws.append(ast.keyword(arg=name, value=val))
                    maybe |= set(may) - set(must)
                use = ast.Call(func=call.func, args=list(call.args), keywords=kws)
                ast.copy_location(use, call)
                ast.fix_missing_locations(use)
        sh = dict(_EscapeAnalysis.shape_for(self, caller, use, callee, extra_first))
        a = callee.node.args
        declared = {x.arg for x in a.posonlyargs + a.args + a.kwonlyargs}
        # constants the engine's syntactic tagging does not see (a local bound to a constant, a default taken from a tracked dictionary)
        pnames = [x.arg for x in a.posonlyargs + a.args]
        for name, v in info["kw"].items():
            if _is_const(v) and sh.get(name) == ("present",) and (v[2] is None or isinstance(v[2], (bool, int, str, bytes))):
                sh[name] = ("const", v[2])
            elif sh.get(name) == ("present",) and KwFlow._not_none(v):
                sh[name] = ("nn",)
        for name, v in nn_keys.items():
            if sh.get(name) == ("present",) and KwFlow._not_none(v):
                sh[name] = ("nn",)
        if maybe:
            for name in maybe:
                if name in declared:
                    sh[name] = ("present",)
            if a.kwarg:
                key = "**" + a.kwarg.arg
                t = sh.get(key)
                extra = frozenset(n for n in maybe if n not in declared)
                if t is not None and extra:
                    sh[key] = ("maykeys", frozenset(t[1]) | extra)
        return self._default_tags(use, callee, frozenset(sh.items()), maybe)

    def _default_tags(self, call, callee, shape, maybe):
        """A parameter that the call certainly does not pass and whose default is not a literal (a private sentinel
        `_UNSET`, a module constant) is tagged ("default",): KwFlow evaluates the default expression itself.  (The
        engine tags it `present`, the same as an argument of unknown value.)"""
        if any(isinstance(a, ast.Starred) for a in call.args) or any(k.arg is None for k in call.keywords):
            return shape
        a = callee.node.args
        sh = dict(shape)
        pnames = [x.arg for x in a.posonlyargs + a.args]
        is_method = callee.cls is not None and not any(ast.unparse(d) == "staticmethod" for d in getattr(callee.node, "decorator_list", []))
        passed = {k.arg for k in call.keywords} | set(maybe)
        # positional arguments: conservatively, the first len(args) + 1 parameters count as passed
        passed |= set(pnames[: len(call.args) + (1 if is_method else 0) + 1])
        allp = a.posonlyargs + a.args
        defaults = {p.arg: d for p, d in zip(reversed(allp), reversed(a.defaults))}
        defaults.update({p.arg: d for p, d in zip(a.kwonlyargs, a.kw_defaults) if d is not None})
        ch = False
        for name, d in defaults.items():
            if name not in passed and sh.get(name) == ("present",) and isinstance(d, (ast.Name, ast.Attribute)):
                sh[name] = ("default",)
                ch = True
        return frozenset(sh.items()) if ch else shape


def apply_callable(sx, path, cb, args, imports=None):
    """The expression computed by calling the callable value `cb` (resolved) with the resolved argument expressions
    `args`: lambda (parameters substituted), nested def (a call the executor evaluates in place), functools.partial,
    `operator.contains` / `operator.not_` / `x.__contains__`, bound method.  None when the callable is not understood."""
    imports = imports or {}
    if isinstance(cb, ast.Lambda):
        a = cb.args
        names = [x.arg for x in a.posonlyargs + a.args]
        if a.vararg or a.kwarg or a.kwonlyargs or len(names) < len(args):
            return None
        env = dict(zip(names, args))
        for p_, d in zip(reversed(a.posonlyargs + a.args), reversed(a.defaults)):
            env.setdefault(p_.arg, d)
        if len(env) != len(names):
            return None
        return _Subst(env, {}).visit(cb.body)
    if isinstance(cb, ast.Name) and path is not None and cb.id in path.defs:
        return ast.Call(func=cb, args=list(args), keywords=[])
    if isinstance(cb, ast.Call) and (chain(cb.func) or "").split(".")[-1] == "partial" and cb.args and not cb.keywords:
        return apply_callable(sx, path, cb.args[0], list(cb.args[1:]) + list(args), imports)
    if isinstance(cb, ast.Call) and (chain(cb.func) or "").split(".")[-1] in ("attrgetter", "itemgetter") and len(args) == 1:
        return _Canon(sx).visit(ast.Call(func=cb, args=list(args), keywords=[]))
    c = chain(cb)
    if c is not None:
        head = c.split(".")[0]
        q = ".".join([imports.get(head, head)] + c.split(".")[1:])
        if q == "operator.contains" and len(args) == 2:
            return ast.Compare(left=args[1], ops=[ast.In()], comparators=[args[0]])
        if q == "operator.not_" and len(args) == 1:
            return ast.UnaryOp(op=ast.Not(), operand=args[0])
        if q == "operator.truth" and len(args) == 1:
            return args[0]
    if isinstance(cb, ast.Attribute):
        if cb.attr == "__contains__" and len(args) == 1:
            return ast.Compare(left=args[0], ops=[ast.In()], comparators=[cb.value])
        return ast.Call(func=cb, args=list(args), keywords=[])
    return None


def filtered_iter(sx, path, it, elem, imports=None):
    """Peel the filters off an iterable: `filter(P, X)`, `itertools.filterfalse(P, X)`, `list/tuple/iter/sorted(X)`,
    `(t for t in X if C)`.  -> (X, [conditions over the element expression `elem`]) or None when a filter is not understood."""
    imports = imports or {}
    conds = []
    for _ in range(6):
        if isinstance(it, ast.Call) and not it.keywords:
            fn = chain(it.func) or ""
            head = fn.split(".")[0]
            q = ".".join([imports.get(head, head)] + fn.split(".")[1:])
            if q in ("list", "tuple", "iter") and len(it.args) == 1:
                it = it.args[0]
                continue
            if q == "filter" and len(it.args) == 2:
                P_ = it.args[0]
                c = elem if (isinstance(P_, ast.Constant) and P_.value is None) else apply_callable(sx, path, P_, [elem], imports)
                if c is None:
                    return None
                conds.append(c)
                it = it.args[1]
                continue
            if q == "itertools.compress" and len(it.args) == 2:
                # compress(data, selectors) with the selectors computed element by element from the same collection:
                # data = d.items() / d / d.keys(), selectors = (C(k) for k in d / d.keys())
                data, sel = it.args

                def base_of(x):
                    if isinstance(x, ast.Call) and isinstance(x.func, ast.Attribute) and x.func.attr in ("items", "keys") and not x.args and not x.keywords:
                        return x.func.value, x.func.attr
                    return x, "keys"

                if isinstance(sel, (ast.GeneratorExp, ast.ListComp)) and len(sel.generators) == 1 and not sel.generators[0].ifs and not sel.generators[0].is_async and isinstance(sel.generators[0].target, ast.Name):
                    g = sel.generators[0]
                    (db, dk), (sb, sk) = base_of(data), base_of(g.iter)
                    if sk == "keys" and txt(db) == txt(sb):
                        keyx = ast.Subscript(value=elem, slice=ast.Constant(value=0), ctx=ast.Load()) if dk == "items" else elem
                        conds.append(_Subst({g.target.id: keyx}, {}).visit(sel.elt))
                        it = data
                        continue
                return None
            if q == "itertools.filterfalse" and len(it.args) == 2:
                P_ = it.args[0]
                c = elem if (isinstance(P_, ast.Constant) and P_.value is None) else apply_callable(sx, path, P_, [elem], imports)
                if c is None:
                    return None
                conds.append(ast.UnaryOp(op=ast.Not(), operand=c))
                it = it.args[1]
                continue
        if isinstance(it, ast.GeneratorExp) and len(it.generators) == 1 and not it.generators[0].is_async and txt(it.elt) == txt(it.generators[0].target) and isinstance(it.generators[0].target, ast.Name):
            g = it.generators[0]
            env = {g.target.id: elem}
            conds.extend(_Subst(env, {}).visit(c) for c in g.ifs)
            it = g.iter
            continue
        break
    return it, conds


def handler_types(prog, module, h):
    """The exception classes an `except` clause names, as expressions: a name bound once at module level to a tuple
    of classes (`_ERRORS = (KeyError, ValueError)`) stands for its elements.  None for a bare `except:`."""
    if h.type is None:
        return None
    out = []
    todo = list(h.type.elts) if isinstance(h.type, ast.Tuple) else [h.type]
    seen = 0
    while todo and seen < 40:
        seen += 1
        t = todo.pop(0)
        if isinstance(t, ast.Name):
            vals = []
            for st in module.tree.body:
                if isinstance(st, ast.Assign) and any(isinstance(x, ast.Name) and x.id == t.id for x in st.targets):
                    vals.append(st.value)
                elif isinstance(st, ast.AnnAssign) and isinstance(st.target, ast.Name) and st.target.id == t.id and st.value is not None:
                    vals.append(st.value)
            if len(vals) == 1 and isinstance(vals[0], ast.Tuple):
                todo = list(vals[0].elts) + todo
                continue
        out.append(t)
    return out


def _shaped_catches(self, fi, handler, esc):
    ts = handler_types(self.prog, fi.module, handler)
    if ts is not None and not (isinstance(handler.type, ast.Tuple) and len(ts) == len(handler.type.elts) and all(a is b for a, b in zip(ts, handler.type.elts))) and not (len(ts) == 1 and ts[0] is handler.type):
        h2 = ast.ExceptHandler(type=ast.Tuple(elts=ts, ctx=ast.Load()), name=handler.name, body=handler.body)
        ast.copy_location(h2, handler)
        return _EscapeAnalysis._catches(self, fi, h2, esc)
    return _EscapeAnalysis._catches(self, fi, handler, esc)


ShapedEscapes._catches = _shaped_catches


def _value_types(ea, fi, e, depth=0):
    """Classes of the program an expression may evaluate to: the engine's inference, extended by `a or B()` / `a and b`
    (either operand), conditional expressions, and attributes whose writers (`self.attr = <value>` in the methods of the
    receiver's class and its bases) are such expressions.  The engine's closed-world convention for typed receivers
    applies: a value handed in by the application (an un-annotated parameter) contributes nothing."""
    if depth > 4:
        return set()
    got = set(ea.res.infer(fi, e))
    if got:
        return got
    if isinstance(e, ast.BoolOp):
        out = set()
        for v in e.values:
            out |= _value_types(ea, fi, v, depth + 1)
        return out
    if isinstance(e, ast.IfExp):
        return _value_types(ea, fi, e.body, depth + 1) | _value_types(ea, fi, e.orelse, depth + 1)
    if isinstance(e, ast.Attribute):
        out = set()
        for b in sorted(_value_types(ea, fi, e.value, depth + 1)):
            for k in ea.prog.mro(b):
                ci = ea.prog.classes.get(k)
                if ci is None:
                    continue
                for m in ci.methods.values():
                    for n in _walk_own(m.node):
                        if isinstance(n, (ast.Assign, ast.AnnAssign)) and n.value is not None:
                            for t in (n.targets if isinstance(n, ast.Assign) else [n.target]):
                                if isinstance(t, ast.Attribute) and t.attr == e.attr and chain(t.value) == "self":
                                    out |= _value_types(ea, m, n.value, depth + 1)
        return out
    return set()


def _shaped_call(self, fi, call, shape, st):
    """`p = functools.partial(f, a.., k=..)` ... `p(b.., k2=..)` (or the partial called directly) is the call
    `f(a.., b.., k=.., k2=..)`: the engine would treat the local name as an unknown external callable and not look
    into f at all."""
    g = call.func
    cur = self._cur
    if isinstance(g, ast.Call) and (chain(g.func) or "").split(".")[-1] in ("attrgetter", "itemgetter") and all(isinstance(x, ast.Constant) for x in g.args) and not g.keywords:
        # operator.attrgetter("a", "b")(x) reads attributes of x: nothing of the program is called
        out = set()
        for a_ in call.args:
            out |= self._expr(fi, a_.value if isinstance(a_, ast.Starred) else a_, shape, st)
        return out
    if isinstance(g, ast.Name) and g.id == "setattr" and call.args and not isinstance(call.args[0], ast.Starred) and cur is not None and len(cur) > 3 and fi is self._cur_fi:
        names = cur[3].get(id(call))
        if names and "?" not in names:
            # setattr(obj, <one of these names>, v) on an object without instance dictionary (__slots__ all the way
            # up): a name that is neither a slot nor a class attribute raises AttributeError
            extra = set()
            for t in sorted(self.res.infer(fi, call.args[0])):
                known, closed = set(), True
                for k in self.prog.mro(t):
                    ci = self.prog.classes.get(k)
                    if ci is None:
                        closed = closed and k in ("object", "builtins.object")
                        continue
                    if "__slots__" not in ci.attrs or "__setattr__" in ci.methods:
                        closed = False
                    else:
                        sl = ci.attrs["__slots__"]
                        if isinstance(sl, (ast.List, ast.Tuple)) and all(isinstance(x, ast.Constant) for x in sl.elts):
                            known |= {x.value for x in sl.elts}
                        else:
                            closed = False
                    known |= set(ci.attrs) | set(ci.methods)
                if closed:
                    for nme in sorted(names - known):
                        extra.add(_Esc("AttributeError", fi.short, call.lineno, "%s  [name %r]" % (_stmt_text(call, 60), nme)))
            if extra:
                return extra | _EscapeAnalysis._call(self, fi, call, shape, st)
    if isinstance(g, ast.Call) and isinstance(g.func, ast.Name) and g.func.id == "type" and len(g.args) == 1 and not g.keywords and not (isinstance(g.args[0], ast.Name) and g.args[0].id == "self"):
        # `type(x)(...)`: a new instance of the class of x (the engine knows `type(self)(...)` only).  With the classes x
        # can be an instance of inferred from the program, this is the constructor of one of them or of a subclass;
        # otherwise the call stays unresolved.
        types = _value_types(self, fi, g.args[0])
        if types:
            classes = []
            for t in sorted(types):
                for c_ in [t] + sorted(self.prog.subclasses(t)):
                    if c_ not in classes:
                        classes.append(c_)
            out = set()
            for c_ in classes:
                for callee, sc in self.res.ctor_funcs(c_):
                    self.resolved_edges += 1
                    out |= {e.with_via(fi.short) for e in self.escapes(callee, self.shape_for(fi, call, callee), sc)}
            self.lemmas_used.append("T %s: instantiates %s" % (_stmt_text(call, 60), ", ".join(c_.split(".")[-1] for c_ in classes)))
            return out
    unknown_local = False
    if isinstance(g, ast.Name) and cur is not None and len(cur) > 2 and fi is self._cur_fi:
        fs = (cur[2].get(id(call)) or {}).get("func")
        unknown_local = bool(fs) and fs == {"?"}
        if fs and not unknown_local:
            # a call through a local variable that KwFlow has followed: the table entries it can be
            out = set()
            for a_ in call.args:
                out |= self._expr(fi, a_.value if isinstance(a_, ast.Starred) else a_, shape, st)
            for k_ in call.keywords:
                out |= self._expr(fi, k_.value, shape, st)
            for name in sorted(fs):
                if name == "?":
                    self.unresolved.append((fi.short, _stmt_text(call, 80)))
                    continue
                m = ast.Call(func=ast.parse(name, mode="eval").body, args=list(call.args), keywords=list(call.keywords))
                ast.copy_location(m, call)
                ast.fix_missing_locations(m)
                out |= _EscapeAnalysis._call(self, fi, m, shape, st)
            return out
    if isinstance(g, ast.Name) and not isinstance(fi.node, ast.Lambda):
        from ..rulekit import resolve_local
        g = resolve_local(fi.node, g)
    if isinstance(g, (ast.IfExp, ast.BoolOp)):
        # a callee chosen by a conditional expression: `(f if c else g)(x)` may call either
        out = set(self._expr(fi, g.test, shape, st)) if isinstance(g, ast.IfExp) else set()
        for alt in ([g.body, g.orelse] if isinstance(g, ast.IfExp) else list(g.values)):
            m = ast.Call(func=alt, args=list(call.args), keywords=list(call.keywords))
            ast.copy_location(m, call)
            ast.fix_missing_locations(m)
            out |= _shaped_call(self, fi, m, shape, st)
        return out
    if isinstance(g, ast.Call) and (chain(g.func) or "").split(".")[-1] == "partial" and g.args and not any(isinstance(a, ast.Starred) for a in g.args) and not any(k.arg is None for k in g.keywords):
        later = {k.arg for k in call.keywords if k.arg is not None}
        m = ast.Call(func=g.args[0], args=list(g.args[1:]) + list(call.args), keywords=[k for k in g.keywords if k.arg not in later] + list(call.keywords))
        ast.copy_location(m, call)
        ast.fix_missing_locations(m)
        if cur is not None and len(cur) > 2 and fi is self._cur_fi:
            # what KwFlow knows about the arguments given at the creation of the partial and at its call
            pi, ci = cur[2].get(id(g)), cur[2].get(id(call))
            if pi is not None and ci is not None and pi.get("pos") is not None and ci.get("pos") is not None and not pi["dstar"] and not ci["dstar"]:
                cur[2][id(m)] = {"pos": list(pi["pos"][1:]) + list(ci["pos"]), "kw": dict(pi["kw"], **ci["kw"]), "dstar": []}
        return _EscapeAnalysis._call(self, fi, m, shape, st)
    if g is not call.func and isinstance(g, (ast.Attribute, ast.Name)):
        # `f = self.handler; f(x)` is `self.handler(x)`
        m = ast.Call(func=g, args=list(call.args), keywords=list(call.keywords))
        ast.copy_location(m, call)
        ast.fix_missing_locations(m)
        return _EscapeAnalysis._call(self, fi, m, shape, st)
    if unknown_local and isinstance(g, ast.Name):
        # a local variable that holds some callable the analysis could not identify: say so instead of treating it as
        # an external function that raises nothing
        self.unresolved.append((fi.short, _stmt_text(call, 80)))
    return _EscapeAnalysis._call(self, fi, call, shape, st)


def _shaped_receiver_facts(self, fi, call):
    """Lemma L2 of the engine (facts `recv.is_x()` known where `recv.m()` is called) with the facts taken from every
    branch outcome that dominates the call, not only from the left operands of an enclosing `and`: the guard clause
    `if not n.is_safetoforward(): return ...` establishes the same fact as `n.is_safetoforward() and ...`.  Only
    argument-less `is_*` queries on a receiver whose root name is bound at most once in the function are used."""
    base = _EscapeAnalysis._receiver_facts(self, fi, call)
    if not isinstance(call.func, ast.Attribute) or isinstance(fi.node, ast.Lambda):
        return base
    if isinstance(call.func.value, ast.Name) and call.func.value.id == "self" and fi is self._cur_fi and self._cur_shape and not any((isinstance(n, ast.Name) and n.id == "self" and isinstance(n.ctx, ast.Store)) or (isinstance(n, (ast.Attribute, ast.Subscript)) and isinstance(n.ctx, (ast.Store, ast.Del)) and (chain(n) or "").split(".")[0] == "self") for n in ast.walk(fi.node)):
        # the facts known about the receiver when this method was called still hold for its own calls on self
        inherited = dict(self._cur_shape).get("@selffacts")
        if inherited:
            merged = dict(inherited[1])
            merged.update(dict(base or ()))
            base = frozenset(merged.items())
    from ..rulekit import writes_to_name
    from ..pat import dump
    recv = call.func.value
    root = recv
    while isinstance(root, ast.Attribute):
        root = root.value
    if not isinstance(root, ast.Name) or len(writes_to_name(fi.node, root.id)) > 1:
        return base
    for n in ast.walk(fi.node):
        # the receiver must be the same object in the same state at the guard and at the call: nothing in the function
        # stores into it
        if isinstance(n, (ast.Attribute, ast.Subscript)) and isinstance(n.ctx, (ast.Store, ast.Del)):
            b = n
            while isinstance(b, (ast.Attribute, ast.Subscript)):
                b = b.value
            if isinstance(b, ast.Name) and b.id == root.id:
                return base
    try:
        cfg = cfg_of(fi)
        nids = cfg.locate(call)
    except Exception:
        return base
    if not nids:
        return base
    facts = dict(base or ())
    rd = dump(recv)

    def add(e, pol):
        while isinstance(e, ast.UnaryOp) and isinstance(e.op, ast.Not):
            e, pol = e.operand, not pol
        if isinstance(e, ast.Call) and isinstance(e.func, ast.Attribute) and dump(e.func.value) == rd and not e.args and not e.keywords and e.func.attr.startswith("is_"):
            facts.setdefault(e.func.attr, pol)
            for callee, _ in self.res.resolve_callees(fi, e)[0]:
                body = [b for b in callee.node.body if not (isinstance(b, ast.Expr) and isinstance(b.value, ast.Constant))]
                if len(body) == 1 and isinstance(body[0], ast.Return) and body[0].value is not None:
                    v, p2 = body[0].value, pol
                    while isinstance(v, ast.UnaryOp) and isinstance(v.op, ast.Not):
                        v, p2 = v.operand, not p2
                    if isinstance(v, ast.Call) and isinstance(v.func, ast.Attribute) and chain(v.func.value) == "self" and not v.args:
                        facts.setdefault(v.func.attr, p2)

    # inside an expression: the arms of a conditional expression know the outcome of its test, the later operands
    # of `or` / `and` know that the earlier ones were false / true
    child = call
    par = cfg.parent.get(id(call))
    while par is not None and not isinstance(par, ast.stmt):
        if isinstance(par, ast.IfExp) and child is not par.test:
            add(par.test, child is par.body)
        elif isinstance(par, ast.BoolOp):
            for v in par.values:
                if v is child:
                    break
                add(v, isinstance(par.op, ast.And))
        elif isinstance(par, (ast.Lambda, ast.FunctionDef, ast.AsyncFunctionDef)):
            break
        child = par
        par = cfg.parent.get(id(par))
    common = None
    for nid in nids:
        here = {}
        for e, pol, _g in cfg.guards(nid):
            before = dict(facts)
            facts.clear()
            add(e, pol)
            here.update(facts)
            facts.clear()
            facts.update(before)
        common = here if common is None else {k: v for k, v in common.items() if here.get(k) == v}
    for k, v in (common or {}).items():
        facts.setdefault(k, v)
    return frozenset(facts.items()) if facts else None


ShapedEscapes._call = _shaped_call
ShapedEscapes._receiver_facts = _shaped_receiver_facts


def _translator_cm(self, fi, item):
    """`with cm(a, b):` where cm is a generator function of the program decorated with contextlib.contextmanager whose
    body is nothing but `try: yield  except ...: ...  [finally: ...]` -- an exception translator.  -> (FuncInfo of cm,
    its Try statement, {name of cm's parameter: expressions passed}) or None."""
    call = item.context_expr
    if not isinstance(call, ast.Call) or any(isinstance(a, ast.Starred) for a in call.args) or call.keywords:
        return None
    try:
        callees, kind = self.res.resolve_callees(fi, call)
    except Exception:
        return None
    if kind != "resolved" or len(callees) != 1:
        return None
    cm = callees[0][0]
    node = cm.node
    if not isinstance(node, ast.FunctionDef) or not any((chain(d) or "").split(".")[-1] == "contextmanager" for d in node.decorator_list):
        return None
    body = [b for b in node.body if not (isinstance(b, ast.Expr) and isinstance(b.value, ast.Constant))]
    if len(body) != 1 or not isinstance(body[0], ast.Try):
        return None
    t = body[0]
    if len(t.body) != 1 or not (isinstance(t.body[0], ast.Expr) and isinstance(t.body[0].value, ast.Yield)) or t.orelse:
        return None
    if sum(1 for n in ast.walk(node) if isinstance(n, (ast.Yield, ast.YieldFrom))) != 1:
        return None
    a = node.args
    if a.kwarg or a.kwonlyargs or a.defaults:
        return None
    names = [x.arg for x in a.posonlyargs + a.args]
    if len(call.args) < len(names) or (len(call.args) > len(names) and not a.vararg):
        return None
    passed = {n: [v] for n, v in zip(names, call.args)}
    if a.vararg:
        passed[a.vararg.arg] = list(call.args[len(names):])
    return cm, t, passed


def _shaped_stmt_with(self, fi, st, shape, caught):
    """the managed block of an exception-translating context manager is the body of the manager's own try statement"""
    if len(st.items) != 1 or st.items[0].optional_vars is not None:
        return None
    r = _translator_cm(self, fi, st.items[0])
    if r is None:
        return None
    cm, t, passed = r
    out = set(self._expr(fi, st.items[0].context_expr.func, shape, st))
    for a in st.items[0].context_expr.args:
        out |= self._expr(fi, a, shape, st)
    body = self._block(fi, st.body, shape, caught)
    per = [set() for _ in t.handlers]
    remaining = set()
    for e in body:
        for i, h in enumerate(t.handlers):
            hh, ctxfi = h, cm
            if h.type is not None:
                ts = h.type.elts if isinstance(h.type, ast.Tuple) else [h.type]
                new, own = [], True
                for x in ts:
                    if isinstance(x, ast.Name) and x.id in passed:
                        new.extend(passed[x.id])
                        own = False
                    else:
                        new.append(x)
                if not own:
                    if len(new) != sum(len(passed[x.id]) if isinstance(x, ast.Name) and x.id in passed else 1 for x in ts) or any(not (isinstance(x, ast.Name) and x.id in passed) for x in ts):
                        return None  # a mix of the manager's own names and the caller's: not interpreted
                    hh = ast.ExceptHandler(type=ast.Tuple(elts=new, ctx=ast.Load()), name=h.name, body=h.body)
                    ast.copy_location(hh, h)
                    ctxfi = fi  # the classes were named at the call site
            if self._catches(ctxfi, hh, e):
                per[i].add(e)
                break
        else:
            remaining.add(e)
    out |= remaining
    for h, got in zip(t.handlers, per):
        out |= {e.with_via(fi.short) for e in self._block(cm, h.body, None, caught=(h.name, got, h))}
    out |= {e.with_via(fi.short) for e in self._block(cm, t.finalbody, None, caught)}
    return out


_prev_stmt = ShapedEscapes._stmt


def _shaped_stmt(self, fi, st, shape, caught):
    if isinstance(st, ast.With):
        cur = self._cur
        if not (cur is not None and id(st) in cur[0]):
            r = _shaped_stmt_with(self, fi, st, shape, caught)
            if r is not None:
                self.lemmas_used.append("CM %s: exception-translating context manager analysed as its try statement" % _stmt_text(st.items[0].context_expr, 60))
                return r
    return _prev_stmt(self, fi, st, shape, caught)


ShapedEscapes._stmt = _shaped_stmt


def inline_walrus(sx, exprs):
    """Expressions evaluated one after the other (the conditions and the element of a comprehension): every assignment
    expression `(x := e)` stands for e, and later uses of x for that value."""
    env = {}
    out = []
    for e in exprs:
        e = _Subst(env, {}).visit(e) if env else e
        ws = [n for n in _walk_values(e) if isinstance(n, ast.NamedExpr)]
        ws.sort(key=lambda n: (getattr(n, "end_lineno", 0), getattr(n, "end_col_offset", 0)))
        repl = {}
        for w in ws:
            v = _Repl(repl).visit(w.value)
            v = _Subst(env, {}).visit(v) if env else v
            repl[id(w)] = v
            # uses of x after the binding inside the same expression
            env[w.target.id] = v
        if repl:
            e = _Repl(repl).visit(e)
            e = _Subst(env, {}).visit(e)
        out.append(sx.subst(e, {}))
    return out


# ---------------------------------------------------------------------------------------------------------------------
# Collections of per-item elements as they look from outside (C06.c: the cache key must keep every INSTANCE of a repeated
# option, in order).  A collection is built with one element per item of some base iteration (the options of a message);
# what arrives in the function's result depends on the kind of the collection and on every conversion on the way:
#   seq  list / tuple / generator / deque: one element per item, in order                      -> nothing is lost
#   set  set / frozenset: equal elements are one, the order is gone
#   map  dict keyed by K: of the items with an equal K only the last survives; .items() / .values() / .keys() / plain
#        iteration are sequences of (K, V) / V / K with that loss
# `sorted(X)` keeps the elements but not their order.


SEQ_CONVERSIONS = ("tuple", "list", "iter", "reversed", "collections.deque", "deque")
SET_CONVERSIONS = ("set", "frozenset")
MAP_CONVERSIONS = ("dict", "collections.OrderedDict", "OrderedDict")


class CollView:
    """elt: the element contributed per item (None while `is_map`: then k / v); collapse: the expressions by whose
    equality several items have been merged into one (empty: every item has its own element); ordered: the elements are
    still in the order of the base iteration; opaque: a conversion the rule does not interpret was applied (text)."""

    __slots__ = ("elt", "k", "v", "is_map", "collapse", "ordered", "opaque")

    def __init__(self, elt=None, k=None, v=None, is_map=False, collapse=(), ordered=True, opaque=None):
        self.elt, self.k, self.v, self.is_map, self.collapse, self.ordered, self.opaque = elt, k, v, is_map, tuple(collapse), ordered, opaque

    @staticmethod
    def seq(elt):
        return CollView(elt=elt)

    @staticmethod
    def set_(elt):
        return CollView(elt=elt, collapse=(elt,), ordered=False)

    @staticmethod
    def map_(k, v):
        return CollView(k=k, v=v, is_map=True, collapse=(k,))

    def but(self, **kw):
        c = CollView(self.elt, self.k, self.v, self.is_map, self.collapse, self.ordered, self.opaque)
        for a, b in kw.items():
            setattr(c, a, b if a != "collapse" else tuple(b))
        return c

    def iterated(self):
        """what iterating the collection yields"""
        if self.is_map:
            return self.but(elt=self.k, k=None, v=None, is_map=False)
        return self

    def as_set(self):
        it = self.iterated()
        return it.but(collapse=it.collapse + (it.elt,), ordered=False)

    def as_map(self):
        """dict(X): X a mapping, or a collection of pairs"""
        if self.is_map:
            return self
        e = self.elt
        if isinstance(e, ast.Tuple) and len(e.elts) == 2 and not any(isinstance(x, ast.Starred) for x in e.elts):
            return CollView(k=e.elts[0], v=e.elts[1], is_map=True, collapse=self.collapse + (e.elts[0],), ordered=self.ordered)
        return None

    def final(self):
        """the collection used as a value itself: a mapping compares as its set of items"""
        if self.is_map:
            return self.but(elt=ast.Tuple(elts=[self.k, self.v], ctx=ast.Load()), k=None, v=None, is_map=False, ordered=False)
        return self


def kind_of_container(e):
    """'seq' | 'set' | 'map' | None for the expression that created a local collection (as the executor keeps it: grown
    displays, `<changed>(x)` after an operation it does not model)"""
    while isinstance(e, ast.Call) and isinstance(e.func, ast.Name) and e.func.id == "<changed>" and e.args:
        e = e.args[0]
    if isinstance(e, (ast.List, ast.ListComp)):
        return "seq"
    if isinstance(e, (ast.Set, ast.SetComp)):
        return "set"
    if isinstance(e, (ast.Dict, ast.DictComp)):
        return "map"
    if isinstance(e, ast.Call):
        fn = chain(e.func) or ""
        if fn in ("list", "collections.deque", "deque", "bytearray"):
            return "seq"
        if fn in SET_CONVERSIONS:
            return "set"
        if fn in MAP_CONVERSIONS or fn.split(".")[-1] == "defaultdict":
            return "map"
    return None


def _parents(tree):
    par = {}
    for n in ast.walk(tree):
        for c in ast.iter_child_nodes(n):
            par[id(c)] = n
    return par


def lift_view(view, node, parents):
    """Apply to `view` (the collection that the expression `node` evaluates to) every conversion around `node` that the
    rule understands, outwards.  -> (view, outermost node reached).  Stops at the first construct that is not a
    conversion of the collection (a tuple display it is a component of, an argument of some other call, ...)."""
    cur = node
    for _ in range(24):
        par = parents.get(id(cur))
        if par is None or view is None:
            break
        if isinstance(par, ast.Call) and len(par.args) >= 1 and par.args[0] is cur and not isinstance(cur, ast.Starred):
            fn = chain(par.func) or ""
            if len(par.args) == 1 and not par.keywords:
                if fn in SEQ_CONVERSIONS:
                    view, cur = view.iterated(), par
                    continue
                if fn in SET_CONVERSIONS:
                    view, cur = view.as_set(), par
                    continue
                if fn in MAP_CONVERSIONS:
                    m = view.as_map()
                    if m is None:
                        view = view.but(opaque=txt(par))
                        break
                    view, cur = m, par
                    continue
            if fn == "sorted" and len(par.args) == 1:
                view = view.iterated()
                if any(k.arg == "key" for k in par.keywords):
                    # a stable sort by a key may keep the order of equal-keyed elements: not interpreted
                    view = view.but(opaque=txt(par))
                    break
                view, cur = view.but(ordered=False), par
                continue
            break
        if isinstance(par, ast.Attribute) and par.value is cur:
            gp = parents.get(id(par))
            if isinstance(gp, ast.Call) and gp.func is par and not gp.args and not gp.keywords:
                if view.is_map and par.attr in ("items", "values", "keys"):
                    elt = {"items": ast.Tuple(elts=[view.k, view.v], ctx=ast.Load()), "values": view.v, "keys": view.k}[par.attr]
                    view, cur = view.but(elt=elt, k=None, v=None, is_map=False), gp
                    continue
                if par.attr == "copy":
                    cur = gp
                    continue
            break
        if isinstance(par, ast.Starred) and par.value is cur:
            gp = parents.get(id(par))
            if isinstance(gp, (ast.Tuple, ast.List)):
                view = view.iterated()
                if len(gp.elts) == 1:
                    cur = gp
                    continue
                break
            if isinstance(gp, ast.Set):
                view = view.as_set()
                if len(gp.elts) == 1:
                    cur = gp
                    continue
            break
        if isinstance(par, ast.BinOp) and isinstance(par.op, (ast.Add, ast.BitOr)):
            # concatenation / union with something else: the elements of this collection are all still there
            cur = par
            continue
        if isinstance(par, ast.comprehension) and par.iter is cur and not par.ifs and not par.is_async:
            comp = parents.get(id(par))
            if isinstance(comp, (ast.ListComp, ast.GeneratorExp, ast.SetComp, ast.DictComp)) and len(comp.generators) == 1:
                it = view.iterated()
                env = None
                if isinstance(par.target, ast.Name):
                    env = {par.target.id: it.elt}
                elif isinstance(par.target, (ast.Tuple, ast.List)) and isinstance(it.elt, ast.Tuple) and len(par.target.elts) == len(it.elt.elts) and all(isinstance(t, ast.Name) for t in par.target.elts):
                    env = {t.id: x for t, x in zip(par.target.elts, it.elt.elts)}
                if env is None:
                    view = view.but(opaque=txt(comp))
                    break
                sub = lambda e: _Subst(env, {}).visit(e)  # noqa: E731
                if isinstance(comp, ast.DictComp):
                    view = CollView(k=sub(comp.key), v=sub(comp.value), is_map=True, collapse=it.collapse + (sub(comp.key),), ordered=it.ordered)
                elif isinstance(comp, ast.SetComp):
                    view = it.but(elt=sub(comp.elt)).as_set()
                else:
                    view = it.but(elt=sub(comp.elt))
                cur = comp
                continue
            break
        break
    return view, cur


def views_at_result(path, view, node, tree_name, depth=0):
    """Follow a collection from the expression `node` -- inside the returned expression (`tree_name` None) or inside the
    creating expression of the local object `tree_name` -- to the function's result, through the local objects it is
    converted into on the way.  -> list of final CollViews (empty: the collection does not reach the result)."""
    tree = path.ret if tree_name is None else path.objs.get(tree_name)
    if tree is None or depth > 4:
        return []
    view, top = lift_view(view, node, _parents(tree))
    if view is None:
        return []
    if tree_name is None:
        return [view.final()]
    occ = _name_occurrences(path, tree_name)
    if not occ:
        return []
    if view.opaque or top is not tree:
        # only a component of the local object, or converted in a way the rule does not interpret: as far as it is followed
        return [view.final()]
    out = []
    for tn, n in occ:
        out.extend(views_at_result(path, view, n, tn, depth + 1))
    return out


def container_views_at_result(path, view, name):
    """the same for a collection that IS the local object `name` (filled by statements)"""
    out = []
    for tn, n in _name_occurrences(path, name):
        out.extend(views_at_result(path, view, n, tn, 1))
    return out


def _name_occurrences(path, name):
    """(tree name, Name node) for every use of the local object `name` in the result or in another local object"""
    out = []
    trees = [(None, path.ret)] + [(k, v) for k, v in path.objs.items() if k != name]
    for tn, t in trees:
        if t is None:
            continue
        for n in ast.walk(t):
            if isinstance(n, ast.Name) and n.id == name:
                out.append((tn, n))
    return out


def function_of_fields(e, item_name, fields):
    """Is the value of `e` determined by the given fields of the item (`item.number`, `item.value`) -- no other name, and
    the item itself only through these fields?  Two items that agree in the fields then agree in e."""
    par = _parents(e)
    for n in ast.walk(e):
        if not isinstance(n, ast.Name):
            continue
        p = par.get(id(n))
        if n.id == item_name:
            if not (isinstance(p, ast.Attribute) and p.value is n and p.attr in fields):
                return False
            continue
        # a method of such a field (`item.number.is_x()`) is not a name; any other name (a counter, id, enumerate index)
        # may tell two items apart
        return False
    return True


# ---------------------------------------------------------------------------------------------------------------------
# Concrete evaluation of a small, closed piece of the program (C06.g: the expiry step of TimeoutDict).
#
# The checker's OWN interpreter of syntax trees over its OWN values: nothing of the analysed repository is imported,
# compiled, exec'd or eval'd.  The values are Python containers built by the interpreter (dict / set / list / tuple of
# opaque tokens) on which the operations of the interpreted code are carried out with the real semantics of the
# built-in types (so that `d.keys() - s`, `dict(filter(f, d.items()))`, `del d[k]` while `d` is being iterated -- a
# RuntimeError --, aliasing of a local with a field, lazily consumed generators, late-binding closures ... behave as
# they do in the program).  A construct outside this vocabulary raises `CUnsupported`: the caller then decides the
# clause with the symbolic executor (or refuses), never by guessing.

import builtins as _bi
import collections as _co
import contextlib as _cl
import copy as _cp
import functools as _ft
import itertools as _it
import operator as _op
import types as _ty

from ..rulekit import is_log_call as _is_log_call
from ..model import walk_no_nested as _walk_no_nested


class CUnsupported(Exception):
    """the interpreted code uses something the concrete evaluator does not model"""


class CRaise(Exception):
    """a Python-level exception raised by the interpreted code"""

    def __init__(self, exc, node=None):
        Exception.__init__(self, repr(exc))
        self.exc = exc
        self.node = node


class _CReturn(Exception):
    def __init__(self, value):
        self.value = value


class _CBreak(Exception):
    pass


class _CContinue(Exception):
    pass


class CVal:
    """an opaque stored value (compared by identity)"""

    def __init__(self, name):
        self.name = name

    def __repr__(self):
        return "<%s>" % self.name


class CHandle:
    """what loop.call_later / call_at / call_soon returns"""

    def __init__(self, delay, callback, args):
        self.delay, self.callback, self.args = delay, callback, args
        self.cancelled = False

    def __repr__(self):
        return "<timer handle>"


class CLoop:
    """the running event loop: records the timers that are armed"""

    def __init__(self):
        self.handles = []
        self.now = 1000.0


class CModule:
    def __init__(self, qn):
        self.qn = qn


class CObj:
    """an instance of a class of the program: a bag of fields"""

    def __init__(self, cls, fields):
        self.cls = cls
        self.fields = dict(fields)

    def __repr__(self):
        return "<%s instance>" % self.cls.qn.split(".")[-1]


class CClosure:
    """lambda / def of the interpreted program, callable from the built-ins (filter, sorted(key=), partial, map)"""

    def __init__(self, ev, node, scope, module, defaults, kw_defaults):
        self.ev, self.node, self.scope, self.module = ev, node, scope, module
        self.defaults, self.kw_defaults = defaults, kw_defaults

    def __call__(self, *a, **k):
        return self.ev.apply(self, list(a), dict(k))


class CMethod:
    """a method of the program bound to an instance"""

    def __init__(self, ev, fi, obj):
        self.ev, self.fi, self.obj = ev, fi, obj
        self.name = fi.name

    def __call__(self, *a, **k):
        return self.ev.call_method(self.obj, self.fi, list(a), dict(k))

    def __eq__(self, o):
        return isinstance(o, CMethod) and o.fi is self.fi and o.obj is self.obj

    def __hash__(self):
        return hash((id(self.fi), id(self.obj)))


class _CPrim:
    """a primitive of the model (loop.call_later, handle.cancel, ...)"""

    def __init__(self, fn):
        self.fn = fn

    def __call__(self, *a, **k):
        return self.fn(*a, **k)


class _CScope:
    def __init__(self, vars_, parent, locals_=frozenset(), comp=False, nonlocals=frozenset(), module=None):
        self.vars = vars_
        self.parent = parent
        self.locals = locals_
        self.comp = comp
        self.nonlocals = nonlocals
        self.module = module if module is not None else (parent.module if parent is not None else None)


_C_BUILTINS = {
    n: getattr(_bi, n)
    for n in (
        "dict list set frozenset tuple sorted len bool iter next any all zip map filter enumerate reversed isinstance min max sum "
        "range int str callable object abs divmod slice"
    ).split()
}
_C_BUILTINS.update({n: v for n, v in vars(_bi).items() if isinstance(v, type) and issubclass(v, BaseException)})
_C_SAFE = {
    "functools.partial": _ft.partial,
    "functools.reduce": _ft.reduce,
    "itertools.filterfalse": _it.filterfalse,
    "itertools.chain": _it.chain,
    "itertools.compress": _it.compress,
    "itertools.starmap": _it.starmap,
    "itertools.takewhile": _it.takewhile,
    "itertools.dropwhile": _it.dropwhile,
    "itertools.islice": _it.islice,
    "operator.contains": _op.contains,
    "operator.itemgetter": _op.itemgetter,
    "operator.not_": _op.not_,
    "operator.getitem": _op.getitem,
    "operator.delitem": _op.delitem,
    "operator.setitem": _op.setitem,
    "operator.truth": _op.truth,
    "operator.is_": _op.is_,
    "operator.is_not": _op.is_not,
    "operator.eq": _op.eq,
    "operator.ne": _op.ne,
    "copy.copy": _cp.copy,
    "collections.OrderedDict": _co.OrderedDict,
    "contextlib.suppress": _cl.suppress,
}
_C_SAFE_MODULES = {"functools", "itertools", "operator", "copy", "collections", "contextlib", "asyncio"}
_C_VALUE_TYPES = (dict, set, frozenset, list, tuple, str, int, bool, float, type(None), type({}.keys()), type({}.values()), type({}.items()), _co.OrderedDict, slice, range)
_C_DUNDERS = {"__contains__", "__getitem__", "__setitem__", "__delitem__", "__len__", "__iter__", "__eq__", "__ne__", "__or__", "__and__", "__sub__", "__xor__", "__ior__", "__isub__", "__iand__", "__call__"}
_C_BINOPS = {
    ast.Add: _op.add, ast.Sub: _op.sub, ast.Mult: _op.mul, ast.Div: _op.truediv, ast.FloorDiv: _op.floordiv, ast.Mod: _op.mod, ast.Pow: _op.pow,
    ast.BitOr: _op.or_, ast.BitAnd: _op.and_, ast.BitXor: _op.xor, ast.LShift: _op.lshift, ast.RShift: _op.rshift,
}
_C_IBINOPS = {
    ast.Add: _op.iadd, ast.Sub: _op.isub, ast.Mult: _op.imul, ast.Div: _op.itruediv, ast.FloorDiv: _op.ifloordiv, ast.Mod: _op.imod, ast.Pow: _op.ipow,
    ast.BitOr: _op.ior, ast.BitAnd: _op.iand, ast.BitXor: _op.ixor, ast.LShift: _op.ilshift, ast.RShift: _op.irshift,
}
_C_CMPOPS = {
    ast.Eq: _op.eq, ast.NotEq: _op.ne, ast.Lt: _op.lt, ast.LtE: _op.le, ast.Gt: _op.gt, ast.GtE: _op.ge, ast.Is: _op.is_, ast.IsNot: _op.is_not,
    ast.In: lambda a, b: _op.contains(b, a), ast.NotIn: lambda a, b: not _op.contains(b, a),
}


def _c_bound_names(fnode):
    """(names bound in the body of a def/lambda, names declared nonlocal/global)"""
    bound, free = set(), set()
    if isinstance(fnode, ast.Lambda):
        return bound, free
    for n in _walk_no_nested(fnode):
        if n is fnode:
            continue
        if isinstance(n, ast.Name) and isinstance(n.ctx, (ast.Store, ast.Del)):
            bound.add(n.id)
        elif isinstance(n, (ast.FunctionDef, ast.AsyncFunctionDef, ast.ClassDef)):
            bound.add(n.name)
        elif isinstance(n, ast.ExceptHandler) and n.name:
            bound.add(n.name)
        elif isinstance(n, (ast.Import, ast.ImportFrom)):
            for a in n.names:
                bound.add((a.asname or a.name).split(".")[0])
        elif isinstance(n, (ast.Global, ast.Nonlocal)):
            free.update(n.names)
    # targets of comprehensions live in the comprehension's own scope
    for n in _walk_no_nested(fnode):
        if isinstance(n, (ast.ListComp, ast.SetComp, ast.DictComp, ast.GeneratorExp)):
            for g in n.generators:
                for t in ast.walk(g.target):
                    if isinstance(t, ast.Name) and not _c_assigned_outside_comps(fnode, t.id):
                        bound.discard(t.id)
    return bound - free, free


def _c_assigned_outside_comps(fnode, name):
    def visit(n, in_comp):
        for c in ast.iter_child_nodes(n):
            if isinstance(c, (ast.FunctionDef, ast.AsyncFunctionDef, ast.Lambda, ast.ClassDef)):
                if not isinstance(c, ast.Lambda) and c.name == name and not in_comp:
                    return True
                continue
            if isinstance(c, (ast.ListComp, ast.SetComp, ast.DictComp, ast.GeneratorExp)):
                # a walrus inside a comprehension binds in the function
                if any(isinstance(x, ast.NamedExpr) and x.target.id == name for x in ast.walk(c)):
                    return True
                continue
            if isinstance(c, ast.Name) and c.id == name and isinstance(c.ctx, (ast.Store, ast.Del)) and not in_comp:
                return True
            if isinstance(c, ast.ExceptHandler) and c.name == name:
                return True
            if visit(c, in_comp):
                return True
        return False

    return visit(fnode, False)


class ConcreteEval:
    """Interpreter of function bodies over concrete values (see the section comment)."""

    def __init__(self, prog, max_steps=200000, max_depth=12, loop=None):
        self.prog = prog
        self.steps = 0
        self.max_steps = max_steps
        self.depth = 0
        self.max_depth = max_depth
        self.loop = loop if loop is not None else CLoop()
        self.on_stmt = None  # hook(stmt, depth) after every executed statement
        self._modconst = {}
        self._handling = []

    # -- driver -------------------------------------------------------------------------------------------------------
    def call_method(self, obj, fi, args, kwargs=None):
        if fi.is_async:
            raise CUnsupported("coroutine %s" % fi.short)
        clo = CClosure(self, fi.node, _CScope({}, None, module=fi.module), fi.module, *self._defaults(fi.node, _CScope({}, None, module=fi.module)))
        return self.apply(clo, [obj] + list(args), dict(kwargs or {}))

    def tick(self, node=None):
        self.steps += 1
        if self.steps > self.max_steps:
            raise CUnsupported("step budget exhausted")

    def _defaults(self, fnode, scope):
        a = fnode.args
        return [self.ev(d, scope) for d in a.defaults], [None if d is None else self.ev(d, scope) for d in a.kw_defaults]

    def apply(self, clo, args, kwargs):
        node = clo.node
        if isinstance(node, ast.AsyncFunctionDef):
            raise CUnsupported("coroutine function")
        if not isinstance(node, ast.Lambda) and any(isinstance(n, (ast.Yield, ast.YieldFrom)) for n in _walk_no_nested(node)):
            raise CUnsupported("generator function %s" % node.name)
        if not isinstance(node, ast.Lambda) and node.decorator_list:
            raise CUnsupported("decorated function %s" % node.name)
        a = node.args
        pos = [x.arg for x in a.posonlyargs + a.args]
        vars_ = {}
        if len(args) > len(pos) and a.vararg is None:
            raise CRaise(TypeError("too many positional arguments"), node)
        for n_, v in zip(pos, args):
            vars_[n_] = v
        if a.vararg is not None:
            vars_[a.vararg.arg] = tuple(args[len(pos):])
        extra = {}
        for k, v in kwargs.items():
            if k in vars_:
                raise CRaise(TypeError("multiple values for argument %r" % k), node)
            if k in pos[len(a.posonlyargs):] or k in [x.arg for x in a.kwonlyargs]:
                vars_[k] = v
            elif a.kwarg is not None:
                extra[k] = v
            else:
                raise CRaise(TypeError("unexpected keyword argument %r" % k), node)
        if a.kwarg is not None:
            vars_[a.kwarg.arg] = extra
        nd = len(clo.defaults)
        for i, n_ in enumerate(pos):
            if n_ not in vars_:
                j = i - (len(pos) - nd)
                if j < 0:
                    raise CRaise(TypeError("missing argument %r" % n_), node)
                vars_[n_] = clo.defaults[j]
        for x, d in zip(a.kwonlyargs, clo.kw_defaults):
            if x.arg not in vars_:
                if d is None and a.kw_defaults[a.kwonlyargs.index(x)] is None:
                    raise CRaise(TypeError("missing keyword argument %r" % x.arg), node)
                vars_[x.arg] = d
        bound, free = _c_bound_names(node)
        scope = _CScope(vars_, clo.scope, locals_=frozenset(bound) | frozenset(vars_), nonlocals=frozenset(free), module=clo.module)
        self.depth += 1
        try:
            if self.depth > self.max_depth:
                raise CUnsupported("call depth")
            if isinstance(node, ast.Lambda):
                return self.ev(node.body, scope)
            try:
                self.block(node.body, scope)
            except _CReturn as r:
                return r.value
            return None
        finally:
            self.depth -= 1

    # -- names --------------------------------------------------------------------------------------------------------
    def load(self, name, scope, node=None):
        s = scope
        while s is not None:
            if name in s.vars:
                return s.vars[name]
            if name in s.locals and not s.comp and name not in s.nonlocals:
                raise CUnsupported("local %s read before it is bound" % name)
            s = s.parent
        return self.module_name(scope.module, name)

    def module_name(self, module, name):
        if module is None:
            raise CUnsupported("name %s" % name)
        key = (module.name, name)
        if key in self._modconst:
            return self._modconst[key]
        qn = module.name + "." + name
        if qn in self.prog.funcs and self.prog.funcs[qn].cls is None and self.prog.funcs[qn].parent is None:
            fi = self.prog.funcs[qn]
            sc = _CScope({}, None, module=module)
            v = CClosure(self, fi.node, sc, module, *self._defaults(fi.node, sc))
            self._modconst[key] = v
            return v
        if qn in self.prog.classes:
            raise CUnsupported("class %s used as a value" % qn)
        found = None
        for st in module.tree.body:
            if isinstance(st, ast.Assign):
                for t in st.targets:
                    if isinstance(t, ast.Name) and t.id == name:
                        found = (found or 0) + 1
                        expr = st.value
            elif isinstance(st, ast.AnnAssign) and isinstance(st.target, ast.Name) and st.target.id == name and st.value is not None:
                found = (found or 0) + 1
                expr = st.value
        if found == 1:
            v = self.ev(expr, _CScope({}, None, module=module))
            if isinstance(v, (dict, set, list)):
                raise CUnsupported("mutable module-level object %s" % name)
            self._modconst[key] = v
            return v
        if found:
            raise CUnsupported("module-level name %s assigned several times" % name)
        if name in module.imports:
            q = module.imports[name]
            if q in _C_SAFE:
                return _C_SAFE[q]
            if q in _C_SAFE_MODULES:
                return CModule(q)
            if q in self.prog.funcs and self.prog.funcs[q].cls is None and self.prog.funcs[q].parent is None:
                fi = self.prog.funcs[q]
                sc = _CScope({}, None, module=fi.module)
                return CClosure(self, fi.node, sc, fi.module, *self._defaults(fi.node, sc))
            if q.split(".")[0] == "asyncio":
                return self.asyncio_attr(q.split(".", 1)[1]) if "." in q else CModule("asyncio")
            raise CUnsupported("imported name %s (%s)" % (name, q))
        if name in _C_BUILTINS:
            return _C_BUILTINS[name]
        if name == "print":
            return _CPrim(lambda *a, **k: None)
        raise CUnsupported("name %s" % name)

    def asyncio_attr(self, attr):
        if attr in ("get_running_loop", "get_event_loop"):
            return _CPrim(lambda: self.loop)
        raise CUnsupported("asyncio.%s" % attr)

    def store(self, name, v, scope):
        s = scope
        while s is not None and s.comp:
            s = s.parent
        if s is None:
            raise CUnsupported("binding of %s outside a function" % name)
        if name in s.nonlocals:
            t = s.parent
            while t is not None:
                if name in t.vars and not t.comp:
                    t.vars[name] = v
                    return
                t = t.parent
            raise CUnsupported("global/nonlocal %s" % name)
        s.vars[name] = v

    # -- attributes ---------------------------------------------------------------------------------------------------
    def getattr_(self, v, attr, node=None):
        if isinstance(v, CObj):
            if attr in v.fields:
                return v.fields[attr]
            fi = self.prog.lookup_method(v.cls.qn, attr)
            if fi is not None:
                decos = [chain(d) for d in fi.node.decorator_list]
                if decos == ["property"]:
                    return self.call_method(v, fi, [])
                if decos:
                    raise CUnsupported("decorated method %s" % attr)
                return CMethod(self, fi, v)
            ca = self.prog.class_attr(v.cls.qn, attr)
            if ca is not None and ca[0] is not None:
                return self.ev(ca[0], _CScope({}, None, module=ca[1].module))
            # the instance was built by running __init__: a field it does not set is more likely set somewhere the model
            # does not see than a genuine AttributeError
            raise CUnsupported("attribute %s of the instance is not set by __init__" % attr)
        if isinstance(v, CModule):
            q = v.qn + "." + attr
            if q in _C_SAFE:
                return _C_SAFE[q]
            if v.qn == "asyncio":
                return self.asyncio_attr(attr)
            raise CUnsupported(q)
        if isinstance(v, CLoop):
            if attr == "call_later":
                return _CPrim(lambda delay, cb, *args: self._arm(delay, cb, args))
            if attr == "call_at":
                return _CPrim(lambda when, cb, *args: self._arm(when - v.now, cb, args))
            if attr == "call_soon":
                return _CPrim(lambda cb, *args: self._arm(0, cb, args))
            if attr == "time":
                return _CPrim(lambda: v.now)
            raise CUnsupported("loop.%s" % attr)
        if isinstance(v, CHandle):
            if attr == "cancel":
                return _CPrim(lambda: setattr(v, "cancelled", True))
            if attr == "cancelled":
                return _CPrim(lambda: v.cancelled)
            if attr == "when":
                return _CPrim(lambda: v.due if getattr(v, "due", None) is not None else self.loop.now + v.delay)
            raise CUnsupported("handle.%s" % attr)
        if isinstance(v, (CVal, CClosure, CMethod, _CPrim)):
            raise CUnsupported("attribute %s of %r" % (attr, v))
        if type(v) in _C_VALUE_TYPES or isinstance(v, (_ft.partial, _cl.suppress)) or isinstance(v, BaseException):
            if attr.startswith("_") and attr not in _C_DUNDERS:
                raise CUnsupported("attribute %s" % attr)
            try:
                return getattr(v, attr)
            except AttributeError as e:
                raise CRaise(e, node)
        raise CUnsupported("attribute %s of a %s" % (attr, type(v).__name__))

    def _arm(self, delay, cb, args):
        h = CHandle(delay, cb, tuple(args))
        h.due = (self.loop.now + delay) if isinstance(delay, (int, float)) and not isinstance(delay, bool) else None  # absolute loop time
        self.loop.handles.append(h)
        return h

    # -- calls --------------------------------------------------------------------------------------------------------
    def call(self, f, args, kwargs, node=None):
        if isinstance(f, (CClosure, CMethod, _CPrim)):
            pass
        elif isinstance(f, (_ty.BuiltinFunctionType, _ty.BuiltinMethodType, _ty.MethodWrapperType, _ty.MethodDescriptorType, _ft.partial, _op.itemgetter)):
            pass
        elif isinstance(f, type) and (f in _C_BUILTINS.values() or f in _C_SAFE.values()):
            pass
        elif any(f is x for x in _C_SAFE.values()) or any(f is x for x in _C_BUILTINS.values()):
            pass
        else:
            if f is None or type(f) in _C_VALUE_TYPES:
                raise CRaise(TypeError("%r is not callable" % (f,)), node)
            raise CUnsupported("call of %r" % (f,))
        try:
            return f(*args, **kwargs)
        except (CUnsupported, CRaise):
            raise
        except (_CReturn, _CBreak, _CContinue):
            raise
        except RecursionError:
            raise CUnsupported("recursion")
        except Exception as e:  # raised by an operation of a built-in type on the interpreter's values
            raise CRaise(e, node)

    # -- expressions --------------------------------------------------------------------------------------------------
    def ev(self, e, scope):
        self.tick()
        m = getattr(self, "ev_" + type(e).__name__, None)
        if m is None:
            raise CUnsupported("expression %s" % type(e).__name__)
        return m(e, scope)

    def ev_Constant(self, e, scope):
        return e.value

    def ev_Name(self, e, scope):
        return self.load(e.id, scope, e)

    def ev_Attribute(self, e, scope):
        return self.getattr_(self.ev(e.value, scope), e.attr, e)

    def ev_NamedExpr(self, e, scope):
        v = self.ev(e.value, scope)
        self.store(e.target.id, v, scope)
        return v

    def _seq(self, elts, scope):
        out = []
        for x in elts:
            if isinstance(x, ast.Starred):
                out.extend(self.iterate(self.ev(x.value, scope), x))
            else:
                out.append(self.ev(x, scope))
        return out

    def iterate(self, v, node=None):
        """a Python iterator over a value of the interpreter"""
        if isinstance(v, (CObj, CVal)):
            raise CUnsupported("iteration over %r" % (v,))
        if isinstance(v, (CHandle, CLoop, CModule, CClosure, CMethod, _CPrim)):
            raise CRaise(TypeError("%r is not iterable" % (v,)), node)
        try:
            it = iter(v)
        except (CUnsupported, CRaise):
            raise
        except Exception as ex:
            raise CRaise(ex, node)
        return self._guarded(it, node)

    def _guarded(self, it, node):
        while True:
            try:
                x = next(it)
            except StopIteration:
                return
            except (CUnsupported, CRaise):
                raise
            except Exception as ex:
                raise CRaise(ex, node)
            yield x

    def ev_Tuple(self, e, scope):
        return tuple(self._seq(e.elts, scope))

    def ev_List(self, e, scope):
        return list(self._seq(e.elts, scope))

    def ev_Set(self, e, scope):
        return self._py(lambda: set(self._seq(e.elts, scope)), e)

    def _py(self, thunk, node):
        try:
            return thunk()
        except (CUnsupported, CRaise, _CReturn, _CBreak, _CContinue):
            raise
        except Exception as ex:
            raise CRaise(ex, node)

    def ev_Dict(self, e, scope):
        d = {}
        for k, v in zip(e.keys, e.values):
            if k is None:
                m = self.ev(v, scope)
                if not isinstance(m, dict):
                    raise CUnsupported("** of a non-dict")
                d.update(m)
            else:
                kk = self.ev(k, scope)
                vv = self.ev(v, scope)
                self._py(lambda: d.__setitem__(kk, vv), e)
        return d

    def ev_JoinedStr(self, e, scope):
        for x in e.values:
            if isinstance(x, ast.FormattedValue):
                self.ev(x.value, scope)
        return "<formatted>"

    def ev_UnaryOp(self, e, scope):
        v = self.ev(e.operand, scope)
        if isinstance(e.op, ast.Not):
            return not self.truth(v, e)
        f = {ast.USub: _op.neg, ast.UAdd: _op.pos, ast.Invert: _op.invert}[type(e.op)]
        return self._py(lambda: f(v), e)

    def truth(self, v, node=None):
        if isinstance(v, CVal):
            raise CUnsupported("truth of a stored value")
        if isinstance(v, (CObj, CHandle, CLoop, CClosure, CMethod, _CPrim, CModule)):
            if isinstance(v, CObj) and (self.prog.lookup_method(v.cls.qn, "__bool__") or self.prog.lookup_method(v.cls.qn, "__len__")):
                raise CUnsupported("truth of an instance with __bool__/__len__")
            return True
        return self._py(lambda: bool(v), node)

    def ev_BoolOp(self, e, scope):
        v = None
        for x in e.values:
            v = self.ev(x, scope)
            t = self.truth(v, x)
            if isinstance(e.op, ast.And) and not t:
                return v
            if isinstance(e.op, ast.Or) and t:
                return v
        return v

    def ev_IfExp(self, e, scope):
        return self.ev(e.body if self.truth(self.ev(e.test, scope), e.test) else e.orelse, scope)

    def ev_BinOp(self, e, scope):
        a = self.ev(e.left, scope)
        b = self.ev(e.right, scope)
        f = _C_BINOPS.get(type(e.op))
        if f is None:
            raise CUnsupported("operator %s" % type(e.op).__name__)
        self._plain(a, b)
        return self._py(lambda: f(a, b), e)

    def _plain(self, *vs):
        """operators other than identity on an instance of the program or on an (opaque) stored value are not modelled"""
        for v in vs:
            if isinstance(v, (CObj, CVal)):
                raise CUnsupported("operator on an instance of the program / a stored value")

    def ev_Compare(self, e, scope):
        a = self.ev(e.left, scope)
        for op, r in zip(e.ops, e.comparators):
            b = self.ev(r, scope)
            if not isinstance(op, (ast.Is, ast.IsNot)):
                self._plain(a, b)
            f = _C_CMPOPS[type(op)]
            res = self._py(lambda: f(a, b), e)
            if not self.truth(res, e):
                return res
            a = b
        return res

    def ev_Subscript(self, e, scope):
        v = self.ev(e.value, scope)
        k = self.ev(e.slice, scope)
        self._plain(v)
        if isinstance(v, CVal):
            raise CUnsupported("subscript of a stored value")
        if isinstance(v, (CHandle, CLoop, CModule, CClosure, CMethod, _CPrim)):
            raise CRaise(TypeError("not subscriptable"), e)
        return self._py(lambda: v[k], e)

    def ev_Slice(self, e, scope):
        return slice(*(None if x is None else self.ev(x, scope) for x in (e.lower, e.upper, e.step)))

    def ev_Lambda(self, e, scope):
        return CClosure(self, e, scope, scope.module, *self._defaults(e, scope))

    def ev_Call(self, e, scope):
        if _is_log_call(e):
            return None
        f = self.ev(e.func, scope)
        args = self._seq(e.args, scope)
        kwargs = {}
        for k in e.keywords:
            if k.arg is None:
                m = self.ev(k.value, scope)
                if not isinstance(m, dict):
                    raise CUnsupported("** of a non-dict")
                kwargs.update(m)
            else:
                kwargs[k.arg] = self.ev(k.value, scope)
        return self.call(f, args, kwargs, e)

    # comprehensions: the first iterable is evaluated in the enclosing scope, the rest in the comprehension's own scope;
    # a generator expression is consumed lazily (as in Python), the others at once
    def _comp_iter(self, gens, scope, first, emit):
        def rec(i, sc):
            g = gens[i]
            if g.is_async:
                raise CUnsupported("async comprehension")
            src = first if i == 0 else self.iterate(self.ev(g.iter, sc), g.iter)
            for x in src:
                self.tick()
                self.bind(g.target, x, sc, comp=True)
                if all(self.truth(self.ev(c, sc), c) for c in g.ifs):
                    if i + 1 < len(gens):
                        yield from rec(i + 1, sc)
                    else:
                        yield emit(sc)

        return rec(0, _CScope({}, scope, comp=True))

    def _comp(self, e, scope, emit):
        first = self.iterate(self.ev(e.generators[0].iter, scope), e.generators[0].iter)
        return self._comp_iter(e.generators, scope, first, emit)

    def ev_ListComp(self, e, scope):
        return list(self._comp(e, scope, lambda sc: self.ev(e.elt, sc)))

    def ev_SetComp(self, e, scope):
        return self._py(lambda: set(self._comp(e, scope, lambda sc: self.ev(e.elt, sc))), e)

    def ev_GeneratorExp(self, e, scope):
        return self._comp(e, scope, lambda sc: self.ev(e.elt, sc))

    def ev_DictComp(self, e, scope):
        d = {}
        for k, v in self._comp(e, scope, lambda sc: (self.ev(e.key, sc), self.ev(e.value, sc))):
            self._py(lambda: d.__setitem__(k, v), e)
        return d

    # -- binding ------------------------------------------------------------------------------------------------------
    def bind(self, t, v, scope, comp=False):
        if isinstance(t, ast.Name):
            if comp:
                scope.vars[t.id] = v
            else:
                self.store(t.id, v, scope)
        elif isinstance(t, (ast.Tuple, ast.List)):
            vals = list(self.iterate(v, t))
            stars = [i for i, x in enumerate(t.elts) if isinstance(x, ast.Starred)]
            if not stars:
                if len(vals) != len(t.elts):
                    raise CRaise(ValueError("unpacking %d values into %d targets" % (len(vals), len(t.elts))), t)
                for x, y in zip(t.elts, vals):
                    self.bind(x, y, scope, comp)
            else:
                i = stars[0]
                after = len(t.elts) - i - 1
                if len(vals) < len(t.elts) - 1:
                    raise CRaise(ValueError("not enough values to unpack"), t)
                for x, y in zip(t.elts[:i], vals[:i]):
                    self.bind(x, y, scope, comp)
                self.bind(t.elts[i].value, vals[i: len(vals) - after], scope, comp)
                for x, y in zip(t.elts[i + 1:], vals[len(vals) - after:]):
                    self.bind(x, y, scope, comp)
        elif isinstance(t, ast.Attribute):
            o = self.ev(t.value, scope)
            if not isinstance(o, CObj):
                raise CUnsupported("attribute store on %r" % (o,))
            fi = self.prog.lookup_method(o.cls.qn, t.attr)
            if fi is not None:
                raise CUnsupported("store to the method/property %s" % t.attr)
            o.fields[t.attr] = v
        elif isinstance(t, ast.Subscript):
            o = self.ev(t.value, scope)
            k = self.ev(t.slice, scope)
            self._plain(o)
            if not isinstance(o, (dict, list)):
                raise CRaise(TypeError("item assignment on %r" % (o,)), t)
            self._py(lambda: o.__setitem__(k, v), t)
        else:
            raise CUnsupported("assignment target %s" % type(t).__name__)

    # -- statements ---------------------------------------------------------------------------------------------------
    def block(self, stmts, scope):
        for s in stmts:
            self.tick()
            m = getattr(self, "do_" + type(s).__name__, None)
            if m is None:
                raise CUnsupported("statement %s" % type(s).__name__)
            try:
                m(s, scope)
            finally:
                if self.on_stmt is not None:
                    self.on_stmt(s, self.depth)

    def do_Expr(self, s, scope):
        if isinstance(s.value, ast.Constant):
            return
        self.ev(s.value, scope)

    def do_Pass(self, s, scope):
        pass

    def do_Assign(self, s, scope):
        v = self.ev(s.value, scope)
        for t in s.targets:
            self.bind(t, v, scope)

    def do_AnnAssign(self, s, scope):
        if s.value is not None:
            self.bind(s.target, self.ev(s.value, scope), scope)

    def do_AugAssign(self, s, scope):
        f = _C_IBINOPS.get(type(s.op))
        if f is None:
            raise CUnsupported("operator %s" % type(s.op).__name__)
        t = s.target
        if isinstance(t, ast.Name):
            a = self.load(t.id, scope, t)
            b = self.ev(s.value, scope)
            self._plain(a, b)
            self.store(t.id, self._py(lambda: f(a, b), s), scope)
        elif isinstance(t, ast.Attribute):
            o = self.ev(t.value, scope)
            if not isinstance(o, CObj):
                raise CUnsupported("attribute store on %r" % (o,))
            a = self.getattr_(o, t.attr, t)
            b = self.ev(s.value, scope)
            self._plain(a, b)
            o.fields[t.attr] = self._py(lambda: f(a, b), s)
        elif isinstance(t, ast.Subscript):
            o = self.ev(t.value, scope)
            k = self.ev(t.slice, scope)
            self._plain(o)
            if not isinstance(o, (dict, list)):
                raise CRaise(TypeError("item assignment"), t)
            a = self._py(lambda: o[k], t)
            b = self.ev(s.value, scope)
            self._plain(a, b)
            r = self._py(lambda: f(a, b), s)
            self._py(lambda: o.__setitem__(k, r), t)
        else:
            raise CUnsupported("augmented assignment target")

    def do_Delete(self, s, scope):
        for t in s.targets:
            if isinstance(t, ast.Subscript):
                o = self.ev(t.value, scope)
                k = self.ev(t.slice, scope)
                if isinstance(o, (CObj, CVal)):
                    raise CUnsupported("item deletion on %r" % (o,))
                if not isinstance(o, (dict, list)):
                    raise CRaise(TypeError("item deletion on %r" % (o,)), t)
                self._py(lambda: o.__delitem__(k), t)
            elif isinstance(t, ast.Name):
                sc = scope
                while sc is not None and sc.comp:
                    sc = sc.parent
                if sc is None or t.id not in sc.vars:
                    raise CUnsupported("del of the unbound name %s" % t.id)
                del sc.vars[t.id]
            elif isinstance(t, ast.Attribute):
                o = self.ev(t.value, scope)
                if not isinstance(o, CObj):
                    raise CUnsupported("attribute deletion")
                if t.attr not in o.fields:
                    raise CRaise(AttributeError(t.attr), t)
                del o.fields[t.attr]
            else:
                raise CUnsupported("del target")

    def do_Return(self, s, scope):
        raise _CReturn(None if s.value is None else self.ev(s.value, scope))

    def do_Break(self, s, scope):
        raise _CBreak()

    def do_Continue(self, s, scope):
        raise _CContinue()

    def do_If(self, s, scope):
        self.block(s.body if self.truth(self.ev(s.test, scope), s.test) else s.orelse, scope)

    def do_While(self, s, scope):
        while self.truth(self.ev(s.test, scope), s.test):
            self.tick()
            try:
                self.block(s.body, scope)
            except _CBreak:
                return
            except _CContinue:
                continue
        self.block(s.orelse, scope)

    def do_For(self, s, scope):
        for x in self.iterate(self.ev(s.iter, scope), s.iter):
            self.tick()
            self.bind(s.target, x, scope)
            try:
                self.block(s.body, scope)
            except _CBreak:
                return
            except _CContinue:
                continue
        self.block(s.orelse, scope)

    def do_FunctionDef(self, s, scope):
        self.store(s.name, CClosure(self, s, scope, scope.module, *self._defaults(s, scope)), scope)

    def do_Assert(self, s, scope):
        # `assert` is never a guard (python -O removes it): a failing one is outside the model
        if not self.truth(self.ev(s.test, scope), s.test):
            raise CUnsupported("an assertion fails")

    def do_Global(self, s, scope):
        pass

    def do_Nonlocal(self, s, scope):
        pass

    def do_Import(self, s, scope):
        for a in s.names:
            q = a.name
            if q not in _C_SAFE_MODULES:
                raise CUnsupported("import %s" % q)
            self.store((a.asname or q).split(".")[0], CModule(q), scope)

    def do_ImportFrom(self, s, scope):
        for a in s.names:
            q = "%s.%s" % (s.module, a.name)
            if s.level or q not in _C_SAFE:
                raise CUnsupported("from %s import %s" % (s.module, a.name))
            self.store(a.asname or a.name, _C_SAFE[q], scope)

    def do_Raise(self, s, scope):
        if s.exc is None:
            if not self._handling:
                raise CUnsupported("bare raise outside a handler")
            raise CRaise(self._handling[-1], s)
        v = self.ev(s.exc, scope)
        if s.cause is not None:
            self.ev(s.cause, scope)
        if isinstance(v, type) and issubclass(v, BaseException):
            v = self._py(lambda: v(), s)
        if not isinstance(v, BaseException):
            raise CUnsupported("raise of %r" % (v,))
        raise CRaise(v, s)

    def _exc_types(self, h, scope):
        if h.type is None:
            return (BaseException,)
        t = self.ev(h.type, scope)
        ts = tuple(t) if isinstance(t, tuple) else (t,)
        if not all(isinstance(x, type) and issubclass(x, BaseException) for x in ts):
            raise CUnsupported("except clause %s" % ast.unparse(h.type))
        return ts

    def do_Try(self, s, scope):
        try:
            try:
                self.block(s.body, scope)
            except CRaise as r:
                for h in s.handlers:
                    if isinstance(r.exc, self._exc_types(h, scope)):
                        if h.name:
                            self.store(h.name, r.exc, scope)
                        self._handling.append(r.exc)
                        try:
                            self.block(h.body, scope)
                        finally:
                            self._handling.pop()
                        break
                else:
                    raise
            else:
                self.block(s.orelse, scope)
        finally:
            # control flow leaving a finally block by itself (return/break inside it) is outside the model
            if s.finalbody:
                self.block(s.finalbody, scope)

    def do_With(self, s, scope):
        sup = []
        for it in s.items:
            v = self.ev(it.context_expr, scope)
            if not isinstance(v, _cl.suppress):
                raise CUnsupported("with %s" % ast.unparse(it.context_expr))
            if it.optional_vars is not None:
                self.bind(it.optional_vars, None, scope)
            sup.extend(v._exceptions)
        try:
            self.block(s.body, scope)
        except CRaise as r:
            if not isinstance(r.exc, tuple(sup)):
                raise


# ---------------------------------------------------------------------------------------------------------------------
# The expiry step of TimeoutDict on small concrete tables


class TickRun:
    """the outcome of one concrete run of TimeoutDict._tick"""

    def __init__(self, items0, recent0):
        self.items0, self.recent0 = items0, recent0
        self.raised = None
        self.items = None
        self.timeout = None
        self.recent = None
        self.pending = []
        self.first_change = None  # the first statement of _tick after which self._items differed from the old table
        self.last_timer_stmt = None

    def describe(self):
        ks = lambda d: "{%s}" % ", ".join("k%d" % k[1] for k in d)
        return "stored %s, used since the previous tick %s" % (ks(self.items0), ks(sorted(self.recent0)))


def tick_tables(with_foreign):
    """(items, recently used keys): every table over three keys with every set of used keys (optionally with a key that
    is marked as used but not stored), one in another insertion order, and a larger one"""
    keys = [(0, 1), (0, 2), (0, 3)]
    foreign = (0, 9)
    out = []
    for m in range(8):
        stored = [k for i, k in enumerate(keys) if m >> i & 1]
        cands = stored + ([foreign] if with_foreign else [])
        for a in range(1 << len(cands)):
            out.append((stored, {k for i, k in enumerate(cands) if a >> i & 1}))
    out.append((list(reversed(keys)), {keys[0], keys[2]}))
    big = [(0, i) for i in range(1, 8)]
    out.append((big, {k for k in big if k[1] % 3 != 1}))
    out.append((big, {big[0]}))
    return out


def fresh_timeoutdict(ce, prog, cls, items, recent, handle, timeout_value=93.0):
    """An instance as `__init__(timeout_value)` leaves it (run concretely, so that every field the class keeps exists),
    put into the given state (the three fields the property is about)."""
    obj = CObj(cls, {})
    init = prog.lookup_method(cls.qn, "__init__")
    if init is not None:
        try:
            ce.call_method(obj, init, [timeout_value])
        except CRaise as r:
            raise CUnsupported("__init__(timeout) raises %s" % type(r.exc).__name__)
    if ce.loop.handles:
        raise CUnsupported("__init__ arms a timer")
    for f in ("_items", "_recently_accessed", "_timeout"):
        if f not in obj.fields:
            raise CUnsupported("__init__ does not set the field %s" % f)
    if not isinstance(obj.fields["_items"], dict) or obj.fields["_items"]:
        raise CUnsupported("__init__ does not start with an empty dictionary")
    obj.fields["_items"] = items
    obj.fields["_recently_accessed"] = recent
    obj.fields["_timeout"] = handle
    return obj


def run_tick(prog, cls, tick_fi, stored, recent, timeout_value=93.0):
    """One run of `_tick` on an instance whose timer has just fired.  -> TickRun; raises CUnsupported."""
    ce = ConcreteEval(prog)
    items = {k: CVal("v%d" % k[1]) for k in stored}
    fired = CHandle(timeout_value, None, ())
    obj = fresh_timeoutdict(ce, prog, cls, items, set(recent), fired, timeout_value)
    run = TickRun(dict(items), set(recent))
    snap = [(id(items), list(items.items()))]

    def hook(stmt, depth):
        if depth != 1:
            return
        cur = obj.fields.get("_items")
        now = (id(cur), list(cur.items()) if isinstance(cur, dict) else None)
        if run.first_change is None and now[1] != snap[0][1]:
            run.first_change = stmt
        live = [h for h in ce.loop.handles if not h.cancelled]
        if (len(live), id(obj.fields.get("_timeout"))) != hook.timer:
            hook.timer = (len(live), id(obj.fields.get("_timeout")))
            run.last_timer_stmt = stmt

    hook.timer = (0, id(fired))
    ce.on_stmt = hook
    try:
        ce.call_method(obj, tick_fi, [])
    except CRaise as r:
        run.raised = r.exc
    run.items = obj.fields.get("_items")
    run.timeout = obj.fields.get("_timeout")
    run.recent = obj.fields.get("_recently_accessed")
    run.pending = [h for h in ce.loop.handles if not h.cancelled]
    run.obj = obj
    run.tick = CMethod(ce, tick_fi, obj)
    return run


def recent_subset_invariant(prog, cls, skip=("__init__",)):
    """Is `_recently_accessed <= keys(_items)` preserved by every entry point of the class (checked on all states over
    two keys)?  Then a table in which a key is marked as used but not stored cannot arise, and the expiry step need not
    cope with it.  -> (bool, reason)"""
    private = {n for n in cls.methods if n.startswith("_") and not (n.startswith("__") and n.endswith("__"))}
    # private helpers must not be entered from outside the class
    for fi in prog.funcs.values():
        inside = fi.cls is cls or (fi.parent is not None and fi.qn.startswith(cls.qn + "."))
        if inside:
            continue
        for n in ast.walk(fi.node):
            if isinstance(n, ast.Attribute) and n.attr in private | {"_items", "_recently_accessed"}:
                if fi.cls is not None and isinstance(n.value, ast.Name) and n.value.id in ("self", "cls"):
                    continue  # another class's own member of the same name (subclasses are excluded below)
                return False, "%s is used outside the class (%s)" % (n.attr, fi.short)
    if any(q != cls.qn for q in prog.subclasses(cls.qn)):
        return False, "the class has subclasses"
    keys = [(0, 1), (0, 2)]
    absent = (0, 3)
    entries = [fi for n, fi in cls.methods.items() if n not in private and n not in skip]
    for fi in entries:
        a = fi.node.args
        if a.vararg or a.kwarg or a.kwonlyargs or fi.is_async or fi.node.decorator_list:
            return False, "signature of %s" % fi.short
        names = [x.arg for x in a.posonlyargs + a.args][1:]
        required = names[: len(names) - len(a.defaults)] if a.defaults else names
        if len(required) > 2:
            return False, "signature of %s" % fi.short
        for m in range(4):
            stored = [k for i, k in enumerate(keys) if m >> i & 1]
            states = [(None, None)] + [({k for i, k in enumerate(stored) if s >> i & 1}, True) for s in range(1 << len(stored))]
            for recent, running in states:
                for key in (keys[0], absent):
                    ce = ConcreteEval(prog)
                    args = ([key] + [CVal("new")])[: len(required)]
                    try:
                        obj = fresh_timeoutdict(ce, prog, cls, {k: CVal("v%d" % k[1]) for k in stored}, None if recent is None else set(recent), CHandle(93.0, None, ()) if running else None)
                        ce.call_method(obj, fi, args)
                    except CRaise:
                        pass
                    except CUnsupported as u:
                        return False, "%s: %s" % (fi.short, u)
                    ra, it = obj.fields.get("_recently_accessed"), obj.fields.get("_items")
                    if ra is None:
                        continue
                    if not isinstance(ra, (set, frozenset)) or not isinstance(it, dict) or not ra <= set(it.keys()):
                        return False, "%s can mark a key that is not stored" % fi.short
    return True, None


# ---- lifetimes over histories -------------------------------------------------------------------------------------------
class HistoryRun:
    """the outcome of one concrete history of a TimeoutDict on a loop whose timers fire exactly when due"""

    def __init__(self, events, probe_key, probe_at):
        self.events, self.probe_key, self.probe_at = events, probe_key, probe_at
        self.last_use = None  # loop time (in lifetimes) of the last successful get / set of the probed key
        self.value = None  # the value object stored by the last set of the probed key
        self.found = None  # what the probing lookup returned; None with .missing when it raised KeyError
        self.missing = False
        self.raised = None  # any other exception (from an access, a timer callback or the probe)
        self.raised_in = None
        self.early_loss = None  # (key, time): a lookup among the events that found nothing less than one lifetime after the key's last use

    def describe(self):
        ev = ", ".join("%s k%d at %.3gT" % (op, key[1], t) for t, op, key in self.events)
        return "%s; lookup of k%d at %.4gT" % (ev, self.probe_key[1], self.probe_at)


def _history_fire(ce, until):
    """run the pending timers that are due up to loop time `until`, in the order in which they are due"""
    loop = ce.loop
    while True:
        due = [h for h in loop.handles if not h.cancelled and not getattr(h, "fired", False)]
        for h in due:
            if getattr(h, "due", None) is None:
                raise CUnsupported("a timer whose time is not a number")
        due = [h for h in due if h.due <= until]
        if not due:
            break
        h = min(due, key=lambda x: x.due)
        h.fired = True  # no longer pending
        loop.now = max(loop.now, h.due)
        ce.call(h.callback, list(h.args), {})
    loop.now = max(loop.now, until)


def history_tables():
    """Histories over two keys: the first key is set at time 0, then up to two further accesses (look the first key up, set
    it again, set the other key) each 1/4, 3/4, 1 1/2 or 6 1/4 lifetimes after the previous one -- within a period, across
    one tick, across an idle phase in which the timer has stopped, long after it; times carry a small distinct offset so
    that no access coincides with a tick.  -> [events]"""
    k1, k2 = (0, 1), (0, 2)
    gaps = (0.25, 0.75, 1.5, 6.25)
    acts = (("get", k1), ("set", k1), ("set", k2))
    out = [[(0.0, "set", k1)]]
    frontier = list(out)
    for depth in (1, 2):
        nxt = []
        for h in frontier:
            for g in gaps:
                for op, key in acts:
                    nxt.append(h + [(h[-1][0] + g + 0.001, op, key)])
        out.extend(nxt)
        frontier = nxt
    return out


def run_history(prog, cls, lifetime, events, probe_key, probe_at):
    """One history: a fresh `cls(lifetime)`; `events` = [(time in lifetimes, "set" | "get", key)] in time order, then a lookup
    of `probe_key` at `probe_at` lifetimes.  Only the public protocol is used (__init__, __setitem__, __getitem__) and the
    event loop's clock and timers.  -> HistoryRun; raises CUnsupported."""
    ce = ConcreteEval(prog)
    t0 = ce.loop.now
    obj = CObj(cls, {})
    init = prog.lookup_method(cls.qn, "__init__")
    seti = prog.lookup_method(cls.qn, "__setitem__")
    geti = prog.lookup_method(cls.qn, "__getitem__")
    if init is None or seti is None or geti is None:
        raise CUnsupported("no __init__ / __setitem__ / __getitem__")
    run = HistoryRun(events, probe_key, probe_at)
    try:
        ce.call_method(obj, init, [lifetime])
    except CRaise as r:
        raise CUnsupported("__init__(timeout) raises %s" % type(r.exc).__name__)
    n = 0
    used = {}
    for t, op, key in events:
        try:
            _history_fire(ce, t0 + t * lifetime)
        except CRaise as r:
            run.raised, run.raised_in = r.exc, "a timer callback"
            return run
        try:
            if op == "set":
                n += 1
                v = CVal("v%d" % n)
                ce.call_method(obj, seti, [key, v])
                used[key] = t
                if key == probe_key:
                    run.last_use, run.value = t, v
            else:
                ce.call_method(obj, geti, [key])
                used[key] = t
                if key == probe_key:
                    run.last_use = t
        except CRaise as r:
            if op == "get" and isinstance(r.exc, KeyError):
                if key in used and t < used[key] + 1 and run.early_loss is None:
                    run.early_loss = (key, t)
                continue  # an unsuccessful lookup is no use
            run.raised, run.raised_in = r.exc, "%s at %.3gT" % (op, t)
            return run
    try:
        _history_fire(ce, t0 + probe_at * lifetime)
    except CRaise as r:
        run.raised, run.raised_in = r.exc, "a timer callback"
        return run
    try:
        run.found = ce.call_method(obj, geti, [probe_key])
    except CRaise as r:
        if isinstance(r.exc, KeyError):
            run.missing = True
        else:
            run.raised, run.raised_in = r.exc, "the lookup"
    return run
