"""C20 Resource directory: lookups reflect exactly the live registrations.

Structural clauses decided on the syntax tree of aiocoap/cli/rd.py (plus the
class hierarchy and response codes of aiocoap/error.py, numbers/codes.py).

C20.a is an effect-ordering rule.  For every request handler of rd.py it
inlines the callees that live in rd.py (memoised summaries per
(function, receiver state, parameter states); the brief's depth-3 inlining is
subsumed, recursion is cut at depth 8) and classifies every CFG statement as

* STATE-CHANGING: a store / delete / mutating call on `_by_key`, `_by_path`
  or `proxy_active` (any receiver); an attribute store or mutation of `lt`,
  `base`, `base_is_explicit`, `links`, `registration_parameters` on a
  Registration; a call of `Registration.delete`, `_set_timeout` or
  `refresh_timeout`; a call whose inlined callee is state-changing.
  Constructor-bound callbacks (`self._delete_cb()`, `self._setproxyremote_cb()`,
  `self._update_cb()`) are resolved through one level of argument binding at
  the `Registration(...)` call sites; the bound callable may be a closure, a
  method / function, a functools.partial of one or a forwarding lambda
  (`_kit_c20.callable_target`).
* MAY-RAISE-4xx: an explicit `raise` of, or a call whose escape set contains,
  a subclass of `error.RenderableError` whose `code` is a 4.xx code, unless an
  enclosing handler of the same function catches it.

A violation is reported at a MAY-RAISE-4xx statement that is reachable in the
CFG from a STATE-CHANGING one (or follows it inside one statement, in
evaluation order).

Modelling decision (receiver states).  Attribute stores on a Registration are
RD state only if the receiver is *published*, i.e. reachable by a client
through `_by_key`/`_by_path`:

* `self.reg` inside RegistrationResource is published (premise re-checked on
  every run: every `RegistrationResource(x)` construction passes a value read
  from `_by_path`/`_by_key`);
* a value read from `_by_key`/`_by_path`, an element of `get_endpoints()`, the
  result of a rd.py function that returns a published object
  (`initialize_endpoint`), and every value of unknown origin are published;
* the result of `Registration(...)` is *fresh* (under construction) until a
  store of it into `_by_key`/`_by_path` can reach the statement; inside
  `Registration.__init__` / `update_params` the state of `self` is the state of
  the receiver at the call site.  Attribute stores on a fresh object only
  mutate an object no client can see and are therefore NOT state changes; a
  4.xx that follows them discards the object.  Arming the lifetime timer
  (`_set_timeout`), `delete`, `refresh_timeout` and the proxy table callback
  are state changes whatever the receiver state, because they act on the
  event loop / the shared tables.
"""

import ast

from ..rulekit import *
from ..norm import Normalizer, Poly
from ..exc import EscapeAnalysis
from . import _kit_c20 as K
from ..paths import PathModel

R = Rules(
    "C20",
    explanation=(
        "Structural clauses of the resource directory decided on the syntax tree of cli/rd.py: (a) in every "
        "request handler, with rd.py callees inlined, no statement that may raise a 4.xx RenderableError is "
        "reachable after a statement that changes RD state (stores on _by_key/_by_path/proxy_active, attribute "
        "stores on a published Registration, Registration.delete/_set_timeout/refresh_timeout); attribute "
        "stores on a Registration under construction that is not yet inserted into the tables are not state "
        "changes; (b) _by_key and _by_path are written only inside CommonRD, every insertion into one is "
        "paired with an insertion of the same object into the other, every removal likewise, and the delete "
        "callback removes exactly the key and path that were inserted; (c) _new_pathtail returns only a path "
        "that is not in _by_path, a re-registration reuses the old registration's path tail, the registration "
        "path is entity_prefix + tail, the key is the pair (ep, d), allocation and insertion happen in one "
        "plain synchronous function; (d) the lifetime timer waits lt + grace_period and then calls delete, "
        "refresh cancels before re-arming, every normal path of update_params arms or refreshes exactly once, "
        "delete cancels the timer and runs the delete callback; (e) both lookup interfaces enumerate "
        "common_rd.get_endpoints() = _by_key.values() and nothing else, host links and based links are computed "
        "from the registration's current attributes; (f) update_params refuses ep, d and the reserved lookup "
        "parameters before any store; (g) a replaced registration is deleted before the new one takes over; (h) the "
        "link computations mutate only containers they created; (i) the serialiser writes a value-less attribute "
        "only for the value None; (j) the block-wise layer renders a lookup afresh for every request that begins a "
        "retrieval and cuts all later blocks from that one rendering (obligations of C06.f on "
        "Block2Cache.extract_or_insert, run here); (k) util.linkformat.parse and cli.rd.link_format_from_message hand "
        "on every parsed link with its target and every attribute pair, repeated names included, and the Link / "
        "LinkFormat constructors keep what they are given (abstract interpretation of the link-format data flow).  "
        "Not decided: the passage of time, pagination arithmetic, the vendored parser's own scanning."
    ),
    rule_text="effect-ordering on per-function CFGs with inlined callee summaries and escape sets, field ownership and pairing, dominance, polynomial normal forms, class-hierarchy facts, partial evaluation of branch conditions under a key-presence assumption, freshness of mutated objects, abstract interpretation of link-format structures (sequence completeness, keyed-collection loss, witness-based filter evaluation), path-by-path symbolic execution of the Block2 cache (shared with C06)",
)

RDMOD = "aiocoap.cli.rd"
CRD = "aiocoap.cli.rd.CommonRD"
REGQN = "aiocoap.cli.rd.CommonRD.Registration"
TABLES = ("_by_key", "_by_path", "proxy_active")
INDEXES = ("_by_key", "_by_path")
REG_ATTRS = {"lt", "base", "base_is_explicit", "links", "registration_parameters"}
TIMER_METHODS = {"delete", "_set_timeout", "refresh_timeout"}
MUT = {"pop", "append", "remove", "add", "update", "setdefault", "insert", "clear", "popitem", "extend", "discard", "sort", "reverse"}
MAXDEPTH = 8


# ---------------------------------------------------------------------------
# response codes of exception classes


class Codes:
    def __init__(self, prog):
        self.prog = prog
        self._alias = None

    def aliases(self):
        """Deprecated names of aiocoap.error (module __getattr__ table)."""
        if self._alias is None:
            self._alias = {}
            m = self.prog.modules.get("aiocoap.error")
            if m is not None:
                for st in m.tree.body:
                    if isinstance(st, ast.Assign) and any(isinstance(t, ast.Name) and t.id == "__getattr__" for t in st.targets):
                        for n in ast.walk(st.value):
                            if isinstance(n, ast.Dict):
                                for k, v in zip(n.keys, n.values):
                                    if isinstance(k, ast.Constant) and isinstance(v, ast.Constant) and isinstance(k.value, str) and isinstance(v.value, str):
                                        self._alias["aiocoap.error." + k.value] = "aiocoap.error." + v.value
        return self._alias

    def canon(self, qn):
        qn = qn.lstrip("?")
        if qn not in self.prog.classes:
            qn = self.aliases().get(qn, qn)
        return qn

    def code_value(self, qn):
        qn = self.canon(qn)
        if qn not in self.prog.classes:
            return None
        v, _ = self.prog.class_attr(qn, "code")
        name = (chain(v) or "").split(".")[-1] if v is not None else None
        if not name:
            return None
        cc = self.prog.classes.get("aiocoap.numbers.codes.Code")
        if cc is None or name not in cc.attrs:
            return None
        try:
            val = norm.consteval(cc.attrs[name])
        except norm.NormError:
            return None
        return val if isinstance(val, int) else None

    def is_4xx(self, qn):
        qn = self.canon(qn)
        if qn not in self.prog.classes or not self.prog.is_subclass(qn, "aiocoap.error.RenderableError"):
            return False
        v = self.code_value(qn)
        return v is not None and 128 <= v < 160


# ---------------------------------------------------------------------------
# small helpers


def _owner_class(fi):
    f = fi
    while f is not None and f.cls is None:
        f = f.parent
    return f.cls.qn if f is not None else None


def _in_rd(fi):
    return fi.module.name == RDMOD


def _node_roots(nd):
    a = nd.ast
    if nd.kind in ("stmt", "return", "raise"):
        if isinstance(a, (ast.FunctionDef, ast.AsyncFunctionDef, ast.ClassDef)):
            return []
        if isinstance(a, ast.Match):
            return [a.subject]
        return [a]
    if nd.kind == "test":
        return [a]
    if nd.kind == "for":
        return [a.iter]
    if nd.kind == "with":
        return [it.context_expr for it in a.items]
    return []


def _node_construct(nd):
    a = nd.ast
    if nd.kind == "for":
        return a.iter
    if nd.kind == "with":
        return a.items[0].context_expr
    return a


def _endpos(n):
    return (getattr(n, "end_lineno", 0) or 0, getattr(n, "end_col_offset", 0) or 0)


def _strip_subscripts(e):
    while isinstance(e, ast.Subscript):
        e = e.value
    return e


def _dict_of(e):
    """x when e is the attribute dictionary of x: `x.__dict__` / `vars(x)`; else None."""
    if isinstance(e, ast.Attribute) and e.attr == "__dict__":
        return e.value
    if isinstance(e, ast.Call) and isinstance(e.func, ast.Name) and e.func.id == "vars" and len(e.args) == 1 and not e.keywords:
        return e.args[0]
    return None


def _table_of(e):
    """'_by_key' etc. when e is `<recv>.<table>` (any receiver)."""
    if isinstance(e, ast.Attribute) and e.attr in TABLES:
        return e.attr
    return None


def _def_nodes(cfg, w):
    return cfg.locate(w)


def reaching_defs(fi, name, nid):
    """Definitions of local `name` that can reach CFG node nid."""
    cfg = cfg_of(fi)
    W = []
    for w in writes_to_name(fi.node, name):
        for wn in _def_nodes(cfg, w):
            W.append((wn, w))
    allw = {wn for wn, _ in W}
    out = []
    for wn, w in W:
        if wn == nid and len(allw) > 1:
            # the statement itself: only reaches nid around a loop
            if nid in cfg.reach({wn}, avoid=allw - {wn}):
                out.append(w)
            continue
        if nid in cfg.reach({wn}, avoid=allw - {wn, nid}):
            out.append(w)
    # a For statement registers head/T/F nodes: deduplicate
    seen, res = set(), []
    for w in out:
        if id(w) not in seen:
            seen.add(id(w))
            res.append(w)
    return res


def _const_truth(e, none_names=()):
    """True / False when the truth value of the test e is fixed: constants, names known to hold None
    (`none_names`), `is` / `==` comparisons between those, `not`, and / or; else None."""
    UNK = _const_truth
    if not isinstance(none_names, dict):
        # a set of names known to hold None, or a mapping name -> known constant value
        none_names = {n: None for n in none_names}

    def val(x):
        if isinstance(x, ast.Constant):
            return x.value
        if isinstance(x, ast.Name) and x.id in none_names:
            return none_names[x.id]
        return UNK

    if isinstance(e, ast.UnaryOp) and isinstance(e.op, ast.Not):
        t = _const_truth(e.operand, none_names)
        return None if t is None else not t
    if isinstance(e, ast.BoolOp):
        ts = [_const_truth(x, none_names) for x in e.values]
        if isinstance(e.op, ast.And):
            return False if any(t is False for t in ts) else (True if all(t is True for t in ts) else None)
        return True if any(t is True for t in ts) else (False if all(t is False for t in ts) else None)
    if isinstance(e, ast.Compare) and len(e.ops) == 1 and isinstance(e.ops[0], (ast.Is, ast.IsNot, ast.Eq, ast.NotEq)):
        l, r = val(e.left), val(e.comparators[0])
        pos = isinstance(e.ops[0], (ast.Is, ast.Eq))
        if l is not UNK and r is not UNK and (l is None or r is None or isinstance(e.ops[0], (ast.Eq, ast.NotEq))):
            res = (l is None and r is None) if (l is None or r is None) else l == r
            return res if pos else not res
        # a value that is certainly an object (call of a constructor-like literal) is not decided here
        return None
    if isinstance(e, ast.Compare) and len(e.ops) == 1 and isinstance(e.ops[0], (ast.In, ast.NotIn)) and \
            isinstance(e.comparators[0], (ast.Tuple, ast.List, ast.Set)):
        l, rs = val(e.left), [val(x) for x in e.comparators[0].elts]
        if l is not UNK and all(r is not UNK for r in rs) and not any(isinstance(x, ast.Starred) for x in e.comparators[0].elts):
            try:
                res = l in rs
            except TypeError:
                return None
            return res if isinstance(e.ops[0], ast.In) else not res
        return None
    v = val(e)
    if v is UNK:
        return None
    return bool(v)


def _dead_outcomes(cfg, none_names=()):
    """Branch pseudo-nodes that can never be taken because their test has a fixed truth value (a helper
    expanded or summarised with a constant argument: `if None is not None:`)."""
    dead = set()
    for nd in cfg.nodes:
        if nd.kind in ("T", "F") and nd.ast is not None and isinstance(nd.ast, ast.expr):
            t = _const_truth(nd.ast, none_names)
            if t is not None and t != (nd.kind == "T"):
                dead.add(nd.id)
    return dead


class Env:
    def __init__(self, selfstate=None, pstates=()):
        self.selfstate = selfstate
        self.pstates = dict(pstates)

    def key(self):
        return (self.selfstate, tuple(sorted(self.pstates.items())))


class Summary:
    def __init__(self):
        self.changes = []  # descriptions
        self.raises = []  # descriptions
        self.ret = "unk"
        self.viol = {}  # (func short, construct) -> (fi, astnode, detail)
        self.exempt = []  # stores on a fresh registration (informational)


def _join(states):
    states = [s for s in states]
    if not states:
        return "unk"
    if all(s == "fresh" for s in states):
        return "fresh"
    if all(s == "other" for s in states):
        return "other"
    if any(s == "pub" for s in states):
        return "pub"
    return "unk"


# ---------------------------------------------------------------------------
# the effect analysis


class Effects:
    def __init__(self, ctx, with_ext=True):
        self.ctx = ctx
        self.with_ext = with_ext  # consult the escape analysis for callees outside rd.py
        self.prog = ctx.prog
        self.codes = Codes(ctx.prog)
        self.EA = EscapeAnalysis(ctx.prog)
        self.memo = {}
        self.busy = set()
        self._cb = None
        self.truncated = []
        self.unresolved = set()
        self._acc = {}
        self.accessors_run = set()
        self.reg_attrs = set(REG_ATTRS)
        self._init_accessors()

    # ---- attribute accesses that run code ----------------------------------
    # `r.base = v` is a call when the class of r makes `base` a property with a setter (decorator or
    # property(...) form), a descriptor object with __set__, or overrides __setattr__; `r.base` is a call
    # of the getter / __get__.  Such an access is treated exactly like the call it is: the accessor is
    # summarised in the receiver's state, its 4.xx raises and its state changes are events of the statement
    # (a store's after the right-hand side has been evaluated).  The attributes a getter of a registration
    # attribute reads on self and those its setter stores are its *backing fields*: a store to one of them is
    # a store to the registration attribute (REG_ATTRS is closed under this), so that the order of the store
    # and the raise inside a validating setter is decided inside the setter.
    _PROP_DECOS = ("property", "cached_property", "functools.cached_property")

    def _class_accessors(self, ci):
        """{attr: {'get': FuncInfo|None, 'set': FuncInfo|None}} for one class body (not inherited)."""
        if ci.qn in self._acc:
            return self._acc[ci.qn]
        out = {}
        for fn in self.prog.funcs.values():
            if fn.cls is not ci or fn.parent is not None or isinstance(fn.node, ast.Lambda):
                continue
            for d in fn.node.decorator_list:
                dt = chain(d.func if isinstance(d, ast.Call) else d) or ""
                if dt in self._PROP_DECOS:
                    out.setdefault(fn.name, {}).setdefault("get", fn)
                elif dt.endswith(".setter"):
                    out.setdefault(fn.name, {})["set"] = fn
                elif dt.endswith(".getter"):
                    out.setdefault(fn.name, {})["get"] = fn
        for attr, v in ci.attrs.items():
            if not isinstance(v, ast.Call) or not chain(v.func):
                continue
            if chain(v.func) == "property":
                slots = {}
                for i, a in enumerate(v.args[:2]):
                    slots[("get", "set")[i]] = a
                for kw in v.keywords:
                    if kw.arg in ("fget", "fset"):
                        slots[kw.arg[1:]] = kw.value
                for k, a in slots.items():
                    if isinstance(a, ast.Constant) and a.value is None:
                        continue
                    if isinstance(a, ast.Name) and a.id in ci.methods:
                        out.setdefault(attr, {})[k] = ci.methods[a.id]
                    elif isinstance(a, ast.Lambda) and not any(isinstance(x, (ast.Call, ast.Await, ast.Yield, ast.YieldFrom, ast.NamedExpr)) for x in ast.walk(a.body)):
                        continue  # a call-free lambda neither raises a RenderableError nor stores
                    else:
                        raise AnalysisError("cannot interpret the %ster of property %s.%s: %s" % (k, ci.qn, attr, stmt_text(a, 60)))
                continue
            # a descriptor object of the package: __get__(self, obj, objtype) / __set__(self, obj, value)
            dc = self.codes.canon(self.prog.resolve_in_module(ci.module, chain(v.func)))
            if dc not in self.prog.classes and (ci.qn.rsplit(".", 1)[0] + "." + chain(v.func)) in self.prog.classes:
                dc = ci.qn.rsplit(".", 1)[0] + "." + chain(v.func)
            if dc is not None and dc in self.prog.classes:
                g, st_ = self.prog.lookup_method(dc, "__get__"), self.prog.lookup_method(dc, "__set__")
                if g is not None:
                    out.setdefault(attr, {})["dget"] = g
                if st_ is not None:
                    out.setdefault(attr, {})["dset"] = st_
        self._acc[ci.qn] = out
        return out

    def _accessor_of(self, clsqn, attr, kind):
        """(FuncInfo, flavour) run by reading (kind 'get') / storing (kind 'set') <instance of clsqn>.attr,
        else None; flavour: 'prop' (self[, value]), 'desc' (descriptor, obj[, value]), 'setattr' (self, name, value)."""
        for k in self.prog.mro(clsqn):
            ci = self.prog.classes.get(k)
            if ci is None:
                continue
            acc = self._class_accessors(ci).get(attr)
            if acc:
                if acc.get(kind) is not None:
                    return acc[kind], "prop"
                if acc.get("d" + kind) is not None:
                    return acc["d" + kind], "desc"
                break
            if attr in ci.methods or attr in ci.attrs:
                break
        if kind == "set":
            m = self.prog.lookup_method(clsqn, "__setattr__")
            if m is not None:
                return m, "setattr"
        return None

    def _init_accessors(self):
        self.accessor_names = set()
        self.setattr_classes = set()
        for ci in self.prog.classes.values():
            if ci.module.name != RDMOD:
                continue
            for k in self.prog.mro(ci.qn):
                c2 = self.prog.classes.get(k)
                if c2 is None:
                    continue
                self.accessor_names |= set(self._class_accessors(c2))
                if "__setattr__" in c2.methods:
                    self.setattr_classes.add(ci.qn)
        # backing fields of the registration attributes
        work = list(REG_ATTRS)
        while work:
            a = work.pop()
            for kind in ("get", "set"):
                r = self._accessor_of(REGQN, a, kind)
                if r is None or r[1] != "prop":
                    continue
                fn = r[0]
                ps = params(fn, skip_self=False)
                if not ps:
                    continue
                for n in walk_no_nested(fn.node):
                    if isinstance(n, ast.Attribute) and isinstance(n.value, ast.Name) and n.value.id == ps[0]:
                        if isinstance(n.ctx, ast.Load if kind == "get" else (ast.Store, ast.Del)) and n.attr not in self.reg_attrs:
                            if self.prog.lookup_method(REGQN, n.attr) is not None and self._accessor_of(REGQN, n.attr, "get") is None:
                                continue  # a method, not a field
                            self.reg_attrs.add(n.attr)
                            work.append(n.attr)

    def accessor_call(self, fi, env, recv, attr, nid, kind, value=None):
        """(callee, Env) when the access `recv.attr` (kind 'get' / 'set') runs code of the package, else None."""
        if attr not in self.accessor_names and not (kind == "set" and self.setattr_classes):
            return None
        own = _owner_class(fi)
        if chain(recv) == "self" and own is not None and own in self.prog.classes and params(fi, skip_self=False)[:1] == ["self"] and not writes_to_name(fi.node, "self"):
            cls = own
            st = (env.selfstate or "unk") if self.prog.is_subclass(cls, REGQN) or cls == REGQN else None
        else:
            st = self.state(fi, env, recv, nid)
            if st == "other":
                return None
            cls = REGQN
        r = self._accessor_of(cls, attr, kind)
        if r is None:
            return None
        fn, flavour = r
        ps = params(fn)
        pst = {}
        if flavour == "desc":
            if ps and st in ("pub", "fresh"):
                pst[ps[0]] = st
            cenv = Env(None, pst)
        else:
            if flavour == "setattr":
                # a store on a receiver of unknown origin is looked at only for the registration attributes
                # (as plain stores are); the hook is summarised for the attribute name of this store
                if st == "unk" and chain(recv) != "self" and attr not in self.reg_attrs:
                    return None
                if ps:
                    pst[ps[0]] = ("const", attr)
            vi = {"prop": 0, "setattr": 1}[flavour]
            if kind == "set" and value is not None and len(ps) > vi:
                vs = self.state(fi, env, value, nid)
                if vs in ("pub", "fresh"):
                    pst[ps[vi]] = vs
            cenv = Env(st, pst)
        self.accessors_run.add("%s.%s (%s) -> %s" % (cls.split(".")[-1], attr, kind, fn.short))
        return fn, cenv

    def _accessor_events(self, fi, env, nd, depth, S, site, recv, attr, kind, pos, value=None):
        """[(pos, changes, raises)] of the accessor run by `recv.attr` at `site`; None when it runs no code."""
        r = self.accessor_call(fi, env, recv, attr, nd.id, kind, value)
        if r is None:
            return None
        callee, cenv = r
        s = self.summary(callee, cenv, depth + 1)
        cch = ["%s via %s of .%s" % (c, callee.name if callee.name.startswith("__") else "the setter" if kind == "set" else "the getter", attr) if " via " not in c else c for c in s.changes[:3]]
        crz = [(cls, why) for cls, why in s.raises if not self.caught_locally(fi, site, cls)]
        for k, v in s.viol.items():
            S.viol.setdefault(k, v)
        S.exempt += [x for x in s.exempt if x not in S.exempt]
        return [(pos, cch, crz)], bool(s.changes)

    # ---- constructor-bound callbacks -----------------------------------
    def callbacks(self):
        """attr name -> [FuncInfo] for Registration attributes bound to constructor
        parameters, resolved at the Registration(...) call sites of rd.py."""
        if self._cb is not None:
            return self._cb
        self._cb = {}
        ci = self.prog.classes.get(REGQN)
        init = ci.methods.get("__init__") if ci else None
        if init is None:
            return self._cb
        pn = params(init)
        attr2param = {}
        for n in walk_no_nested(init.node):
            if isinstance(n, ast.Assign) and len(n.targets) == 1 and isinstance(n.targets[0], ast.Attribute) and chain(n.targets[0].value) == "self":
                if isinstance(n.value, ast.Name) and n.value.id in pn and not writes_to_name(init.node, n.value.id):
                    attr2param[n.targets[0].attr] = n.value.id
        for fi in list(self.prog.funcs.values()):
            if not _in_rd(fi):
                continue
            for call in calls_in(fi.node):
                if not self.is_reg_ctor(fi, call):
                    continue
                bound = self.bind_args(call, pn)
                for attr, p in attr2param.items():
                    arg = bound.get(p)
                    tgt = self.func_value(fi, arg) if arg is not None else None
                    if tgt is not None:
                        self._cb.setdefault(attr, [])
                        if tgt not in self._cb[attr]:
                            self._cb[attr].append(tgt)
        return self._cb

    def func_value(self, fi, e):
        """FuncInfo a function-valued expression denotes (K.callable_target: nested def, module function,
        self.method, functools.partial, call-forwarding lambda, a local holding one of those)."""
        r = K.callable_target(self.prog, fi, e)
        if r is None or isinstance(r[0].node, ast.Lambda):
            return None
        return r[0]

    def callback_bindings(self):
        """attr name -> [(target FuncInfo, {target parameter: expression at the site}, site FuncInfo)] for the
        Registration attributes bound to constructor parameters, per Registration(...) call site."""
        out = {}
        ci = self.prog.classes.get(REGQN)
        init = ci.methods.get("__init__") if ci else None
        if init is None:
            return out
        pn = params(init)
        attr2param = {}
        for n in walk_no_nested(init.node):
            if isinstance(n, ast.Assign) and len(n.targets) == 1 and isinstance(n.targets[0], ast.Attribute) and chain(n.targets[0].value) == "self":
                if isinstance(n.value, ast.Name) and n.value.id in pn and not writes_to_name(init.node, n.value.id):
                    attr2param[n.targets[0].attr] = n.value.id
        for fi in list(self.prog.funcs.values()):
            if not _in_rd(fi):
                continue
            for call in calls_in(fi.node):
                if not self.is_reg_ctor(fi, call):
                    continue
                bound = self.bind_args(call, pn)
                for attr, p in attr2param.items():
                    arg = bound.get(p)
                    r = K.callable_target(self.prog, fi, arg) if arg is not None else None
                    if r is not None:
                        out.setdefault(attr, []).append((r[0], r[1], fi))
        return out

    @staticmethod
    def bind_args(call, pnames):
        bound = {}
        if any(isinstance(a, ast.Starred) for a in call.args):
            return bound
        for p, a in zip(pnames, call.args):
            bound[p] = a
        for k in call.keywords:
            if k.arg is not None:
                bound[k.arg] = k.value
        return bound

    def is_reg_ctor(self, fi, call):
        c = self.EA.res.class_of_name(fi, chain(call.func)) if chain(call.func) else None
        return c == REGQN

    # ---- receiver states -------------------------------------------------
    def state(self, fi, env, e, nid, depth=0):
        """'pub' | 'fresh' | 'unk' | 'other' (known not to be a Registration)."""
        if depth > 6:
            return "unk"
        if isinstance(e, ast.Name):
            if e.id == "self":
                if _owner_class(fi) == REGQN:
                    return env.selfstate or "unk"
                return "other"
            a = fi.node.args
            pnames = [x.arg for x in a.posonlyargs + a.args + a.kwonlyargs]
            writes = writes_to_name(fi.node, e.id)
            if not writes:
                if e.id in pnames:
                    st = env.pstates.get(e.id, "unk")
                    return "other" if st == "none" or isinstance(st, tuple) else st
                return "unk"
            defs = reaching_defs(fi, e.id, nid)
            if not defs:
                return "unk"
            cfg = cfg_of(fi)
            sts = []
            for w in defs:
                wn = (cfg.locate(w) or [nid])[0]
                if isinstance(w, ast.Assign) and len(w.targets) == 1 and isinstance(w.targets[0], ast.Name):
                    sts.append(self.state(fi, env, w.value, wn, depth + 1))
                elif isinstance(w, (ast.For, ast.AsyncFor)) and isinstance(w.target, ast.Name):
                    sts.append("pub" if self._enumerates_regs(w.iter) else "unk")
                else:
                    sts.append("unk")
            if e.id in pnames and any(nid in cfg.reach({cfg.entry}, avoid={x for w in writes for x in cfg.locate(w)}, include_src=True) for _ in (0,)):
                sts.append("other" if env.pstates.get(e.id) == "none" or isinstance(env.pstates.get(e.id), tuple) else env.pstates.get(e.id, "unk"))
            st = _join(sts)
            if st == "fresh" and any(nid in cfg.reach({p}) for p in self.publish_nodes(fi, e.id)):
                return "pub"
            return st
        if isinstance(e, ast.Attribute):
            if chain(e) == "self.reg" and _owner_class(fi) == RDMOD + ".RegistrationResource":
                return "pub"
            return "unk"
        if isinstance(e, ast.Subscript):
            if _table_of(e.value) in INDEXES:
                return "pub"
            return "unk"
        if isinstance(e, ast.Call):
            if self.is_reg_ctor(fi, e):
                return "fresh"
            # an instance of another class of the package (LinkFormat(...), Link(...)) is no Registration,
            # whatever its attributes are called
            c = self.EA.res.class_of_name(fi, chain(e.func)) if chain(e.func) else None
            if c is not None and c in self.prog.classes and not self.prog.is_subclass(c, REGQN):
                return "other"
            if isinstance(e.func, ast.Attribute) and e.func.attr in ("get", "pop", "setdefault") and _table_of(e.func.value) in INDEXES:
                return "pub"
            for callee, sc, cenv in self.rd_callees(fi, env, e, nid):
                return self.summary(callee, cenv, depth + 1).ret
            return "unk"
        if isinstance(e, ast.Await):
            return self.state(fi, env, e.value, nid, depth + 1)
        if isinstance(e, (ast.Constant, ast.List, ast.Tuple, ast.Dict, ast.Set, ast.ListComp, ast.DictComp, ast.SetComp, ast.GeneratorExp, ast.JoinedStr)):
            return "other"
        return "unk"

    @staticmethod
    def _enumerates_regs(it):
        for n in ast.walk(it):
            if isinstance(n, ast.Call) and isinstance(n.func, ast.Attribute):
                if n.func.attr == "get_endpoints":
                    return True
                if n.func.attr == "values" and _table_of(n.func.value) in INDEXES:
                    return True
        return False

    def publish_nodes(self, fi, name):
        """CFG nodes that store local `name` into _by_key/_by_path."""
        cfg = cfg_of(fi)
        out = set()
        for nd in cfg.nodes:
            for root in _node_roots(nd):
                for f in INDEXES:
                    for kind, st in stores_to_any(root, f):
                        val = None
                        if isinstance(st, ast.Assign):
                            val = st.value
                        elif isinstance(st, ast.Call):
                            val = st
                        if val is not None and name in names_in(val):
                            out.add(nd.id)
        return out

    # ---- callee resolution ------------------------------------------------
    def rd_callees(self, fi, env, call, nid):
        """[(callee FuncInfo, receiver class, Env)] for callees inside rd.py (plus
        resolved constructor-bound callbacks)."""
        out = []
        f = call.func
        callees = []
        if isinstance(f, ast.Attribute) and isinstance(f.value, ast.Name) and f.value.id == "object" and not writes_to_name(fi.node, "object"):
            # object.__setattr__(r, name, v) etc.: the built-in's method, never code of the package (the
            # resolver's unique-method-name fallback would answer with the class's own override)
            return out
        # constructor-bound callback attributes of a Registration
        if isinstance(f, ast.Attribute) and chain(f.value) == "self" and _owner_class(fi) == REGQN and f.attr in self.callbacks():
            callees = [(c, None) for c in self.callbacks()[f.attr]]
        else:
            # methods on a receiver this analysis knows to be a Registration
            if isinstance(f, ast.Attribute) and not (chain(f.value) == "self"):
                st = self.state(fi, env, f.value, nid)
                if st in ("pub", "fresh"):
                    m = self.prog.lookup_method(REGQN, f.attr)
                    if m is not None:
                        callees = [(m, REGQN)]
            if not callees:
                cs, kind = self.EA.res.resolve_callees(fi, call)
                callees = list(cs)
                if kind == "unresolved":
                    self.unresolved.add((fi.short, stmt_text(call, 60)))
        for callee, sc in callees:
            if not _in_rd(callee):
                continue
            selfstate = None
            if _owner_class(callee) == REGQN and callee.cls is not None:
                if callee.name in ("__init__", "__new__") and self.is_reg_ctor(fi, call):
                    selfstate = "fresh"
                elif isinstance(f, ast.Attribute):
                    selfstate = self.state(fi, env, f.value, nid)
                    if selfstate == "other":
                        selfstate = "unk"
            pst = {}
            cps = params(callee)
            bound = self.bind_args(call, cps)
            for p, a in bound.items():
                s = self.state(fi, env, a, nid)
                if s in ("pub", "fresh"):
                    pst[p] = s
                elif isinstance(a, ast.Constant) and a.value is None:
                    pst[p] = "none"
                elif isinstance(a, ast.Name) and env.pstates.get(a.id) == "none" and not writes_to_name(fi.node, a.id):
                    pst[p] = "none"
            if not any(isinstance(a, ast.Starred) for a in call.args) and not any(k.arg is None for k in call.keywords):
                for p in cps:
                    if p not in bound:
                        d = _param_default(callee, p)
                        if isinstance(d, ast.Constant) and d.value is None:
                            pst[p] = "none"
            out.append((callee, sc, Env(selfstate, pst)))
        return out

    def ext_raises(self, fi, call):
        """4.xx classes escaping from a callee outside rd.py (whole closure, via the escape analysis)."""
        out = []
        if not self.with_ext:
            return out
        cs, kind = self.EA.res.resolve_callees(fi, call)
        for callee, sc in cs:
            if _in_rd(callee):
                continue
            sh = self.EA.shape_for(fi, call, callee)
            try:
                escs = self.EA.escapes(callee, sh, sc)
            except RecursionError:
                # engine limitation (unbounded recursion in type inference for some proxy code); fail closed
                raise AnalysisError("escape analysis does not terminate for %s called from %s" % (callee.short, fi.short))
            for e in escs:
                if self.codes.is_4xx(e.cls):
                    out.append((self.codes.canon(e.cls), "%s raised in %s" % (self.codes.canon(e.cls).split(".")[-1], e.func)))
        return out

    # ---- handlers ---------------------------------------------------------
    def _handler_catches(self, fi, h, cls):
        if h.type is None:
            return True
        for t in (h.type.elts if isinstance(h.type, ast.Tuple) else [h.type]):
            txt = chain(t)
            if not txt:
                continue
            q = self.codes.canon(self.prog.resolve_in_module(fi.module, txt))
            if q.split(".")[-1] in ("Exception", "BaseException") and q not in self.prog.classes:
                return True
            if cls == q or self.prog.is_subclass(cls, q):
                return True
        return False

    def caught_locally(self, fi, astnode, cls):
        """Is an exception of class cls raised at astnode caught by an enclosing try of fi?"""
        cfg = cfg_of(fi)
        child, p = astnode, cfg.parent.get(id(astnode))
        while p is not None and p is not fi.node:
            if isinstance(p, ast.Try) and any(child is b for b in p.body):
                if any(self._handler_catches(fi, h, cls) for h in p.handlers):
                    return True
            child, p = p, cfg.parent.get(id(p))
        return False

    def enclosing_handler(self, fi, astnode):
        cfg = cfg_of(fi)
        child, p = astnode, cfg.parent.get(id(astnode))
        while p is not None and p is not fi.node:
            if isinstance(p, ast.ExceptHandler):
                t = cfg.parent.get(id(p))
                return p, t
            child, p = p, cfg.parent.get(id(p))
        return None, None

    # ---- per-function summary ----------------------------------------------
    def summary(self, fi, env, depth=0):
        key = (fi.qn, env.key())
        if key in self.memo:
            return self.memo[key]
        S = Summary()
        if key in self.busy or depth > MAXDEPTH:
            if depth > MAXDEPTH:
                self.truncated.append(fi.short)
            return S
        self.busy.add(key)
        try:
            self._analyse(fi, env, depth, S)
        finally:
            self.busy.discard(key)
        self.memo[key] = S
        return S

    def _events(self, fi, env, nd, depth, S):
        """Ordered effect events of one CFG node: [(pos, changes, raises)]."""
        events = []
        roots = _node_roots(nd)
        is_reg_method = _owner_class(fi) == REGQN
        for root in roots:
            # direct stores happen after the right-hand side has been evaluated
            store_pos = (10 ** 9, 0)
            ch = []
            for f in TABLES:
                for kind, st in stores_to_any(root, f):
                    if isinstance(st, ast.Call) or kind.startswith("ref:"):
                        events.append((_endpos(st), ["%s on %s" % (kind, f)], []))
                    else:
                        ch.append("%s on %s" % (kind, f))
            for n in walk_no_nested(root):
                tgts = []
                if isinstance(n, ast.Assign):
                    tgts = n.targets
                elif isinstance(n, (ast.AugAssign, ast.AnnAssign)):
                    tgts = [n.target] if not (isinstance(n, ast.AnnAssign) and n.value is None) else []
                elif isinstance(n, ast.Delete):
                    tgts = n.targets
                for t in tgts:
                    for tt in (t.elts if isinstance(t, (ast.Tuple, ast.List)) else [t]):
                        base = _strip_subscripts(tt)
                        if isinstance(tt, ast.Subscript) and _dict_of(tt.value) is not None:
                            # r.__dict__["links"] = v / vars(r)["links"] = v
                            kk = resolve_local(fi.node, tt.slice)
                            if not (isinstance(kk, ast.Constant) and kk.value not in self.reg_attrs):
                                st = self.state(fi, env, _dict_of(tt.value), nd.id)
                                if st == "fresh":
                                    S.exempt.append("%s: %s (receiver under construction)" % (fi.short, stmt_text(n, 60)))
                                elif st != "other":
                                    ch.append("store into the attribute dictionary of a %s registration" % ("published" if st == "pub" else "possibly published"))
                            continue
                        stored_by_accessor = False
                        if isinstance(tt, ast.Attribute) and not isinstance(n, ast.Delete):
                            ae = self._accessor_events(fi, env, nd, depth, S, n, tt.value, tt.attr, "set", store_pos,
                                                       n.value if isinstance(n, ast.Assign) and tt is t else None)
                            if ae is not None:
                                events.extend(ae[0])
                                # the accessor's own stores are the change (decided in its summary); an accessor in
                                # which no store is recognised is taken to store the attribute somehow
                                stored_by_accessor = ae[1]
                        if stored_by_accessor:
                            continue
                        if isinstance(base, ast.Attribute) and base.attr in self.reg_attrs:
                            st = self.state(fi, env, base.value, nd.id)
                            if st == "other":
                                continue
                            if st == "fresh":
                                S.exempt.append("%s: %s (receiver under construction)" % (fi.short, stmt_text(n, 60)))
                                continue
                            ch.append("store to .%s of a %s registration" % (base.attr, "published" if st == "pub" else "possibly published"))
                if isinstance(n, ast.Call) and isinstance(n.func, ast.Attribute) and n.func.attr in MUT:
                    base = _strip_subscripts(n.func.value)
                    if isinstance(base, ast.Attribute) and base.attr in self.reg_attrs:
                        st = self.state(fi, env, base.value, nd.id)
                        if st == "fresh":
                            S.exempt.append("%s: %s (receiver under construction)" % (fi.short, stmt_text(n, 60)))
                        elif st != "other":
                            events.append((_endpos(n), ["%s() on .%s of a %s registration" % (n.func.attr, base.attr, "published" if st == "pub" else "possibly published")], []))
                if isinstance(n, ast.Attribute) and isinstance(n.ctx, ast.Load) and n.attr in self.accessor_names:
                    ae = self._accessor_events(fi, env, nd, depth, S, n, n.value, n.attr, "get", _endpos(n))
                    if ae is not None:
                        events.extend(ae[0])
                # reflective spellings of an attribute store: setattr(r, "links", v), r.__setattr__("links", v),
                # delattr, r.__dict__["links"] = v / vars(r)[...] = v / r.__dict__.update(...) (a name that is
                # not a constant is taken to be any attribute)
                robj = rname = None
                if isinstance(n, ast.Call) and isinstance(n.func, ast.Name) and n.func.id in ("setattr", "delattr") and len(n.args) >= 2:
                    robj, rname = n.args[0], n.args[1]
                elif isinstance(n, ast.Call) and isinstance(n.func, ast.Attribute) and n.func.attr in ("__setattr__", "__delattr__") and n.args:
                    robj, rname = n.func.value, n.args[0]
                    if isinstance(robj, ast.Call) and chain(robj.func) == "super" and not robj.args:
                        # super().__setattr__(name, v): the receiver is the method's own first parameter
                        fp = params(fi, skip_self=False)
                        robj = ast.copy_location(ast.Name(id=fp[0], ctx=ast.Load()), robj) if fp else robj
                    elif len(n.args) >= 2 and chain(robj) and (chain(robj) == "object" or self.EA.res.class_of_name(fi, chain(robj)) in self.prog.classes):
                        # object.__setattr__(r, name, v) / Class.__setattr__(r, name, v)
                        robj, rname = n.args[0], n.args[1]
                elif isinstance(n, ast.Call) and isinstance(n.func, ast.Attribute) and n.func.attr in MUT and _dict_of(n.func.value) is not None:
                    robj, rname = _dict_of(n.func.value), None
                if robj is not None:
                    nm = resolve_local(fi.node, rname) if rname is not None else None
                    if isinstance(nm, ast.Name) and isinstance(env.pstates.get(nm.id), tuple) and not writes_to_name(fi.node, nm.id):
                        nm = ast.Constant(value=env.pstates[nm.id][1])
                    ae = None
                    if isinstance(n.func, ast.Name) and n.func.id == "setattr" and len(n.args) == 3 and isinstance(nm, ast.Constant) and isinstance(nm.value, str):
                        # setattr(r, "base", v) runs the same setter / hook as r.base = v
                        ae = self._accessor_events(fi, env, nd, depth, S, n, robj, nm.value, "set", _endpos(n), n.args[2])
                        if ae is not None:
                            events.extend(ae[0])
                    if ae is not None and ae[1]:
                        pass
                    elif not (isinstance(nm, ast.Constant) and isinstance(nm.value, str) and nm.value not in self.reg_attrs):
                        st = self.state(fi, env, robj, nd.id)
                        if st == "fresh":
                            S.exempt.append("%s: %s (receiver under construction)" % (fi.short, stmt_text(n, 60)))
                        elif st != "other":
                            events.append((_endpos(n), ["reflective store to %s of a %s registration" % ("." + nm.value if isinstance(nm, ast.Constant) else "an attribute", "published" if st == "pub" else "possibly published")], []))
                if isinstance(n, ast.Call) and isinstance(n.func, ast.Attribute) and n.func.attr == "cancel" and isinstance(n.func.value, ast.Attribute) and n.func.value.attr == "timeout":
                    st = self.state(fi, env, n.func.value.value, nd.id)
                    if st != "other":
                        events.append((_endpos(n), ["lifetime timer cancelled"], []))
            if ch:
                events.append((store_pos, ch, []))
            # calls
            for call in [n for n in walk_no_nested(root) if isinstance(n, ast.Call)]:
                cch, crz = [], []
                inl = self.rd_callees(fi, env, call, nd.id)
                for callee, sc, cenv in inl:
                    if _owner_class(callee) == REGQN and callee.cls is not None and callee.name in TIMER_METHODS:
                        cch.append("Registration.%s()" % callee.name)
                    s = self.summary(callee, cenv, depth + 1)
                    cch += ["%s via %s" % (c, callee.name) if " via " not in c else c for c in s.changes[:3]]
                    for r in s.raises:
                        cls = r[0]
                        if not self.caught_locally(fi, call, cls):
                            crz.append((cls, r[1]))
                    for k, v in s.viol.items():
                        S.viol.setdefault(k, v)
                    S.exempt += [x for x in s.exempt if x not in S.exempt]
                for cls, why in self.ext_raises(fi, call):
                    if not self.caught_locally(fi, call, cls):
                        crz.append((cls, why))
                if cch or crz:
                    events.append((_endpos(call), cch, crz))
        # explicit raise
        if nd.kind == "raise":
            rz = []
            st = nd.ast
            if st.exc is None or (isinstance(st.exc, ast.Name) and self._is_handler_name(fi, st)):
                rz = self._reraised(fi, env, st, depth, S)
            else:
                e = st.exc.func if isinstance(st.exc, ast.Call) else st.exc
                txt = chain(e)
                if txt:
                    q = self.EA.res.class_of_name(fi, txt) or self.codes.canon(self.prog.resolve_in_module(fi.module, txt))
                    if self.codes.is_4xx(q) and not self.caught_locally(fi, st, self.codes.canon(q)):
                        rz = [(self.codes.canon(q), "%s raised in %s" % (self.codes.canon(q).split(".")[-1], fi.short.replace("cli.rd.", "")))]
            if rz:
                events.append(((10 ** 9, 1), [], rz))
        events.sort(key=lambda x: x[0])
        return events

    def _is_handler_name(self, fi, st):
        h, _ = self.enclosing_handler(fi, st)
        return h is not None and h.name == st.exc.id

    def _reraised(self, fi, env, st, depth, S):
        """4.xx classes a bare `raise` / `raise e` re-raises: those the handler caught from its try body."""
        h, t = self.enclosing_handler(fi, st)
        if h is None or not isinstance(t, ast.Try):
            return []
        cfg = cfg_of(fi)
        out = []
        for b in t.body:
            for n in walk_no_nested(b):
                if isinstance(n, ast.Call):
                    raws = []
                    for callee, sc, cenv in self.rd_callees(fi, env, n, (cfg.locate(n) or [cfg.entry])[0]):
                        raws += self.summary(callee, cenv, depth + 1).raises
                    raws += self.ext_raises(fi, n)
                    for cls, why in raws:
                        first = next((hh for hh in t.handlers if self._handler_catches(fi, hh, cls)), None)
                        if first is h and not self.caught_locally(fi, t, cls):
                            out.append((cls, why + " (re-raised)"))
        return out

    def _analyse(self, fi, env, depth, S):
        cfg = cfg_of(fi)
        ch_nodes, rz_nodes = {}, {}
        # branch outcomes that cannot be taken in this context: tests with a fixed truth value, e.g. `links is
        # not None` in a helper that was expanded / is summarised for a call that passes (or defaults to) None
        # (("const", v): the parameter holds the constant v -- the attribute name handed to a __setattr__)
        none_names = {p: (None if st == "none" else st[1]) for p, st in env.pstates.items()
                      if (st == "none" or isinstance(st, tuple)) and not writes_to_name(fi.node, p)}
        dead = _dead_outcomes(cfg, none_names)
        live = cfg.reach({cfg.entry}, avoid=dead, include_src=True)
        for nd in cfg.nodes:
            if nd.kind not in ("stmt", "return", "raise", "test", "for", "with") or nd.id not in live:
                continue
            events = self._events(fi, env, nd, depth, S)
            if not events:
                continue
            chs = [c for _, c, _ in events for c in c]
            rzs = [r for _, _, r in events for r in r]
            if chs:
                ch_nodes[nd.id] = chs
            if rzs:
                rz_nodes[nd.id] = rzs
            # inside one statement: a change evaluated before a different raising sub-expression
            seen_change = None
            for pos, c, r in events:
                if r and seen_change is not None:
                    self._violation(S, fi, nd, seen_change, nd, r)
                    break
                if c and seen_change is None:
                    seen_change = c[0]
            for c in chs:
                if c not in S.changes:
                    S.changes.append(c)
            for r in rzs:
                if r not in S.raises:
                    S.raises.append(r)
        for a in sorted(ch_nodes):
            after = cfg.reach({a}, avoid=dead)
            for b in sorted(rz_nodes):
                if b in after:
                    self._violation(S, fi, cfg.nodes[a], ch_nodes[a][0], cfg.nodes[b], rz_nodes[b])
        # a change made while the 4.xx is already in flight: the `finally` block of a try statement whose
        # handlers do not catch the error runs before the error leaves the function
        for b in sorted(rz_nodes):
            for fin in self._finally_blocks_passed(fi, cfg.nodes[b], rz_nodes[b]):
                for st in fin:
                    hit = [x for n in ast.walk(st) for x in cfg.locate(n) if x in ch_nodes]
                    if hit:
                        self._violation(S, fi, cfg.nodes[hit[0]], ch_nodes[hit[0]][0] + " in a finally block that runs while the error propagates", cfg.nodes[b], rz_nodes[b])
                        break
        # state of the returned value
        rets = []
        for nd in cfg.nodes:
            if nd.kind == "return" and nd.ast.value is not None and cfg.is_reachable(nd.id):
                rets.append(self.state(fi, env, nd.ast.value, nd.id))
        S.ret = _join(rets) if rets else "other"

    def _finally_blocks_passed(self, fi, nd, raises):
        """finalbody statement lists a 4.xx raised at CFG node nd passes on its way out of fi (a block
        that itself returns / breaks / continues swallows the error and is not counted)."""
        cfg = cfg_of(fi)
        out = []
        classes = {cls for cls, _ in raises}
        child, p = _node_construct(nd), cfg.parent.get(id(_node_construct(nd)))
        while p is not None and p is not fi.node:
            if isinstance(p, ast.Try):
                in_body = any(child is b for b in p.body)
                if in_body:
                    classes = {c for c in classes if not any(self._handler_catches(fi, h, c) for h in p.handlers)}
                    if not classes:
                        break
                if p.finalbody and not any(child is b for b in p.finalbody):
                    if not any(isinstance(x, (ast.Return, ast.Break, ast.Continue)) for b in p.finalbody for x in walk_no_nested(b)):
                        out.append(p.finalbody)
            child, p = p, cfg.parent.get(id(p))
        return out

    def _violation(self, S, fi, and_, change, bnd, raises):
        node = _node_construct(bnd)
        key = (fi.short, stmt_text(node))
        if key in S.viol:
            return
        what = "; ".join(sorted({w for _, w in raises}))[:300]
        detail = "may answer 4.xx (%s) after the state change `%s` [%s] at %s" % (
            what, stmt_text(_node_construct(and_), 70), change, fi.loc(_node_construct(and_)))
        S.viol[key] = (fi, node, detail)


def _entries(prog):
    """Request handler entries of rd.py: render / render_<method> methods of its classes plus the
    anchored SimpleRegistration.process_request."""
    out = []
    for fi in prog.funcs.values():
        if not _in_rd(fi) or fi.cls is None:
            continue
        if fi.name == "render" or fi.name.startswith("render_") or (fi.name == "process_request" and fi.cls.qn == RDMOD + ".SimpleRegistration"):
            out.append(fi)
    return sorted(out, key=lambda f: f.qn)


def _is_index_read(fi, v):
    """v reads an element of _by_key / _by_path: `T[k]`, `T.get(k[, None])` (T possibly through a local)."""
    t = None
    if isinstance(v, ast.Subscript) and not isinstance(v.slice, ast.Slice):
        t = v.value
    elif isinstance(v, ast.Call) and isinstance(v.func, ast.Attribute) and v.func.attr == "get" and not v.keywords and \
            (len(v.args) == 1 or (len(v.args) == 2 and isinstance(v.args[1], ast.Constant) and v.args[1].value is None)):
        t = v.func.value
    if isinstance(t, ast.Name):
        t = resolve_local(fi.node, t)
    return t is not None and _table_of(t) in INDEXES


def _check_published_premise(ctx):
    """Every RegistrationResource(x) passes a registration read from the index tables."""
    prog = ctx.prog
    rr = prog.cls("cli.rd.RegistrationResource")
    init = rr.methods.get("__init__")
    ctx.need(init is not None and any(k == "assign" for k, _ in stores_to(init.node, "self.reg")), "RegistrationResource.__init__ no longer stores self.reg")
    pn = params(init)
    st = [n for k, n in stores_to(init.node, "self.reg")]
    ctx.need(len(st) == 1 and isinstance(st[0], ast.Assign) and isinstance(st[0].value, ast.Name) and st[0].value.id in pn, "self.reg is not the constructor argument")
    for fi in prog.funcs.values():
        for k, n in stores_to_any(fi.node, "reg"):
            ctx.need(fi is init, "%s rebinds .reg of a RegistrationResource" % fi.short)
    idx = pn.index(st[0].value.id)
    sites = 0
    res = EscapeAnalysis(prog).res
    for fi in prog.funcs.values():
        if not _in_rd(fi):
            continue
        cfg = None
        for call in calls_in(fi.node):
            if chain(call.func) and res.class_of_name(fi, chain(call.func)) == rr.qn:
                sites += 1
                arg = call.args[idx] if len(call.args) > idx else next((k.value for k in call.keywords if k.arg == pn[idx]), None)
                ok = False
                if isinstance(arg, ast.Name):
                    cfg = cfg_of(fi)
                    nid = cfg.loc1(call)
                    defs = reaching_defs(fi, arg.id, nid)
                    ok = bool(defs) and all(isinstance(w, ast.Assign) and _is_index_read(fi, w.value) for w in defs)
                elif arg is not None:
                    ok = _is_index_read(fi, arg)
                ctx.need(ok, "RegistrationResource(...) in %s is built from a value that is not read from _by_path/_by_key: the 'self.reg is published' premise of C20.a does not hold" % fi.short)
    ctx.need(sites >= 1, "no construction site of RegistrationResource found")
    return sites


@R.clause("C20.a", "no 4.xx RenderableError is reachable after a change of RD state in any request handler (callees in rd.py inlined)")
def a(ctx):
    prog = ctx.prog
    # Anchors: the mechanism named by the property (CommonRD / Registration methods) and the request handlers.
    # Private helpers of the handlers (RegistrationResource._update_params, pop_single_arg, query_split,
    # link_format_from_message) are NOT anchors: the handlers are analysed with whatever helpers exist --
    # callees in rd.py are inlined by their effect summaries, callees elsewhere by their escape sets -- so
    # inlining, renaming, merging or splitting such a helper changes nothing in what is decided.
    for anchor in ("cli.rd.CommonRD.initialize_endpoint", "cli.rd.CommonRD.Registration.__init__", "cli.rd.CommonRD.Registration.update_params",
                   "cli.rd.CommonRD.Registration.delete", "cli.rd.CommonRD.Registration._set_timeout",
                   "cli.rd.DirectoryResource.render_post", "cli.rd.RegistrationResource.render_post", "cli.rd.RegistrationResource.render_put",
                   "cli.rd.RegistrationResource.render_delete", "cli.rd.SimpleRegistration.render_post",
                   "cli.rd.SimpleRegistration.process_request"):
        prog.func(anchor)
    ctx.need(Codes(prog).is_4xx("aiocoap.error.BadRequest") and not Codes(prog).is_4xx("aiocoap.error.InternalServerError"), "cannot classify response codes of error.BadRequest / InternalServerError")
    sites = _check_published_premise(ctx)
    # pass 1 (rd.py only, no escape sets): which handlers change RD state at all
    E0 = Effects(ctx, with_ext=False)
    entries = [fi for fi in _entries(prog) if E0.summary(fi, Env(None, {})).changes]
    # pass 2: full analysis of those
    E = Effects(ctx)
    changing = 0
    reported = {}
    for fi in entries:
        S = E.summary(fi, Env(None, {}))
        if not S.changes:
            continue
        changing += 1
        if not S.viol:
            ctx.ob("handler %s: no 4.xx error can follow a state change" % fi.short.replace("cli.rd.", ""), True, fi, fi.node,
                   construct=fi.short, detail="changes: %s; may raise: %s" % ("; ".join(S.changes[:4]), ", ".join(sorted({w for _, w in S.raises}))[:200]))
        for k, v in S.viol.items():
            reported.setdefault(k, (v, []))[1].append(fi.short.replace("cli.rd.", ""))
    ctx.floor("request handlers that change RD state", changing, 6)
    for k, ((vfi, node, detail), entries) in sorted(reported.items()):
        ctx.ob("no statement that may answer 4.xx is reachable after a state change", False, vfi, node,
               detail="%s; reached from handler(s) %s" % (detail, ", ".join(entries)))
    ctx.note("%d handler entries change RD state; RegistrationResource built at %d site(s), always from a table read" % (changing, sites))
    ctx.extra["c20_callbacks"] = {k: [f.short for f in v] for k, v in E.callbacks().items()}
    ctx.extra["c20_fresh_receiver_stores_exempted"] = sorted(set(x for s in E.memo.values() for x in s.exempt))
    ctx.extra["c20_unresolved_calls"] = sorted(E.unresolved)
    if E.truncated:
        ctx.note("inlining cut at depth %d in: %s" % (MAXDEPTH, sorted(set(E.truncated))))


# ---------------------------------------------------------------------------
# C20.b


def _crd_owned(fi):
    f = fi
    while f is not None and f.cls is None:
        f = f.parent
    return f is not None and f.cls.qn == CRD


def _index_ops(fi, field):
    """([(node, key, value)] insertions, [(node, key)] removals, [other stores]) on <x>.<field> in fi."""
    ins, rem, other = [], [], []
    for kind, n in stores_to_any(fi.node, field):
        if kind == "setitem" and isinstance(n, ast.Assign) and any(isinstance(t, ast.Subscript) and _table_of(t.value) == field for t in n.targets):
            # `T[k] = v`, also as one target of a chained assignment `T[k] = U[p] = v`
            for t in n.targets:
                if isinstance(t, ast.Subscript) and _table_of(t.value) == field:
                    ins.append((n, t.slice, n.value))
        elif kind == "delitem" and isinstance(n, ast.Delete):
            for t in n.targets:
                if isinstance(t, ast.Subscript) and _table_of(t.value) == field:
                    rem.append((n, t.slice))
        elif kind == "pop" and isinstance(n, ast.Call) and n.args:
            rem.append((n, n.args[0]))
        elif kind == "assign" and isinstance(n, ast.Assign) and ((isinstance(n.value, ast.Dict) and not n.value.keys) or (isinstance(n.value, ast.Call) and chain(n.value.func) == "dict" and not n.value.args and not n.value.keywords)):
            other.append(("init", n))
        else:
            other.append((kind, n))
    return ins, rem, other


def _paired(cfg, a, b):
    """Both statements execute on every normal path that executes one of them."""
    na, nb = cfg.loc1(a), cfg.loc1(b)
    if cfg.dominates(na, nb):
        return cfg.must_pass(na, {nb})
    if cfg.dominates(nb, na):
        return cfg.must_pass(nb, {na})
    return False


@R.clause("C20.b", "_by_key and _by_path are written only inside CommonRD, insertions and removals are paired, the delete callback removes what was inserted")
def b(ctx):
    prog = ctx.prog
    ie = prog.func("cli.rd.CommonRD.initialize_endpoint")
    nwriters = 0
    for field in TABLES:
        fw = field_writers(prog, field)
        for short, hits in sorted(fw.items()):
            fi = prog.func(short)
            for kind, n in hits:
                nwriters += 1
                ctx.ob("%s is only written inside CommonRD" % field, _crd_owned(fi), fi, n, detail="%s in %s" % (kind, short))
    ctx.floor("write sites of the RD tables", nwriters, 6)

    n_ins = n_rem = 0
    for fi in [f for f in prog.funcs.values() if _in_rd(f)]:
        ops = {f: _index_ops(fi, f) for f in INDEXES}
        if not any(ops[f][0] or ops[f][1] or [o for o in ops[f][2] if o[0] != "init"] for f in INDEXES):
            continue
        cfg = cfg_of(fi)
        for f, g in (INDEXES, INDEXES[::-1]):
            for n, key, val in ops[f][0]:
                n_ins += 1
                partner = [m for m, k2, v2 in ops[g][0] if isinstance(val, ast.Name) and dump(v2) == dump(val) and _paired(cfg, n, m)]
                same_def = True
                if partner and isinstance(val, ast.Name):
                    d1 = reaching_defs(fi, val.id, cfg.loc1(n))
                    d2 = reaching_defs(fi, val.id, cfg.loc1(partner[0]))
                    same_def = [id(x) for x in d1] == [id(x) for x in d2]
                ctx.ob("an insertion into %s is paired with an insertion of the same object into %s" % (f, g), bool(partner) and same_def, fi, n)
            for n, key in ops[f][1]:
                n_rem += 1
                partner = [m for m, k2 in ops[g][1] if _paired(cfg, n, m)]
                ctx.ob("a removal from %s is paired with a removal from %s" % (f, g), bool(partner), fi, n)
            for kind, n in ops[f][2]:
                if kind != "init":
                    ctx.ob("%s is only changed by item insertion and removal" % f, False, fi, n, detail="store kind %s" % kind)
    ctx.floor("insertions into the index tables", n_ins, 2)
    ctx.floor("removals from the index tables", n_rem, 2)

    # the delete callback handed to the registration removes exactly what the constructing function inserted.
    # The callback may be a closure, a method / function bound with functools.partial or a forwarding lambda:
    # its removal keys are mapped into the scope of the Registration(...) site (closure variable, or parameter
    # bound there) and compared, after resolution through single-assignment locals, with the insertion keys.
    E = Effects(ctx)
    dels = E.callback_bindings().get("_delete_cb", [])
    ctx.floor("delete callbacks bound at Registration(...) sites", len(dels), 1)
    for dfi, binding, outer in dels:
        ocfg = cfg_of(outer)
        is_closure = dfi.parent is outer or (dfi.parent is not None and dfi.parent.parent is outer)
        dparams = set(K.all_params(dfi)) if not isinstance(dfi.node, ast.Lambda) else {x.arg for x in dfi.node.args.posonlyargs + dfi.node.args.args + dfi.node.args.kwonlyargs}
        for f in INDEXES:
            ins, _, _ = _index_ops(outer, f)
            _, rem, _ = _index_ops(dfi, f)
            ctx.ob("the delete callback removes the registration from %s" % f, bool(rem), dfi, dfi.node, construct="%s: removal from %s" % (dfi.name, f))
            for n, key in rem:
                site_key = None
                if isinstance(key, ast.Name) and not (not isinstance(dfi.node, ast.Lambda) and writes_to_name(dfi.node, key.id)):
                    if key.id in dparams:
                        site_key = binding.get(key.id)
                        if site_key is None and dfi.parent is outer:
                            site_key = _param_default(dfi, key.id)  # default-argument binding, evaluated in the site's scope
                    elif is_closure:
                        site_key = key
                elif not isinstance(key, ast.Name) and is_closure and not (names_in(key) & dparams):
                    site_key = key  # an expression over closure variables
                ok = bool(ins) and site_key is not None and all(dump(resolve_local(outer.node, k2)) == dump(resolve_local(outer.node, site_key)) for _, k2, _ in ins)
                stable = ok and not any(wn in ocfg.reach({ocfg.loc1(i)}) for i, _, _ in ins for nm in names_in(site_key) | {x for _, k2, _ in ins for x in names_in(k2)}
                                        for w in writes_to_name(outer.node, nm) for wn in ocfg.locate(w))
                ctx.ob("the delete callback removes from %s the very key the registration was inserted under" % f, ok and stable, dfi, n,
                       detail="removal key %s -> %s at the site; insertion key(s) %s" % (stmt_text(key, 40), stmt_text(site_key, 40) if site_key is not None else "?", [stmt_text(k2, 40) for _, k2, _ in ins]))
    ctx.ob("Registration.delete runs the delete callback on every normal path", _delete_runs_cb(prog), prog.func("cli.rd.CommonRD.Registration.delete"), None,
           construct="Registration.delete -> self._delete_cb()")


def _param_default(fi, name):
    a = fi.node.args
    pos = a.posonlyargs + a.args
    for p, d in zip(pos[len(pos) - len(a.defaults):], a.defaults):
        if p.arg == name:
            return d
    for p, d in zip(a.kwonlyargs, a.kw_defaults):
        if p.arg == name and d is not None:
            return d
    return None


def _delete_runs_cb(prog):
    fi = prog.func("cli.rd.CommonRD.Registration.delete")
    cfg = cfg_of(fi)
    nodes = [cfg.loc1(c) for c, _ in find("self._delete_cb($*a)", fi.node)]
    return bool(nodes) and cfg.must_pass(cfg.entry, set(nodes))


# ---------------------------------------------------------------------------
# C20.c


def _value_alternatives(fi, name):
    """[(value expression, defining statement, [(test, polarity)] conditional-expression conditions)] for
    every plain assignment of local `name`; None when the local is bound in another way.  Both arms of a
    conditional expression are separate alternatives."""
    out = []

    def arms(v, w, conds):
        if isinstance(v, ast.IfExp):
            arms(v.body, w, conds + [(v.test, True)])
            arms(v.orelse, w, conds + [(v.test, False)])
        else:
            out.append((v, w, conds))

    for w in writes_to_name(fi.node, name):
        if not (isinstance(w, ast.Assign) and len(w.targets) == 1 and isinstance(w.targets[0], ast.Name)):
            return None
        arms(w.value, w, [])
    return out


def _by_key_read(fi, v, keys):
    """v reads, from <x>._by_key, the entry of the key the registration is inserted under:
    `T[K]`, `T.get(K)`, `T.get(K, None)` (T possibly a single-assignment alias).  -> 'item' | 'get' | None"""
    k = kind = None
    t = None
    if isinstance(v, ast.Subscript) and not isinstance(v.slice, ast.Slice):
        t, k, kind = v.value, v.slice, "item"
    elif isinstance(v, ast.Call) and isinstance(v.func, ast.Attribute) and v.func.attr == "get" and not v.keywords and \
            (len(v.args) == 1 or (len(v.args) == 2 and isinstance(v.args[1], ast.Constant) and v.args[1].value is None)):
        t, k, kind = v.func.value, v.args[0], "get"
    if t is None:
        return None
    if isinstance(t, ast.Name):
        t = resolve_local(fi.node, t)
    if _table_of(t) != "_by_key":
        return None
    return kind if dump(resolve_local(fi.node, k)) in keys else None


def _keyerror_handlers(fi, cfg, keys):
    """CFG handler nodes that run exactly when `<x>._by_key[K]` raised KeyError (K the insertion key)."""
    out = []
    for t in [n for n in walk_no_nested(fi.node) if isinstance(n, ast.Try)]:
        reads = [s for b in t.body for s in walk_no_nested(b) if isinstance(s, ast.Subscript) and _by_key_read(fi, s, keys) == "item"]
        if not reads:
            continue
        for h in t.handlers:
            names = [chain(x) for x in ((h.type.elts if isinstance(h.type, ast.Tuple) else [h.type]) if h.type is not None else [])]
            if "KeyError" in names or "LookupError" in names:
                out.extend(cfg.locate(h))
    return out


def _is_none_means_absent(prog, fi, cfg, o, at, keys, depth=0):
    """`o is None` at CFG node `at` implies that no registration exists under the key: every definition
    of o that reaches `at` is a `.get(K)` of _by_key, a `_by_key[K]` read (never None: only constructed
    registrations are inserted), or the constant None assigned where no registration exists (KeyError
    handler of such a read, `K not in _by_key` branch, ...)."""
    if not isinstance(o, ast.Name):
        return _by_key_read(fi, o, keys) == "get"
    defs = reaching_defs(fi, o.id, at)
    if not defs or o.id in params(fi) or depth > 2:
        return False
    for w in defs:
        if not (isinstance(w, ast.Assign) and len(w.targets) == 1 and isinstance(w.targets[0], ast.Name)):
            return False
        if _by_key_read(fi, w.value, keys):
            continue
        if isinstance(w.value, ast.Constant) and w.value.value is None and _no_existing_k(prog, fi, cfg, cfg.loc1(w), keys, (), depth + 1):
            continue
        return False
    return True


def _absence_fact(prog, fi, cfg, e, pol, at, keys, depth=0):
    """Atomic condition e having truth value pol (evaluated at CFG node `at`) implies that no registration
    exists under the key: `K not in _by_key` / `<looked-up registration> is None` /
    `not <looked-up registration>`, in any spelling."""
    a = K.absent_test(fi, e, "self._by_key")
    if a is not None:
        return a[1] == pol and dump(resolve_local(fi.node, a[0])) in keys
    while isinstance(e, ast.UnaryOp) and isinstance(e.op, ast.Not):
        e, pol = e.operand, not pol
    o = None
    if isinstance(e, ast.Compare) and len(e.ops) == 1 and isinstance(e.ops[0], (ast.Is, ast.IsNot, ast.Eq, ast.NotEq)):
        l, r = e.left, e.comparators[0]
        if isinstance(r, ast.Constant) and r.value is None:
            o = l
        elif isinstance(l, ast.Constant) and l.value is None:
            o = r
        if o is not None and pol != isinstance(e.ops[0], (ast.Is, ast.Eq)):
            o = None
    elif isinstance(e, (ast.Name, ast.Call)) and not pol:
        # `not old`: registrations are always truthy (the class defines no __bool__/__len__)
        if not any(prog.lookup_method(REGQN, m) is not None for m in ("__bool__", "__len__")):
            o = e
    return o is not None and _is_none_means_absent(prog, fi, cfg, o, at, keys, depth)


def _no_existing_k(prog, fi, cfg, nid, keys, extra=(), depth=0):
    if any(cfg.dominates(hn, nid) for hn in _keyerror_handlers(fi, cfg, keys)):
        return True
    facts = [(e, pol, cfg.locate(e)[0] if cfg.locate(e) else nid) for e, pol, _ in cfg.guards(nid)]
    for e, pol in extra:
        facts += [(a, p, nid) for a, p in K._conjuncts(e, pol)]
    return any(_absence_fact(prog, fi, cfg, e, pol, at, keys, depth) for e, pol, at in facts)


def _no_existing(prog, fi, cfg, nid, ins_k, extra=()):
    """nid only executes (with the conditional-expression conditions `extra`) when no registration exists
    under the key: it sits in a KeyError handler of a try that reads _by_key[key], or under a
    `key not in _by_key` / `<looked-up registration> is None` / `not <looked-up registration>` condition
    (any spelling; the looked-up registration may be defined on several paths)."""
    keys = [dump(resolve_local(fi.node, k)) for _, k, _ in ins_k]
    return _no_existing_k(prog, fi, cfg, nid, keys, extra)


def _str_parts(e):
    """Flatten a string-building expression into constant pieces and embedded expressions:
    'a' + X, f'a{X}', 'a%s' % X, 'a{}'.format(X)  ->  ['a', dump(X)]; None when not understood."""
    if isinstance(e, ast.Constant) and isinstance(e.value, str):
        return [e.value] if e.value else []
    if isinstance(e, ast.BinOp) and isinstance(e.op, ast.Add):
        l, r = _str_parts(e.left), _str_parts(e.right)
        return None if l is None or r is None else _merge(l + r)
    if isinstance(e, ast.JoinedStr):
        out = []
        for v in e.values:
            if isinstance(v, ast.Constant):
                out.append(v.value)
            elif isinstance(v, ast.FormattedValue) and v.conversion in (-1, 115) and v.format_spec is None:
                out.append(("x", dump(v.value)))
            else:
                return None
        return _merge(out)
    tmpl = args = ph = None
    if isinstance(e, ast.BinOp) and isinstance(e.op, ast.Mod) and isinstance(e.left, ast.Constant) and isinstance(e.left.value, str):
        tmpl, ph = e.left.value, "%s"
        args = list(e.right.elts) if isinstance(e.right, ast.Tuple) else [e.right]
    elif isinstance(e, ast.Call) and isinstance(e.func, ast.Attribute) and e.func.attr == "format" and isinstance(e.func.value, ast.Constant) and isinstance(e.func.value.value, str) and not e.keywords:
        tmpl, ph, args = e.func.value.value, "{}", list(e.args)
    if tmpl is not None:
        pieces = tmpl.split(ph)
        if len(pieces) != len(args) + 1 or any("%" in x or "{" in x for x in pieces):
            return None
        out = []
        for i, x in enumerate(pieces):
            out.append(x)
            if i < len(args):
                out.append(("x", dump(args[i])))
        return _merge(out)
    return [("x", dump(e))]


def _merge(parts):
    out = []
    for x in parts:
        if x == "":
            continue
        if isinstance(x, str) and out and isinstance(out[-1], str):
            out[-1] += x
        else:
            out.append(x)
    return out


@R.clause("C20.c", "fresh locations are unused, re-registration keeps its location, path = entity_prefix + tail, key = (ep, d)")
def c(ctx):
    prog = ctx.prog
    # _new_pathtail: every returned value is known not to be a key of _by_path (K.unused_member: a
    # dominating membership test in any spelling, or a value drawn from an iterable filtered by it)
    # _new_pathtail is a private helper of initialize_endpoint: when it exists its returns are checked; when
    # the allocation is written inline instead, the allocating expression itself must be drawn from an
    # iterable filtered by absence from _by_path (K.filtered_absent), see the alternatives below
    nf = prog.func("cli.rd.CommonRD._new_pathtail") if prog.has_func("cli.rd.CommonRD._new_pathtail") else None
    if nf is not None:
        cfg = cfg_of(nf)
        rets = [nd for nd in cfg.nodes if nd.kind == "return" and cfg.is_reachable(nd.id)]
        ctx.floor("returns of _new_pathtail", len(rets), 1)
        for nd in rets:
            ctx.ob("_new_pathtail returns only a path that is not in _by_path", K.unused_member(prog, nf, nd.ast, "self._by_path"), nf, nd.ast)
        ctx.ob("_new_pathtail cannot fall off its end", cfg.exit not in cfg.reach({cfg.entry}, avoid={nd.id for nd in rets} | _infinite_loop_exits(cfg), skip_labels=("exc",)), nf, nf.node, construct="_new_pathtail")

    ie = prog.func("cli.rd.CommonRD.initialize_endpoint")
    icfg = cfg_of(ie)
    ctx.ob("allocation and insertion of a location happen in one plain synchronous function", is_plain_sync(ie) and (nf is None or is_plain_sync(nf)), ie, ie.node, construct="def initialize_endpoint")
    ins_k, _, _ = _index_ops(ie, "_by_key")
    ins_p, _, _ = _index_ops(ie, "_by_path")
    ctx.floor("insertions into _by_key in initialize_endpoint", len(ins_k), 1)
    ctx.floor("insertions into _by_path in initialize_endpoint", len(ins_p), 1)
    pnames = params(ie)
    ctx.need(len(pnames) == 2, "initialize_endpoint signature changed")
    qparam = pnames[1]
    keys = [dump(resolve_local(ie.node, k)) for _, k, _ in ins_k]

    # key = (ep, d)
    E = Effects(ctx)
    for n, key, val in ins_k:
        kv = resolve_local(ie.node, key)
        ok = isinstance(kv, ast.Tuple) and len(kv.elts) == 2
        got = []
        if ok:
            for elt, want in zip(kv.elts, ("ep", "d")):
                ev = resolve_local(ie.node, elt)
                b = match("pop_single_arg($q, $name)", ev)
                got.append(stmt_text(ev, 50))
                qa = resolve_local(ie.node, b["q"]) if b is not None else None
                nm = resolve_local(ie.node, b["name"]) if b is not None else None
                ok = ok and b is not None and isinstance(qa, ast.Name) and qa.id == qparam and isinstance(nm, ast.Constant) and nm.value == want
        ctx.ob("the index key is the pair (ep, d) of the registration parameters", ok, ie, n, detail="key = %s -> %s" % (stmt_text(kv, 60), got))
        # the constructed registration is what is inserted
        if isinstance(val, ast.Name):
            vdefs = reaching_defs(ie, val.id, icfg.loc1(n))
            okv = bool(vdefs) and all(isinstance(w, ast.Assign) and isinstance(w.value, ast.Call) and E.is_reg_ctor(ie, w.value) for w in vdefs)
        else:
            okv = isinstance(val, ast.Call) and E.is_reg_ctor(ie, val)
        ctx.ob("the object inserted is the registration constructed for this request", okv, ie, n)

    # existing registration looked up under the same key
    N = Normalizer(env=norm.local_env(ie.node))
    want_lo = N.poly(ast.parse("len(self.entity_prefix)", mode="eval").body)
    for n, pkey, val in ins_p:
        ctx.need(isinstance(pkey, ast.Name), "the _by_path insertion key is not a local")
        P = pkey.id
        alts = _value_alternatives(ie, P)
        ctx.need(alts is not None, "location tail defined by an unexpected statement")
        ctx.floor("definitions of the location tail", len(alts), 2)
        reuse = fresh = 0
        for v, w, conds in alts:
            wn = icfg.loc1(w)
            v = resolve_local(ie.node, v) if isinstance(v, ast.Name) else v
            # a fresh allocation: the checked helper, or an inline expression whose every possible value passed
            # a `not in self._by_path` filter (nothing is inserted between it and the insertion below: the
            # function is plain synchronous and its only _by_path insertion is the one examined here)
            if (nf is not None and match("self._new_pathtail()", v) is not None) or K.filtered_absent(prog, ie, v, "self._by_path"):
                fresh += 1
                ctx.ob("a fresh location is only allocated when no registration exists under the key", _no_existing(prog, ie, icfg, wn, ins_k, conds), ie, w,
                       construct=stmt_text(w, 80) if not conds else "%s [arm %s]" % (stmt_text(w, 60), stmt_text(v, 30)))
                continue
            b = match("$old.path[$lo:]", v)
            okr = False
            if b is not None:
                old = b["old"]
                if isinstance(old, ast.Name):
                    # the constant None can never be the receiver of `.path` (AttributeError): only the other
                    # definitions can flow into the tail
                    odefs = [o for o in reaching_defs(ie, old.id, wn) if not (isinstance(o, ast.Assign) and isinstance(o.value, ast.Constant) and o.value.value is None)]
                    okold = bool(odefs) and old.id not in pnames and all(isinstance(o, ast.Assign) and len(o.targets) == 1 and _by_key_read(ie, o.value, keys) for o in odefs)
                else:
                    okold = bool(_by_key_read(ie, old, keys))
                try:
                    oklo = N.poly(b["lo"]) == want_lo
                except norm.NormError:
                    oklo = False
                okr = okold and oklo
            if okr:
                reuse += 1
            ctx.ob("a re-registration reuses the old registration's location tail (path minus entity_prefix)", okr, ie, w, detail="tail = %s" % stmt_text(v, 70),
                   construct=stmt_text(w, 80) if not conds else "%s [arm %s]" % (stmt_text(w, 60), stmt_text(v, 30)))
        ctx.ob("a re-registration keeps its location", reuse >= 1, ie, n, detail="%d definition(s) reuse oldreg.path" % reuse)
        ctx.ob("a new endpoint gets a location that is checked to be unused", fresh >= 1, ie, n, detail="%d definition(s) allocate a fresh location" % fresh)

        # Registration(path=entity_prefix + tail)
        ri = prog.func("cli.rd.CommonRD.Registration.__init__")
        rp = params(ri)
        st = [x for k, x in stores_to(ri.node, "self.path")]
        okst = len(st) == 1 and isinstance(st[0], ast.Assign) and isinstance(st[0].value, ast.Name) and st[0].value.id in rp and not writes_to_name(ri.node, st[0].value.id)
        ctx.ob("Registration stores the path it is given", okst, ri, st[0] if st else ri.node)
        pparam = st[0].value.id if okst else "path"
        ctors = [cl for cl in calls_in(ie.node) if E.is_reg_ctor(ie, cl)]
        ctx.floor("Registration(...) constructions in initialize_endpoint", len(ctors), 1)
        for cl in ctors:
            bound = Effects.bind_args(cl, rp)
            arg = bound.get(pparam)
            ctx.ob("the registration's path is entity_prefix + location tail", arg is not None and _is_prefix_plus(ie, arg, P), ie, cl, detail="path argument: %s" % (stmt_text(arg, 60) if arg is not None else None),
                   construct="Registration(path=%s)" % (stmt_text(arg, 60) if arg is not None else "?"))
        others = [(f.short, x) for f in prog.funcs.values() if _in_rd(f) and f is not ri for k, x in stores_to_any(f.node, "path") if isinstance(x, (ast.Assign, ast.AugAssign)) and any(isinstance(t, ast.Attribute) for t in (x.targets if isinstance(x, ast.Assign) else [x.target]))]
        ctx.ob("a registration's path never changes after construction", not others, ri, None, construct="Registration.path", detail="; ".join(s for s, _ in others))


def _is_prefix_plus(fi, arg, P):
    """arg is self.entity_prefix followed by the location tail held in local P:
    `self.entity_prefix + P`, `(*self.entity_prefix, *P)`, operands possibly through locals."""
    e = resolve_local(fi.node, arg)
    parts = None
    if isinstance(e, ast.BinOp) and isinstance(e.op, ast.Add):
        parts = [e.left, e.right]
    elif isinstance(e, ast.Tuple) and len(e.elts) == 2 and all(isinstance(x, ast.Starred) for x in e.elts):
        parts = [x.value for x in e.elts]
    elif isinstance(e, ast.Call) and chain(e.func) == "tuple" and len(e.args) == 1:
        return _is_prefix_plus(fi, e.args[0], P)
    if parts is None:
        return False
    l, r = parts
    l = resolve_local(fi.node, l)
    if isinstance(l, ast.Call) and chain(l.func) == "tuple" and len(l.args) == 1:
        l = l.args[0]
    if chain(l) != "self.entity_prefix":
        return False
    if isinstance(r, ast.Call) and chain(r.func) == "tuple" and len(r.args) == 1:
        r = r.args[0]
    return isinstance(r, ast.Name) and r.id == P


def _infinite_loop_exits(cfg):
    """F pseudo-nodes of `for ... in itertools.count(...)` loops (never taken)."""
    out = set()
    for nd in cfg.nodes:
        if nd.kind == "F" and isinstance(nd.ast, (ast.For, ast.AsyncFor)):
            it = nd.ast.iter
            if isinstance(it, ast.Call) and (chain(it.func) or "").split(".")[-1] in ("count", "cycle", "repeat") and ((chain(it.func) or "").split(".")[-1] != "repeat" or len(it.args) == 1):
                out.add(nd.id)
    return out


# ---------------------------------------------------------------------------
# C20.d helpers: timers armed for an absolute time (`loop.call_at(loop.time() + delay, cb)`) and timer callbacks
# that are functions of rd.py.  Two designs are interpreted:
#   eager  every (re)start of the lifetime arms a timer that deletes unconditionally when it fires (and cancels
#          the one that was pending): the confirmed code;
#   lazy   the timer callback compares the loop's clock with a deadline field D of the registration; it deletes
#          when D has passed and otherwise re-arms itself for D.  This is right exactly as long as the pending
#          timer never fires LATER than D, i.e. every writer of D either arms a timer for the new value on every
#          path that follows, or is guarded by `new >= old` (the pending timer is then early, and the callback
#          waits for the rest).  The invariant is evaluated over all writers of D in rd.py.


def _is_loop_expr(fi, e):
    e = resolve_local(fi.node, e)
    if isinstance(e, ast.Call) and not e.args and not e.keywords:
        return (chain(e.func) or "").split(".")[-1] in ("get_running_loop", "get_event_loop")
    c = chain(e)
    return c is not None and c.split(".")[-1].lstrip("_") in ("loop", "event_loop")


def _is_now(fi, e):
    """`<event loop>.time()`, directly or through a single-assignment local"""
    e = resolve_local(fi.node, e)
    return isinstance(e, ast.Call) and not e.args and not e.keywords and isinstance(e.func, ast.Attribute) \
        and e.func.attr == "time" and _is_loop_expr(fi, e.func.value)


def _add_terms(fi, e, depth=0):
    e = resolve_local(fi.node, e)
    if isinstance(e, ast.BinOp) and isinstance(e.op, ast.Add) and depth < 8:
        return _add_terms(fi, e.left, depth + 1) + _add_terms(fi, e.right, depth + 1)
    return [e]


def _delay_from_now(fi, e):
    """Poly d when e denotes `<loop>.time() + d` (summands in any order, through locals); else None"""
    terms = _add_terms(fi, e)
    nows = [t for t in terms if _is_now(fi, t)]
    if len(nows) != 1:
        return None
    N = Normalizer(env=norm.local_env(fi.node))
    p = Poly.const(0)
    try:
        for t in terms:
            if t is not nows[0]:
                p = p + N.poly(t)
    except norm.NormError:
        return None
    return p


def _same_value(fi, a, b):
    if isinstance(a, ast.Name) and isinstance(b, ast.Name) and a.id == b.id and len(writes_to_name(fi.node, a.id)) <= 1:
        return True
    ra, rb = resolve_local(fi.node, a), resolve_local(fi.node, b)
    if ra is rb:
        return True
    # two evaluations of one call-free expression over names that are written at most once
    return same(ra, rb) and not any(isinstance(n, (ast.Call, ast.Await)) for n in ast.walk(ra)) \
        and all(len(writes_to_name(fi.node, n)) <= 1 for n in names_in(ra))


def _self_field_stores(fi, field):
    """plain assignments `self.F = v` of fi, or None when F is written in any other way there"""
    out = []
    for k, x in stores_to(fi.node, field):
        if k == "assign" and isinstance(x, ast.Assign) and len(x.targets) == 1 and chain(x.targets[0]) == field:
            out.append(x)
        else:
            return None
    return out


def _when_of(fi, cfg, call):
    """(value expression, {self fields holding that very value when the timer is armed}) of the `when`
    argument of a call_at; value None when it is read from a field whose content is not known at the call"""
    when = call.args[0]
    nid = cfg.loc1(call)
    c = chain(when)
    if c and c.startswith("self.") and c.count(".") == 1:
        st = _self_field_stores(fi, c)
        if not st:
            return None, {c}
        if len(st) == 1 and cfg.dominates(cfg.loc1(st[0]), nid) and cfg.loc1(st[0]) != nid:
            return st[0].value, {c}
        return None, {c}
    fields = set()
    for n in walk_no_nested(fi.node):
        if isinstance(n, ast.Assign) and len(n.targets) == 1:
            t = chain(n.targets[0])
            if t and t.startswith("self.") and t.count(".") == 1 and _same_value(fi, n.value, when) \
                    and cfg.dominates(cfg.loc1(n), nid) and len(_self_field_stores(fi, t) or ()) == 1:
                fields.add(t)
    return when, fields


def _rearm_calls(prog, fi, D, target, value=None):
    """call_at(...) calls of fi that arm `target` for the deadline field D (or for `value`, the expression
    just stored into D) and keep the handle in self.timeout"""
    out = []
    kept = [x for k, x in stores_to(fi.node, "self.timeout") if k == "assign" and isinstance(x, ast.Assign)]
    for call in calls_in(fi.node):
        if not (chain(call.func) or (call.func.attr if isinstance(call.func, ast.Attribute) else "")).endswith("call_at") or len(call.args) != 2 or call.keywords:
            continue
        w = call.args[0]
        if not (chain(w) == D or (value is not None and _same_value(fi, w, value))):
            continue
        tg = K.callable_target(prog, fi, call.args[1])
        if tg is None or tg[0] is not target or tg[1]:
            continue
        if any(resolve_local(fi.node, x.value) is call for x in kept):
            out.append(call)
    return out


def _cmp(l, op, r):
    return ast.Compare(left=l, ops=[op], comparators=[r])


def _timer_callback(prog, fi, cb, extra, delete_fi):
    """What happens when the timer fires: ('eager', None, None) -- Registration.delete runs on every normal
    path; ('lazy', D, target) -- the callback `target` deletes when the clock has reached self.D and re-arms
    itself for self.D otherwise; ('no', None, reason)."""
    if extra:
        return "no", None, "arguments are passed to the callback"
    if chain(cb) == "self.delete":
        return "eager", None, None
    tg = K.callable_target(prog, fi, cb)
    if tg is None:
        return "no", None, "callback %s is not a function of rd.py" % stmt_text(cb, 40)
    t, pre = tg
    if t is delete_fi and not pre:
        return "eager", None, None
    if isinstance(t.node, ast.Lambda) or not is_plain_sync(t) or pre or [p for p in params(t) if p != "self"]:
        return "no", None, "callback %s is not a plain parameterless function" % stmt_text(cb, 40)
    tcfg = cfg_of(t)
    dels = {tcfg.loc1(c) for c, _ in find("self.delete()", t.node)}
    if dels and tcfg.must_pass(tcfg.entry, dels):
        return "eager", None, None
    if not dels:
        return "no", None, "%s never calls self.delete()" % t.name
    # lazy: the clock is compared with one field of the registration
    cands = []
    for n in walk_no_nested(t.node):
        if isinstance(n, ast.Compare) and len(n.ops) == 1 and isinstance(n.ops[0], (ast.Lt, ast.LtE, ast.Gt, ast.GtE)):
            for a, b in ((n.left, n.comparators[0]), (n.comparators[0], n.left)):
                cb_ = chain(b)
                if _is_now(t, a) and cb_ and cb_.startswith("self.") and cb_.count(".") == 1:
                    cands.append((a, b, cb_))
    Ds = {c for _, _, c in cands}
    if len(Ds) != 1:
        return "no", None, "%s does not delete on every path and does not compare the clock with one deadline field" % t.name
    D = Ds.pop()
    if _self_field_stores(t, D) != []:
        raise AnalysisError("C20.d: the timer callback %s writes its own deadline %s: outside the rule's vocabulary" % (t.short, D))
    pm = PathModel(t)
    rearm = {tcfg.loc1(c) for c in _rearm_calls(prog, t, D, t)}

    def holds(path, ops):
        return any(pm.truth(_cmp(a, op(), b), path) is True for a, b, _ in cands for op in ops)

    for path in pm.paths():
        if path.end == "raise":
            continue
        if path.end == "cut":
            return "no", None, "loop in %s" % t.name
        if any(n in dels for n in path.nodes):
            if not holds(path, (ast.GtE, ast.Gt)):
                return "no", None, "%s deletes on a path where the clock has not reached %s (%s)" % (t.name, D, pm.describe(path))
        else:
            if not holds(path, (ast.Lt, ast.LtE)):
                return "no", None, "%s neither deletes nor finds the deadline %s still ahead (%s)" % (t.name, D, pm.describe(path))
            if not any(n in rearm for n in path.nodes):
                return "no", None, "%s postpones the deletion without re-arming itself for %s (%s)" % (t.name, D, pm.describe(path))
    return "lazy", D, t


def _not_earlier_guard(fi, cfg, nid, D, value):
    """a guard that dominates nid establishes `value >= self.D` (the deadline does not move backwards)"""
    for test, pol, _ in cfg.guards(nid):
        if not (isinstance(test, ast.Compare) and len(test.ops) == 1):
            continue
        l, r, op = test.left, test.comparators[0], type(test.ops[0])
        if chain(l) == D and _same_value(fi, r, value):
            op = {ast.Lt: ast.Gt, ast.Gt: ast.Lt, ast.LtE: ast.GtE, ast.GtE: ast.LtE}.get(op)
        elif not (chain(r) == D and _same_value(fi, l, value)):
            continue
        # now: value <op> self.D
        if not pol:
            op = {ast.Lt: ast.GtE, ast.GtE: ast.Lt, ast.Gt: ast.LtE, ast.LtE: ast.Gt}.get(op)
        if op in (ast.GtE, ast.Gt):
            return True
    return False


# ---------------------------------------------------------------------------
# C20.d


@R.clause("C20.d", "the lifetime timer waits lt + grace_period and then deletes; refresh cancels before re-arming; update_params arms or refreshes exactly once; delete cancels")
def d(ctx):
    prog = ctx.prog
    REG = "cli.rd.CommonRD.Registration."
    sf = prog.func(REG + "_set_timeout")
    N = Normalizer(env=norm.local_env(sf.node))
    want = Poly.atom("self.lt") + Poly.atom("self.grace_period")
    arms = []
    for call in calls_in(sf.node):
        # (the receiver may itself be a call: asyncio.get_running_loop().call_at(...))
        nm = chain(call.func) or (call.func.attr if isinstance(call.func, ast.Attribute) else "")
        if (nm.endswith("create_task") or nm.endswith("ensure_future")) and call.args:
            coro = resolve_local(sf.node, call.args[0])
            arms.append((call, "task", coro))
        elif nm.endswith("call_later") and len(call.args) >= 2:
            arms.append((call, "call_later", None))
        elif nm.endswith("call_at") and len(call.args) >= 2:
            arms.append((call, "call_at", None))
    ctx.floor("timer arming sites in _set_timeout", len(arms), 1)
    scfg = cfg_of(sf)
    delete_fi = prog.func(REG + "delete")
    lazy = None  # (deadline field, callback) when the timer callback re-checks a deadline (see the helpers above)
    for call, kind, coro in arms:
        if kind == "call_later":
            try:
                okd = N.poly(call.args[0]) == want
            except norm.NormError:
                okd = False
            ctx.ob("the timer waits lt + grace_period", okd, sf, call)
            mode, D, tgt = _timer_callback(prog, sf, call.args[1], call.args[2:], delete_fi)
            # a relative timer cannot be the first timer of the lazy design: nothing relates it to the deadline
            ctx.ob("the timer fires Registration.delete", mode == "eager", sf, call, detail=tgt if mode == "no" else None)
        elif kind == "call_at":
            # absolute time: `<loop>.time() + delay`, given directly, through locals, or through a field of the
            # registration that was assigned on the way to the call
            val, fields = _when_of(sf, scfg, call)
            dl = _delay_from_now(sf, val) if val is not None else None
            ctx.ob("the timer waits lt + grace_period", dl is not None and dl == want, sf, call, detail="fires at %s" % (stmt_text(val, 60) if val is not None else stmt_text(call.args[0], 40)))
            mode, D, tgt = _timer_callback(prog, sf, call.args[1], call.args[2:], delete_fi)
            ctx.ob("the timer fires Registration.delete", mode != "no", sf, call, detail=tgt if mode == "no" else None)
            if mode == "lazy":
                ctx.ob("the timer is armed for the very deadline its callback re-checks", D in fields, sf, call, detail="callback compares the clock with %s" % D)
                ctx.need(lazy is None or lazy == (D, tgt), "_set_timeout: timers with different deadline-checking callbacks")
                lazy = (D, tgt)
        else:
            # the task runs a coroutine function of rd.py (closure, method or module function); what it sleeps
            # for and what it calls afterwards are traced through its parameters to the arguments given here,
            # so neither the parameter order nor keyword / closure-variable spelling matters
            tgt = K.callable_target(prog, sf, coro.func) if isinstance(coro, ast.Call) else None
            ctx.need(tgt is not None and not isinstance(tgt[0].node, ast.Lambda), "_set_timeout: the task is not a call of a coroutine function of rd.py")
            inner, pre = tgt
            bound = K.bind_call(coro, inner, inner.cls is not None and not K.is_static(inner))
            ctx.need(bound is not None, "_set_timeout: star-arguments in the timer coroutine call")
            bound = dict(pre, **bound)
            ip = set(K.all_params(inner))
            icfg = cfg_of(inner)

            def at_site(x):
                """expression of the coroutine body -> the expression it denotes at the call site"""
                if isinstance(x, ast.Name) and x.id in ip and not writes_to_name(inner.node, x.id):
                    return bound.get(x.id)
                return x if not (names_in(x) & ip) else None

            sleeps = [c for c in calls_in(inner.node) if (chain(c.func) or "").split(".")[-1] == "sleep" and len(c.args) == 1]
            delays = [at_site(resolve_local(inner.node, c.args[0])) for c in sleeps]
            okd, got = bool(sleeps), []
            for dl in delays:
                try:
                    pv = N.poly(dl) if dl is not None else None
                except norm.NormError:
                    pv = None
                got.append(repr(pv))
                okd = okd and pv is not None and pv == want
            ctx.ob("the timer waits lt + grace_period", okd, sf, coro, detail="delay = %s" % ", ".join(got))
            cbs = [c for c in calls_in(inner.node) if not c.args and not c.keywords and chain(at_site(resolve_local(inner.node, c.func)) if not isinstance(c.func, ast.Attribute) else c.func) == "self.delete"]
            ctx.ob("the timer fires Registration.delete", bool(cbs), sf, coro, detail="callback argument(s): %s" % [stmt_text(v, 40) for v in bound.values()])
            oki = bool(sleeps) and bool(cbs) and inner.is_async \
                and all(isinstance(icfg.parent.get(id(s_)), ast.Await) for s_ in sleeps) \
                and all(any(icfg.dominates(icfg.loc1(s_), icfg.loc1(c)) and icfg.loc1(s_) != icfg.loc1(c) for s_ in sleeps) for c in cbs) \
                and icfg.must_pass(icfg.entry, {icfg.loc1(c) for c in cbs})
            ctx.ob("the timer coroutine sleeps for its delay and only then invokes its callback", oki, inner, inner.node, construct="async def %s" % inner.name)
        # handle stored in self.timeout
        st = [x for k, x in stores_to(sf.node, "self.timeout") if k == "assign"]
        ctx.ob("the armed timer is kept in self.timeout", any(isinstance(x, ast.Assign) and resolve_local(sf.node, x.value) is call for x in st), sf, call)
    ci = prog.cls("cli.rd.CommonRD.Registration")
    gp = ci.attrs.get("grace_period")
    try:
        gv = norm.consteval(gp) if gp is not None else None
    except norm.NormError:
        gv = None
    ctx.ob("grace_period is a non-negative constant", isinstance(gv, (int, float)) and gv >= 0, None, None, construct="Registration.grace_period = %s" % (ast.unparse(gp) if gp is not None else "?"))

    # lazy design: every writer of the deadline field keeps the invariant `the pending timer does not fire
    # later than the deadline`
    lazy_writes = {}  # function short name -> [Assign]
    if lazy is not None:
        D, tgt = lazy
        attr = D.split(".")[1]
        ctx.note("lifetime timer re-checks the deadline %s in %s: all writers of the field are examined" % (D, tgt.short))
        for f in prog.funcs.values():
            if not _in_rd(f):
                continue
            for k, x in stores_to_any(f.node, attr):
                mine = _owner_class(f) == _owner_class(sf) and k == "assign" and isinstance(x, ast.Assign) and len(x.targets) == 1 and chain(x.targets[0]) == D
                ctx.ob("the deadline of a registration is written only by plain assignments in Registration's own methods", mine, f, x)
                if not mine:
                    continue
                lazy_writes.setdefault(f.short, []).append(x)
                fcfg = cfg_of(f)
                wn = fcfg.loc1(x)
                dl = _delay_from_now(f, x.value)
                ctx.ob("the deadline is now + lt + grace_period", dl is not None and dl == want, f, x)
                arm_n = {fcfg.loc1(c) for c in _rearm_calls(prog, f, D, tgt, x.value)} - {wn}
                armed = bool(arm_n) and all(fcfg.must_pass(s_, arm_n) for s_, lbl in fcfg.succ[wn] if lbl != "exc") \
                    and not any(fcfg.loc1(y) in fcfg.reach({wn}, avoid=arm_n) for y in (_self_field_stores(f, D) or ()) if y is not x)
                if armed and f is not sf:
                    # arming outside _set_timeout (whose callers are examined below): the pending timer must be
                    # cancelled first, or two timers run and the handle of one of them is lost
                    cn = [fcfg.loc1(c) for c, _ in find("self.timeout.cancel()", f.node)]
                    ctx.ob("the pending timer is cancelled before another one is armed for a new deadline",
                           all(any(fcfg.dominates(c, a_) and c != a_ for c in cn) for a_ in arm_n), f, x, construct="%s: timeout.cancel() before call_at" % f.name)
                # not armed: the pending timer stays; it is early enough only when the deadline did not move backwards
                ok = armed or _not_earlier_guard(f, fcfg, wn, D, x.value)
                ctx.ob("a new deadline is armed, or is not earlier than the one the pending timer was armed for "
                       "(a lifetime shortened by an update must not wait for the old timer)", ok, f, x)

    # refresh_timeout
    # (a private helper of update_params: when it was inlined, the cancel-before-re-arm obligation is decided
    # at the _set_timeout() calls of update_params below)
    if prog.has_func(REG + "refresh_timeout"):
        rf = prog.func(REG + "refresh_timeout")
        rcfg = cfg_of(rf)
        cancels = [rcfg.loc1(c) for c, _ in find("self.timeout.cancel()", rf.node)]
        sets = [rcfg.loc1(c) for c, _ in find("self._set_timeout()", rf.node)]
        # lazy design: moving the deadline restarts the lifetime as well (whether the pending timer is early
        # enough for it was decided per writer above)
        moves = [rcfg.loc1(x) for x in lazy_writes.get(rf.short, ())]
        ctx.ob("refresh_timeout re-arms the timer on every normal path", bool(sets or moves) and rcfg.must_pass(rcfg.entry, set(sets) | set(moves)), rf, rf.node, construct="refresh_timeout: _set_timeout()")
        ctx.ob("refresh_timeout cancels the running timer before re-arming", bool(sets or moves) and (bool(cancels) or not sets) and all(any(rcfg.dominates(c, s) and c != s for c in cancels) for s in sets), rf, rf.node,
               construct="refresh_timeout: timeout.cancel() before _set_timeout()")

    # update_params
    up = prog.func(REG + "update_params")
    ucfg = cfg_of(up)
    upp = params(up)
    ctx.need(len(upp) == 3, "update_params signature changed")
    init_flag = upp[2]
    s_nodes = [ucfg.loc1(c) for c, _ in find("self._set_timeout()", up.node)]
    r_nodes = [ucfg.loc1(c) for c, _ in find("self.refresh_timeout()", up.node)]
    allt = set(s_nodes) | set(r_nodes) | {ucfg.loc1(x) for x in lazy_writes.get(up.short, ())}
    ctx.floor("timer calls in update_params", len(allt), 1)
    ctx.ob("every normal path of update_params arms or refreshes the lifetime timer", ucfg.must_pass(ucfg.entry, allt), up, up.node, construct="update_params: timer on every path")
    ctx.ob("no path of update_params touches the timer twice", not any(y in ucfg.reach({x}) for x in allt for y in allt), up, up.node, construct="update_params: timer at most once")
    for c, _ in find("self._set_timeout()", up.node):
        nid = ucfg.loc1(c)
        ok = any(isinstance(e, ast.Name) and e.id == init_flag and pol for e, pol, _ in ucfg.guards(nid)) and not writes_to_name(up.node, init_flag)
        # ... or the running timer is cancelled on every path to the call (refresh_timeout written inline)
        ucancels = [ucfg.loc1(x) for x, _ in find("self.timeout.cancel()", up.node)]
        ok = ok or any(ucfg.dominates(x, nid) and x != nid for x in ucancels)
        ctx.ob("an existing registration's timer is never re-armed without cancelling (plain _set_timeout only on the initial call)", ok, up, c)
    ri = prog.func(REG + "__init__")
    calls = [c for c, _ in find("self.update_params($*a, $**k)", ri.node)]
    ctx.floor("update_params call in Registration.__init__", len(calls), 1)
    for c in calls:
        b2 = Effects.bind_args(c, upp)
        v = b2.get(init_flag)
        ctx.ob("the constructor marks its update_params call as initial", isinstance(v, ast.Constant) and v.value is True, ri, c)
    dflt = up.node.args.defaults
    ctx.ob("update_params is not initial by default", bool(dflt) and isinstance(dflt[-1], ast.Constant) and dflt[-1].value is False, up, up.node, construct="update_params(%s=...)" % init_flag)

    # delete
    df = prog.func(REG + "delete")
    dcfg = cfg_of(df)
    dc = [dcfg.loc1(c) for c, _ in find("self.timeout.cancel()", df.node)]
    dd = [dcfg.loc1(c) for c, _ in find("self._delete_cb($*a)", df.node)]
    ctx.ob("delete cancels the lifetime timer on every normal path", bool(dc) and dcfg.must_pass(dcfg.entry, set(dc)), df, df.node, construct="delete: timeout.cancel()")
    ctx.ob("delete runs the delete callback on every normal path", bool(dd) and dcfg.must_pass(dcfg.entry, set(dd)), df, df.node, construct="delete: _delete_cb()")
    ctx.ob("delete is atomic (plain synchronous function)", is_plain_sync(df), df, df.node, construct="def delete")


# ---------------------------------------------------------------------------
# C20.e


@R.clause("C20.e", "lookups enumerate common_rd.get_endpoints() = _by_key.values(); links are computed from the registration's current attributes")
def e(ctx):
    prog = ctx.prog
    ge = prog.func("cli.rd.CommonRD.get_endpoints")
    rets = [n for n in walk_no_nested(ge.node) if isinstance(n, ast.Return)]
    ctx.floor("returns of get_endpoints", len(rets), 1)
    for r in rets:
        v = resolve_local(ge.node, r.value) if r.value is not None else None
        ctx.ob("get_endpoints returns exactly the values of _by_key", v is not None and match("self._by_key.values()", _strip_identity_wrappers(ge, v)) is not None, ge, r)
    for cls in ("EndpointLookupInterface", "ResourceLookupInterface"):
        fi = prog.func("cli.rd.%s.render_get" % cls)
        srcs = [c for c, _ in find("self.common_rd.get_endpoints()", fi.node, nested=True)]
        ctx.ob("%s enumerates common_rd.get_endpoints()" % cls, len(srcs) >= 1, fi, fi.node, construct="%s.render_get" % cls)
        other = []
        for n in ast.walk(fi.node):
            if isinstance(n, ast.Attribute) and chain(n.value) == "self.common_rd" and n.attr != "get_endpoints":
                other.append(n)
            if isinstance(n, ast.Attribute) and n.attr in INDEXES:
                other.append(n)
        ctx.ob("%s has no other source of registrations" % cls, not other, fi, other[0] if other else fi.node, construct=stmt_text(other[0]) if other else "%s.render_get: sources" % cls)
        # the enumeration feeds the answer: what gets paginated (any spelling of the call of rd._paginate:
        # positional / keyword arguments) derives from it through the function's def-use relation.  Pagination
        # itself is outside this property: a lookup that slices in place has no such call, and then the answer
        # it returns is what has to derive from the enumeration.
        pfi = prog.funcs.get(RDMOD + "._paginate")
        sinks = []
        for c in calls_in(fi.node):
            r = K.resolve_callee(prog, fi, c)
            if r is not None and pfi is not None and r[0] is pfi:
                b = K.bind_call(c, pfi, False)
                p0 = K.all_params(pfi)[:1]
                ctx.need(b is not None and p0 and p0[0] in b, "%s.render_get: call of _paginate with * / ** arguments" % cls)
                sinks.append(b[p0[0]])
        if not sinks:
            sinks = [n.value for n in walk_no_nested(fi.node) if isinstance(n, ast.Return) and n.value is not None]
        for s in srcs:
            st = cfg_of(fi).nodes[cfg_of(fi).loc1(s)].ast
            tgt = st.targets[0].id if isinstance(st, ast.Assign) and len(st.targets) == 1 and isinstance(st.targets[0], ast.Name) else None
            ok = bool(sinks) and all(K.contains(x, s) or (tgt is not None and _flows_from(fi, x, tgt)) for x in sinks)
            ctx.ob("%s: the paginated candidates derive from the enumeration" % cls, ok, fi, s)
    # What the two link computations evaluate is collected over everything they run on behalf of the
    # registration (K.ReceiverFlow): their own body, closures / lambdas / comprehensions, and transitively the
    # methods, properties and rd.py functions that receive the registration or a value read from it -- so a
    # per-link helper method, a module-level builder called with `self.base`, or `map(self._m, ..)` state the
    # same facts as the inline loop.  A read inside such a callee happens during the call of
    # get_host_link / get_based_links, i.e. it observes the registration's *current* attributes, which is all
    # that the obligations below require of a read in the method's own body.
    REG = "cli.rd.CommonRD.Registration."
    hl = prog.func(REG + "get_host_link")
    bl = prog.func(REG + "get_based_links")
    flows = {fi.qn: K.ReceiverFlow(prog, fi) for fi in (hl, bl)}
    want_href = _str_parts(ast.parse("'/' + '/'.join(self.path)", mode="eval").body)

    def self_reads(fi):
        return sorted(r for r in flows[fi.qn].reads if r != "self")

    RF = flows[hl.qn]
    ctx.ob("the host link is computed from the registration's current parameters, base and location",
           {"self.registration_parameters", "self.base"} <= RF.reads and ("self.href" in RF.reads or "self.path" in RF.reads), hl, hl.node,
           construct="get_host_link", detail="reads %s" % self_reads(hl))
    links = [(sc, env, c) for sc, env, c in RF.calls if (chain(c.func) or "").split(".")[-1] == "Link"]
    ctx.need(bool(links), "get_host_link: no Link(...) construction found in the method or in what it calls")
    for sc, env, c in links:
        # link_header.Link(href, attr_pairs=None, **kwargs): the target may be given positionally or by keyword;
        # `base=X` is appended to the attribute pairs as ['base', X], so a ['base', X] pair in the attr_pairs
        # argument is the same fact.  Every spelling present must denote the registration's own attribute.
        bases, o1 = K.ctor_attribute(sc, c, "base")
        hrefs, o2 = K.ctor_attribute(sc, c, "href", positional=0, pairs_param=None)
        ctx.need(not ((o1 and not bases) or (o2 and not hrefs)), "get_host_link: Link(...) built from * / ** arguments that are not displays: %s" % stmt_text(c, 80))

        def is_href(v):
            if RF.rchain(sc, env, v) == "self.href":
                return True
            # the location spelled out: the very string the href property is proved to return (below), where
            # `self` is the registration
            v = resolve_local(sc.node, v) if not isinstance(sc.node, ast.Lambda) else v
            return env.get("self") == "self" and _str_parts(v) == want_href

        ctx.ob("the host link carries base=self.base and href=self.href",
               bool(bases) and all(RF.rchain(sc, env, v) == "self.base" for v in bases) and bool(hrefs) and all(is_href(v) for v in hrefs), sc if sc.qn in prog.funcs else hl, c)
    RB = flows[bl.qn]
    ctx.ob("based links are computed from the registration's current links and base", "self.links.links" in RB.reads and "self.base" in RB.reads, bl, bl.node, construct="get_based_links",
           detail="reads %s" % self_reads(bl))
    for fi in (hl, bl):
        # "no cached copy": nothing that outlives the call is stored to.  A store onto an object created in this
        # very call (K.Freshness, the analysis of C20.h) only fills in the result; every other attribute / item
        # store or delete -- in the method or in anything it runs -- would keep state between lookups.
        FR = K.Freshness(prog)
        FR.analyse(fi)
        for u in flows[fi.qn].units:
            if u.qn in prog.funcs and u.qn not in {k[0] for k in FR.done}:
                FR.analyse(u)
        st = [(bfi, n) for bfi, n, why in FR.bad if why.startswith("store through")]
        ctx.ob("%s keeps no cached copy (no stores to objects that outlive the call)" % fi.name, not st, st[0][0] if st else fi, st[0][1] if st else fi.node,
               construct=stmt_text(st[0][1]) if st else "%s: stores" % fi.name)
    ci = prog.cls("cli.rd.CommonRD.Registration")
    hf = ci.methods.get("href")
    ctx.need(hf is not None, "Registration.href missing")
    hr = [n for n in walk_no_nested(hf.node) if isinstance(n, ast.Return) and n.value is not None]
    ctx.ob("href is '/' + '/'.join(self.path)", len(hr) == 1 and _str_parts(resolve_local(hf.node, hr[0].value)) == want_href, hf, hr[0] if hr else hf.node)


def _strip_identity_wrappers(fi, v):
    """Drop wrappers that enumerate exactly the same elements: list(x), tuple(x), iter(x), and a
    comprehension / generator `[r for r in x]` without filter whose element is its variable."""
    for _ in range(4):
        if isinstance(v, ast.Name):
            v = resolve_local(fi.node, v)
        if isinstance(v, ast.Call) and chain(v.func) in ("list", "tuple", "iter") and len(v.args) == 1 and not v.keywords:
            v = v.args[0]
        elif isinstance(v, (ast.ListComp, ast.GeneratorExp)) and len(v.generators) == 1 and not v.generators[0].ifs and isinstance(v.elt, ast.Name) \
                and isinstance(v.generators[0].target, ast.Name) and v.generators[0].target.id == v.elt.id:
            v = v.generators[0].iter
        else:
            break
    return v


def _flows_from(fi, e, src, depth=0):
    """Does expression e (transitively through reassignments of locals) mention local `src`?"""
    seen = set()
    todo = [n for n in names_in(e)]
    while todo:
        nm = todo.pop()
        if nm == src:
            return True
        if nm in seen:
            continue
        seen.add(nm)
        for w in writes_to_name(fi.node, nm):
            if isinstance(w, (ast.Assign, ast.AugAssign, ast.AnnAssign, ast.NamedExpr)) and w.value is not None:
                todo.extend(names_in(w.value))
            elif isinstance(w, (ast.For, ast.AsyncFor)):
                todo.extend(names_in(w.iter))
            elif isinstance(w, (ast.With, ast.AsyncWith)):
                for it in w.items:
                    todo.extend(names_in(it.context_expr))
        # what is put into the container the name refers to (loop + append instead of a comprehension)
        for c in walk_no_nested(fi.node):
            if isinstance(c, ast.Call) and isinstance(c.func, ast.Attribute) and isinstance(c.func.value, ast.Name) and c.func.value.id == nm and c.func.attr in MUT:
                for a in list(c.args) + [k.value for k in c.keywords]:
                    todo.extend(names_in(a))
    return False


# ---------------------------------------------------------------------------
# C20.f

RESERVED = ("ep", "d", "page", "count", "href", "anchor", "rt")


def _self_effects(prog, fi, depth=0, seen=None):
    """CFG nodes of fi that store to / mutate an attribute of `self`, touch the lifetime timer or run a
    callback held by the registration.  A call `self.m(...)` of a method defined in rd.py counts only when
    m (transitively) has such an effect; every other `self.<x>(...)` (constructor-bound callbacks, timer
    methods) counts as an effect.  Receivers are resolved through single-assignment aliases."""
    seen = seen if seen is not None else set()
    if fi.qn in seen or depth > 4:
        return [None]  # recursion: assume an effect
    seen = seen | {fi.qn}
    cfg = cfg_of(fi)

    def self_attr(e):
        e = _strip_subscripts(e)
        if isinstance(e, ast.Name) and e.id != "self":
            e = _strip_subscripts(resolve_local(fi.node, e))
        return isinstance(e, ast.Attribute) and chain(e.value) == "self"

    out = []
    for nd in cfg.nodes:
        if nd.kind not in ("stmt", "test", "return", "with", "for") or not cfg.is_reachable(nd.id):
            continue
        hit = False
        for root in _node_roots(nd):
            for n in walk_no_nested(root):
                if isinstance(n, (ast.Assign, ast.AugAssign, ast.AnnAssign, ast.Delete)):
                    tg = n.targets if isinstance(n, (ast.Assign, ast.Delete)) else [n.target]
                    for t in tg:
                        for tt in (t.elts if isinstance(t, (ast.Tuple, ast.List)) else [t]):
                            if isinstance(tt, (ast.Attribute, ast.Subscript)) and self_attr(tt):
                                hit = True
                            elif isinstance(tt, ast.Subscript) and isinstance(_strip_subscripts(tt), ast.Name) and self_attr(_strip_subscripts(tt)):
                                hit = True
                if isinstance(n, ast.Call) and isinstance(n.func, ast.Attribute) and not is_log_call(n):
                    recv = _strip_subscripts(n.func.value)
                    if chain(recv) == "self":
                        if n.func.attr in ("get",):
                            continue
                        m = prog.lookup_method(REGQN, n.func.attr) if _owner_class(fi) == REGQN else None
                        if m is not None and _in_rd(m) and m.name not in TIMER_METHODS:
                            if _self_effects(prog, m, depth + 1, seen):
                                hit = True
                        else:
                            hit = True  # timer method or constructor-bound callback
                    elif n.func.attr in MUT | {"cancel"} and self_attr(recv):
                        hit = True
        if hit:
            out.append(nd)
    return out


def _raised_class(prog, fi, st):
    """Qualified class name a `raise X(...)` / `raise X` statement raises, or None."""
    if st.exc is None:
        return None
    e = st.exc.func if isinstance(st.exc, ast.Call) else st.exc
    txt = chain(e)
    if not txt:
        return None
    return Codes(prog).canon(prog.resolve_in_module(fi.module, txt))


def _only_4xx_ends(prog, ka, depth=0):
    """Under the assumption of `ka` every non-exceptional way out of the function is a `raise` of a
    4.xx RenderableError (directly, or in a helper that received the dict and never completes)."""
    raises, rets, falls, cuts = ka.normal_ends()
    if rets or falls or not (raises or cuts) or depth > 3:
        return False
    codes = Codes(prog)
    for nd in raises:
        q = _raised_class(prog, ka.fi, nd.ast)
        if q is None or not codes.is_4xx(q):
            return False
    for nd in cuts:
        subs = [K.KeyAssume.of(prog, cq[0], cq[1], ka.key, ka.depth + 1) for call in K._unconditional_calls(nd.ast) for cq in [ka._callee_with_q(call)] if cq is not None]
        subs = [s for s in subs if s.usable and not s.completes()]
        if not subs or not all(_only_4xx_ends(prog, s, depth + 1) for s in subs[:1]):
            return False
    return True


@R.clause("C20.f", "update_params refuses ep, d and the reserved lookup parameters before any store")
def f(ctx):
    """Decided by partial evaluation (K.KeyAssume): for every reserved name k, assume `k in
    registration_parameters` at entry, discard the branch outcomes that contradict the assumption
    (membership tests in every spelling, any()/all() over the keys, set intersections, loops over the
    reserved names or over the keys whose iteration for k cannot complete, helpers that receive the
    dictionary) and require that no store / timer call / callback remains reachable, and that every
    remaining non-exceptional way out is a 4.xx raise."""
    prog = ctx.prog
    fi = prog.func("cli.rd.CommonRD.Registration.update_params")
    cfg = cfg_of(fi)
    p = params(fi)
    ctx.need(len(p) == 3, "update_params signature changed")
    qparam = p[1]
    ctx.need(not writes_to_name(fi.node, qparam), "update_params rebinds its parameter dictionary")
    effects = [nd for nd in _self_effects(prog, fi) if nd is not None]
    ctx.floor("stores and effect calls in update_params", len(effects), 4)
    for k in RESERVED:
        ka = K.KeyAssume.of(prog, fi, qparam, k)
        live = ka.reachable()
        bad = [nd for nd in effects if nd.id in live]
        if bad and not ka.avoid() and not ka.cut() and not ka._invalid():
            # nothing at all was decided by the assumption.  If the function never mentions the name, the
            # parameter is simply not refused (violation below); if it does, it is tested in a way this rule
            # cannot interpret (e.g. through a flag variable): fail closed instead of guessing
            mentions = [n for n in ast.walk(fi.node) if (isinstance(n, ast.Constant) and n.value == k)
                        or (isinstance(n, (ast.Name, ast.Attribute)) and k in (K.const_strs(prog, fi, n) or ()))]
            ctx.need(not mentions, "update_params mentions parameter name %r (%s) but no branch outcome follows from its presence in the "
                     "parameter dictionary: test not interpretable" % (k, stmt_text(mentions[0], 40) if mentions else ""))
        ctx.ob("a request carrying parameter %r is refused before update_params stores anything" % k, not bad, fi, _node_construct(bad[0]) if bad else fi.node,
               construct=("unguarded: " + stmt_text(_node_construct(bad[0]), 80)) if bad else "update_params refuses %r" % k,
               detail="%d unprotected effect(s)" % len(bad) if bad else "decided by: %s" % "; ".join(sorted({stmt_text(_node_construct(n), 50) for n in ka.refuting()}))[:200])
        if not bad:
            ctx.ob("the refusal of %r is a 4.xx error" % k, _only_4xx_ends(prog, ka), fi, fi.node, construct="refusal of %r" % k)


# ---------------------------------------------------------------------------

@R.clause("C20.g", "a replaced registration is deleted (its lifetime timer cancelled) before the new one takes over its key and location")
def g_replacement(ctx):
    """Added after an independently written breaking change overwrote the table entries of a re-registered endpoint
    without calling the old registration's delete(): its lifetime task stayed armed and, on firing, removed the
    live re-registration.  Necessary condition: in initialize_endpoint every non-exceptional path from the entry
    to the insertion of the new registration under its key either calls delete() on the registration that was
    looked up under that key, or passes a branch outcome that establishes that no registration exists under the
    key (`_absence_fact`: KeyError handler of `_by_key[key]`, `key not in _by_key`, `<looked-up> is None`, in any
    spelling and nesting)."""
    prog = ctx.prog
    fi = prog.func("cli.rd.CommonRD.initialize_endpoint")
    cfg = cfg_of(fi)
    ins_k, _, _ = _index_ops(fi, "_by_key")
    ctx.floor("insertions into _by_key", len(ins_k), 1)
    keys = [dump(resolve_local(fi.node, k)) for _, k, _ in ins_k]
    looks = [n for n in walk_no_nested(fi.node) if isinstance(n, (ast.Subscript, ast.Call)) and isinstance(getattr(n, "ctx", ast.Load()), ast.Load) and _by_key_read(fi, n, keys)]
    looks += [n for n in walk_no_nested(fi.node) if isinstance(n, ast.Compare) and (lambda a: a is not None and dump(resolve_local(fi.node, a[0])) in keys)(K.absent_test(fi, n, "self._by_key"))]
    ctx.ob("initialize_endpoint looks the endpoint's key up in _by_key", len(looks) >= 1, fi, looks[0] if looks else fi.node, construct="initialize_endpoint: lookup of the existing registration")
    # delete() on the looked-up registration
    dels = []
    for c in calls_in(fi.node):
        if not (isinstance(c.func, ast.Attribute) and c.func.attr == "delete" and not c.args):
            continue
        recv = c.func.value
        nid = cfg.loc1(c)
        if isinstance(recv, ast.Name):
            defs = [o for o in reaching_defs(fi, recv.id, nid) if not (isinstance(o, ast.Assign) and isinstance(o.value, ast.Constant) and o.value.value is None)]
            if defs and recv.id not in params(fi) and all(isinstance(o, ast.Assign) and len(o.targets) == 1 and _by_key_read(fi, o.value, keys) for o in defs):
                dels.append(nid)
        elif _by_key_read(fi, recv, keys):
            dels.append(nid)
    absent = set(_keyerror_handlers(fi, cfg, keys))
    for n in cfg.nodes:
        if n.kind in ("T", "F") and n.ast is not None and not isinstance(n.ast, (ast.For, ast.AsyncFor)):
            at = cfg.locate(n.ast)
            if at and _absence_fact(prog, fi, cfg, n.ast, n.kind == "T", at[0], keys):
                absent.add(n.id)
    live = cfg.reach({cfg.entry}, avoid=set(dels) | absent, skip_labels=("exc",), include_src=True)
    for i_, _, _ in ins_k:
        ctx.ob("when the endpoint is already registered, the old registration is deleted before the new one is entered under its key", bool(dels) and cfg.loc1(i_) not in live, fi, i_,
               detail="%d delete() site(s) on the old registration, %d branch outcome(s) establish that none exists" % (len(dels), len(absent)))


@R.clause("C20.h", "lookups only read: the link computations never mutate a container owned by a registration")
def h_readonly(ctx):
    """Added after an independently written breaking change let get_based_links append the computed anchor to
    `link.attr_pairs` itself (an alias instead of a copy): every resource lookup then changed the stored links, which
    later lookups (after a base change) and GETs of the registration reflected.  Necessary condition: in the two link
    computations -- including their closures, lambdas, comprehensions and the rd.py functions they call -- every
    in-place mutation (mutating method, item / attribute store or delete, `x += [..]`) acts on an object created
    in that call (K.Freshness).  A computation without any in-place mutation satisfies this trivially."""
    total = 0
    for short in ("cli.rd.CommonRD.Registration.get_based_links", "cli.rd.CommonRD.Registration.get_host_link"):
        fi = ctx.prog.func(short)
        FR = K.Freshness(ctx.prog)
        FR.analyse(fi)
        # ... and what runs without being called by name here: a bound method / function of the program passed
        # on as a value (`map(self._m, xs)`), a property of the registration (K.ReceiverFlow); their parameters
        # are not known to be fresh
        RF = K.ReceiverFlow(ctx.prog, fi)
        for u in RF.units:
            if u.qn in ctx.prog.funcs and u.qn not in {k[0] for k in FR.done}:
                FR.analyse(u)
        total += FR.sites
        for bfi, node, why in FR.bad:
            ctx.ob("a lookup computes its links without modifying what the registration stores", False, bfi, node, detail="%s: the mutated object is not known to be created in this call" % why)
        if not FR.bad:
            ctx.ob("%s mutates only containers it created itself" % fi.name, True, fi, fi.node, construct=fi.name, detail="%d in-place mutation site(s) in %d function(s)" % (FR.sites, len(FR.done)))
        ctx.need(any(r.startswith("self.") for r in RF.reads), "%s no longer reads the registration" % fi.name)
    ctx.note("%d in-place mutation site(s) in the link computations" % total)


@R.clause("C20.i", "the link-format serialiser keeps empty attribute values: an attribute is written without '=value' only when its value is None")
def i_linkformat(ctx):
    """Added after an independently written breaking change tested `not value` instead of `value is None` in
    util.linkformat.Link.__str__: parameters written as `tag=` came back from lookups as the value-less flag `tag`.
    Decided on every place where Link.__str__ (or a closure / lambda / method / module function it uses) renders
    one (key, value) element of self.attr_pairs (K.pair_contexts: loop, comprehension, pair formatter called with
    the pair, map / starmap).  The region is executed abstractly path by path (K.PairRendering): every local
    carries which of key / value it is computed from (so `escaped = value.replace(..)` IS the value, and
    `item = key` followed by a conditional `item += ...` is followed to where `item` is emitted), and every
    emission is seen with the branch outcomes, conditional-expression tests, comprehension filters and match
    cases under which it is reached.  An emission computed from the key but not from the value is the
    value-less form; the conditions it is reached under must be unsatisfiable for every string value
    (K.only_for_none: three-valued evaluation for the empty and a non-empty string, any spelling)."""
    outer = ctx.prog.func("util.linkformat.Link.__str__")
    ctxs = K.pair_contexts(ctx.prog, outer)
    ctx.need(bool(ctxs), "Link.__str__: no place found where the (key, value) pairs of self.attr_pairs are rendered")
    bare = []
    for pc in ctxs:
        for unit, conds in K.valueless_emissions(pc):
            bare.append((pc.scope or outer, unit, pc, conds))
    ctx.ob("the value-less form exists (flags such as `obs`)", bool(bare), outer, outer.node, construct="Link.__str__ pair formatter")
    for scope, unit, pc, conds in bare:
        ctx.ob("the value-less form is chosen exactly for the value None (an empty string keeps its `=\"\"`)", K.only_for_none(conds, pc), scope, unit,
               detail="conditions: %s" % [(stmt_text(e, 40), p) for e, p in conds])


class _OnlyIn:
    """A view of the clause context that records only the obligations pinned to one function (everything else --
    need / floor / note / extra, the clause id -- is the context's own)."""

    def __init__(self, ctx, short):
        self.__dict__["_ctx"] = ctx
        self.__dict__["_short"] = short
        self.__dict__["kept"] = 0
        self.__dict__["dropped"] = 0

    def __getattr__(self, name):
        return getattr(self._ctx, name)

    def __setattr__(self, name, value):
        setattr(self._ctx, name, value)

    def ob(self, desc, ok, fi=None, node=None, detail=None, construct=None):
        if fi is not None and fi.short == self._short:
            self.__dict__["kept"] += 1
            return self._ctx.ob(desc, ok, fi, node, detail=detail, construct=construct)
        self.__dict__["dropped"] += 1
        return ok


@R.clause("C20.j", "a lookup that spans several blocks is one snapshot of the directory, taken when it begins: a request without Block2 or for block 0 is rendered afresh, later blocks are cut from that rendering (shared with C06.f)")
def j_shared(ctx):
    """Lookups reach the client through the server-side block-wise layer (interfaces.Resource._render_to_pipe ->
    Block2Cache.extract_or_insert(request, lambda: self.render(request))).  An independently written breaking change
    answered a request that names block 0 explicitly (early block size negotiation) from the rendering stored for an
    earlier lookup of the same client and query: the second lookup listed an endpoint that had been removed in
    between and missed the one registered in between.  "Lookups list exactly the endpoints that are live" therefore
    needs, of extract_or_insert, that
      * render_get runs for every request that begins a retrieval (no Block2 option, or block number 0) -- the
        listing is computed from the tables as they are *now*, never taken from the cache;
      * it runs for no other request, a later block is cut from the rendering stored under this request's own
        transfer key, and a rendering that needs several blocks is stored under that key -- the blocks a client
        puts together are all slices of the one listing made when its lookup began, not a mixture of directory
        states (an endpoint on a block boundary would be listed twice or not at all) nor somebody else's listing.
    These are the obligations C06.f decides on Block2Cache.extract_or_insert (path by path, over every spelling of
    the Block2 tests); they are run here, not restated.  Only the obligations pinned to extract_or_insert -- from
    which rendering an answer is taken -- are recorded under this id: how a block is cut out of a rendering
    (Message._extract_block: offsets, more-flag) and which error classes may escape are the block-wise layer's own
    affair (C06) and no condition of C20.  A refusal of C06.f is a refusal here."""
    from . import c06
    view = _OnlyIn(ctx, "blockwise.Block2Cache.extract_or_insert")
    c06.f(view)
    ctx.floor("obligations of C06.f on Block2Cache.extract_or_insert", view.kept, 3)
    ctx.note("%d obligation(s) of C06.f recorded, %d on other functions left to C06" % (view.kept, view.dropped))


@R.clause("C20.k", "the links a registration stores are the links that were written: the parser's result reaches the registration with every link, its target and every attribute pair (repeated attribute names included)")
def k_links_complete(ctx):
    """Added after an independently written breaking change rebuilt the parsed links as `Link(href, **dict(attrs))`:
    going through a mapping keyed by the attribute name silently collapses an attribute that occurs more than once
    in a link (legal for hreflang and extension attributes) to its last value, so resource lookups no longer showed
    the links of the latest write and `?hreflang=en` no longer found them.

    Necessary condition: what util.linkformat.parse returns -- and what cli.rd.link_format_from_message hands to the
    request handlers -- is a LinkHeader object with one Link per link of the vendored parser's result, in order,
    each with that link's target and *all* of its attribute pairs.  Decided by abstract interpretation
    (K.LinkFlow): the code is evaluated over abstract link-format values (header object, sequence with one element
    per parsed link / per parsed pair, [key, value] display, mapping keyed by the attribute name, ...).  The result
    may be the parser's own object (re-classed in place, as today) or a rebuilt one -- comprehension, loop +
    append, map(), helper function, Link(href, pairs) / Link(*item) / Link(href=.., attr_pairs=..),
    LinkFormat(links) / LinkFormat(data.to_py()): the constructors and methods are not tabulated, their bodies in
    the analysed tree are evaluated by the same interpreter.  Reported as a violation only when elements are
    provably dropped: the pairs pass through a mapping keyed by the attribute name (dict(), OrderedDict, dict
    comprehension, **kwargs), a slice with constant bounds, an in-place removal, or a filter for which a witness
    document exists (the condition is evaluated on sample targets / names / values, None included).  Anything the
    interpreter cannot follow is a refusal, not a finding.

    The same evaluation states two lemmas the lookups rely on as much as the parser does (get_based_links and the
    lookup interfaces build their answers with these constructors): Link(href, pairs) keeps the target and every
    pair it is given, LinkFormat(links) keeps every link."""
    prog = ctx.prog
    LFMOD = "aiocoap.util.linkformat"
    refused = []
    seen_nodes = set()

    def judge(desc, fi, d, ok_construct, node=None):
        if d is None:
            ctx.ob(desc, True, fi, node if node is not None else fi.node, construct=ok_construct)
        elif d[0] == "loss":
            reason, lnode, lfi = d[1]
            if id(lnode) not in seen_nodes:
                seen_nodes.add(id(lnode))
                ctx.ob(desc, False, lfi or fi, lnode, detail=reason)
        else:
            refused.append("%s: %s" % (fi.short, d[1]))

    # lemmas: the constructors
    link_cls = prog.cls("util.linkformat.Link").qn
    hdr_cls = prog.cls("util.linkformat.LinkFormat").qn
    done = set()
    for cq in (link_cls, K.LinkFlow.LNK):
        init = prog.lookup_method(cq, "__init__")
        ctx.need(init is not None, "no constructor found for %s" % cq)
        if init.qn in done:
            continue
        done.add(init.qn)
        lf = K.LinkFlow(prog)
        for how in ("positional", "keyword"):
            pn = K.all_params(init)
            ctx.need(len(pn) >= 3, "Link.__init__ signature changed")
            if how == "positional":
                o = lf.construct(cq, [K.Atom("href"), lf.pairs()], {})
            else:
                o = lf.construct(cq, [], {pn[1]: K.Atom("href"), pn[2]: lf.pairs()})
            judge("Link(href, attr_pairs) keeps the target and every attribute pair it is given", init, lf.defect(o, "link"), "%s.__init__ (%s arguments)" % (cq.split(".")[-1], how))
    done = set()
    for cq in (hdr_cls, K.LinkFlow.HDR):
        init = prog.lookup_method(cq, "__init__")
        ctx.need(init is not None, "no constructor found for %s" % cq)
        if init.qn in done:
            continue
        done.add(init.qn)
        lf = K.LinkFlow(prog)
        o = lf.construct(cq, [K.Seq(lf.link(link_cls), ("links",))], {})
        judge("LinkFormat(links) keeps every link it is given", init, lf.defect(o, "header"), "%s.__init__" % cq.split(".")[-1])

    # the parser wrapper and the function the request handlers obtain their links from
    pf = prog.func("util.linkformat.parse")
    mf = prog.func("cli.rd.link_format_from_message")
    for fi, desc in ((pf, "parse() returns every link of the parser's result with its target and all of its attribute pairs"),
                     (mf, "link_format_from_message hands the parsed links on unabridged")):
        lf = K.LinkFlow(prog)
        ctx.need(lf.reaches_source(fi), "%s no longer obtains its links from the vendored link_header.parse" % fi.short)
        judge(desc, fi, lf.defect(lf.result_of(fi), "header"), "%s: result" % fi.name)
    if refused:
        raise AnalysisError("; ".join(refused))


F = "aiocoap/cli/rd.py"
# C20.a
R.seed("C20.a", F, "                self.lt = set_lt\n", "                self.lt = set_lt\n                if set_lt < 60:\n                    raise error.BadRequest(\"lt too small\")\n", "raise after self.lt = ... on a published registration")
R.seed("C20.a", F, "        links = link_format_from_message(request)\n\n        self._update_params(request)\n        self.reg.links = links\n",
       "        self._update_params(request)\n        links = link_format_from_message(request)\n        self.reg.links = links\n", "PUT parses its body after updating the parameters")
R.seed("C20.a", F, "        self.reg.delete()\n", "        self.reg.delete()\n        if request.payload:\n            raise error.BadRequest(\"DELETE with a body\")\n", "4.00 after the registration was deleted")
R.seed("C20.a", F, "            path = oldreg.path[len(self.entity_prefix) :]\n\n", "            path = oldreg.path[len(self.entity_prefix) :]\n            oldreg.delete()\n\n", "F9 re-introduced (applies to the repaired tree)")
R.seed("C20.a", F, "        if request.opt.content_format is not None or request.payload:\n            raise error.BadRequest(\"Registration update with body not specified\")\n\n        self._update_params(request)\n",
       "        self._update_params(request)\n\n        if request.opt.content_format is not None or request.payload:\n            raise error.BadRequest(\"Registration update with body not specified\")\n", "F10 re-introduced (applies to the repaired tree)")
R.seed("C20.a", F, "        regresource.links = links\n", "        regresource.links = links\n        if not links.links:\n            raise error.BadRequest(\"empty registration\")\n", "4.00 after the endpoint was registered")
R.seed("C20.a", F, "            if is_initial:\n                self._set_timeout()\n            else:\n                self.refresh_timeout()\n",
       "            if is_initial:\n                self._set_timeout()\n            else:\n                self.refresh_timeout()\n            if self.lt > 4294967295:\n                raise error.BadRequest(\"lt out of range\")\n", "4.00 after the timer of a registration under construction was armed")
# C20.b
R.seed("C20.b", F, "            del self._by_path[path]\n", "", "delete callback leaves the location entry behind")
R.seed("C20.b", F, "        self._by_path[path] = reg\n", "", "registration inserted into one index only")
R.seed("C20.b", F, "        entity = RegistrationResource(entity)\n", "        self.common_rd._by_path.pop(request.opt.uri_path + (\"\",), None)\n        entity = RegistrationResource(entity)\n", "foreign writer of _by_path")
R.seed("C20.b", F, "            del self._by_key[key]\n", "            del self._by_key[(ep, None)]\n", "delete callback removes another key")
R.seed("C20.b", F, "            self._update_cb()\n            self._delete_cb()\n", "            self._update_cb()\n", "Registration.delete no longer runs the delete callback")
# C20.c
R.seed("C20.c", F, "        key = (ep, d)\n", "        key = (ep,)\n", "sector no longer part of the key")
R.seed("C20.c", F, "            path = oldreg.path[len(self.entity_prefix) :]\n", "            path = self._new_pathtail()\n", "re-registration moves to a fresh location")
R.seed("C20.c", F, "            if path not in self._by_path:\n                return path", "            if path not in self._by_key:\n                return path", "freshness tested against the wrong table")
R.seed("C20.c", F, "            self.entity_prefix + path,\n", "            path,\n", "registration path lacks the entity prefix")
R.seed("C20.c", F, "            path = oldreg.path[len(self.entity_prefix) :]\n", "            path = oldreg.path[1 + len(self.entity_prefix) :]\n", "reused tail cut at the wrong offset")
# C20.d
R.seed("C20.d", F, "            delay = self.lt + self.grace_period\n", "            delay = self.lt\n", "lifetime without grace period")
R.seed("C20.d", F, "        def refresh_timeout(self):\n            self.timeout.cancel()\n", "        def refresh_timeout(self):\n", "old timer keeps running after a refresh")
R.seed("C20.d", F, "        def delete(self):\n            self.timeout.cancel()\n", "        def delete(self):\n", "timer survives the deletion")
R.seed("C20.d", F, "            else:\n                self.refresh_timeout()\n", "            else:\n                pass\n", "updates no longer extend the lifetime")
R.seed("C20.d", F, "                await asyncio.sleep(delay)\n                callback()\n", "                callback()\n                await asyncio.sleep(delay)\n", "callback before the wait")
R.seed("C20.d", F, "                longwait(delay, self.delete),", "                longwait(delay, self._update_cb),", "expiry does not delete")
# C20.e
R.seed("C20.e", F, "        return self._by_key.values()\n", "        return [r for r in self._by_key.values() if r.lt > 60]\n", "lookups filtered by an extra condition")
R.seed("C20.e", F, "href=self.href, attr_pairs=attr_pairs, base=self.base, rt=\"core.rd-ep\"", "href=self.href, attr_pairs=attr_pairs, base=None, rt=\"core.rd-ep\"", "host link without the registration base")
R.seed("C20.e", F, "        eps = self.common_rd.get_endpoints()\n", "        eps = self.common_rd._by_path.values()\n", "resource lookup reads another table")
# C20.f
R.seed("C20.f", F, "if any(k in (\"ep\", \"d\") for k in registration_parameters.keys()):", "if any(k in (\"ep\",) for k in registration_parameters.keys()):", "sector may be overwritten by an update")
R.seed("C20.f", F, "k in (\"page\", \"count\", \"rt\", \"href\", \"anchor\")", "k in (\"page\", \"rt\", \"href\", \"anchor\")", "count accepted as registration parameter")

R.seed("C20.g", F, "        if oldreg is not None:\n            oldreg.delete()\n            if proxy_host is not None:\n                # The old registration's deletion dropped the shared entry\n                setproxyremote(network_remote)\n", "", "old registration's timer left armed: it later deletes the live re-registration")
R.seed("C20.g", F, "        if oldreg is not None:\n            oldreg.delete()\n", "        if oldreg is not None and proxy_host is not None:\n            oldreg.delete()\n", "old registration deleted only for proxied endpoints")

R.seed("C20.h", F, "                    data = link.attr_pairs + [[\"anchor\", urljoin(href, \"/\")]]", "                    data = link.attr_pairs\n                    data.append([\"anchor\", urljoin(href, \"/\")])", "lookup appends to the registration's stored attribute list")
R.seed("C20.i", "aiocoap/util/linkformat.py", "            if value is None:\n                return key", "            if not value:\n                return key", "empty attribute values serialised as value-less flags")

# seeds for the generalised (semantic) clause forms
R.seed("C20.f", F, "if any(k in (\"ep\", \"d\") for k in registration_parameters.keys()):", "if not is_initial and any(k in (\"ep\", \"d\") for k in registration_parameters.keys()):", "ep / d only refused on updates: the refusal no longer follows from the parameter's presence")
R.seed("C20.f", F, "                raise error.BadRequest(\"Unsuitable parameter for registration\")\n", "                raise error.InternalServerError(\"Unsuitable parameter for registration\")\n", "reserved lookup parameters answered with 5.00 instead of 4.xx")
R.seed("C20.c", F, "            if path not in self._by_path:\n                return path", "            if path not in self._by_path or i > 9999:\n                return path", "a used location is handed out once the counter is large")
R.seed("C20.h", F, "                    data = link.attr_pairs + [[\"anchor\", urljoin(href, \"/\")]]", "                    data = link.attr_pairs\n                    data += [[\"anchor\", urljoin(href, \"/\")]]", "lookup extends the registration's stored attribute list in place (+=)")
R.seed("C20.i", "aiocoap/util/linkformat.py", "            if value is None:\n                return key", "            if value is None or value == \"\":\n                return key", "empty string treated like a missing value")
R.seed("C20.b", F, "            del self._by_path[path]\n            del self._by_key[key]\n", "            del self._by_path[path]\n            self._by_key.pop((ep, None), None)\n", "delete callback pops another key (pop spelling)")

# third pass: seeds for the generalised C20.a (helpers of the handlers are optional, branches with a fixed
# outcome are pruned, reflective stores, `finally`) and for the path-by-path C20.i evaluator
R.seed("C20.a", F, "        self._update_params(request)\n        self.reg.links = links\n", "        self.reg.links = links\n        self._update_params(request)\n", "PUT replaces the links before the query parameters are validated")
R.seed("C20.a", F,
       "    def _update_params(self, msg):\n        query = query_split(msg)\n        self.reg.update_params(msg.remote, query)\n\n    async def render_post(self, request):\n        if request.opt.content_format is not None or request.payload:\n            raise error.BadRequest(\"Registration update with body not specified\")\n\n        self._update_params(request)\n\n        return aiocoap.Message(code=aiocoap.CHANGED)\n\n    async def render_put(self, request):\n        # this is not mentioned in the current spec, but seems to make sense\n        links = link_format_from_message(request)\n\n        self._update_params(request)\n        self.reg.links = links\n\n        return aiocoap.Message(code=aiocoap.CHANGED)\n",
       "    def _update_params(self, msg, links=None):\n        if links is not None:\n            self.reg.links = links\n        self.reg.update_params(msg.remote, query_split(msg))\n        return aiocoap.Message(code=aiocoap.CHANGED)\n\n    async def render_post(self, request):\n        if request.opt.content_format is not None or request.payload:\n            raise error.BadRequest(\"Registration update with body not specified\")\n\n        return self._update_params(request)\n\n    async def render_put(self, request):\n        return self._update_params(request, links=link_format_from_message(request))\n",
       "POST and PUT folded into a shared helper that stores the links it is given before the query is validated")
R.seed("C20.a", F, "        self._update_params(request)\n        self.reg.links = links\n", "        try:\n            self._update_params(request)\n        finally:\n            self.reg.links = links\n", "links replaced in a finally block: also when the update was refused")
R.seed("C20.a", F, "        self._update_params(request)\n        self.reg.links = links\n", "        setattr(self.reg, \"links\", links)\n        self._update_params(request)\n", "links replaced through setattr before the validation")
R.seed("C20.i", "aiocoap/util/linkformat.py",
       "            if value is None:\n                return key\n",
       "            suffix = '' if value is None or not value.strip() else '=\"%s\"' % value\n            if not suffix:\n                return key\n",
       "blank values lose their `=` (decided through a derived local)")

# fourth pass: C20.e decided over everything the link computations run (K.ReceiverFlow), not over the method body
R.seed("C20.e", F,
       "            return Link(\n                href=self.href, attr_pairs=attr_pairs, base=self.base, rt=\"core.rd-ep\"\n            )\n",
       "            return self._host_link(attr_pairs, self.proxy_host)\n\n        def _host_link(self, pairs, base):\n            try:\n                return Link(href=self.href, attr_pairs=pairs, base=base, rt=\"core.rd-ep\")\n            finally:\n                pass\n",
       "host link built in a helper method that is handed another attribute as base")
R.seed("C20.e", F,
       "            return Link(\n                href=self.href, attr_pairs=attr_pairs, base=self.base, rt=\"core.rd-ep\"\n            )\n",
       "            return Link(self.href, attr_pairs + [[\"base\", self.proxy_host], [\"rt\", \"core.rd-ep\"]])\n",
       "base given as an attribute pair, but not the registration's base")
R.seed("C20.e", F,
       "            result = []\n            for link in self.links.links:\n                href = urljoin(self.base, link.href)\n",
       "            return LinkFormat(list(map(self._based_link, self.links.links)))\n\n        def _based_link(self, link):\n            self._last_resolved = link\n            result = []\n            for link in [link]:\n                href = urljoin(self.base, link.href)\n",
       "per-link helper (passed on as a bound method, never called by name) keeps state on the registration")
R.seed("C20.e", F,
       "                result.append(Link(href, data))\n            return LinkFormat(result)\n",
       "                result.append(Link(href, data))\n            self._based = LinkFormat(result)\n            return self._based\n",
       "based links kept on the registration")
R.seed("C20.e", F,
       "        candidates = _paginate(candidates, query)\n\n        result = [c.get_host_link() for c in candidates]\n",
       "        candidates = _paginate(query=query, candidates=self._previous)\n\n        result = [c.get_host_link() for c in candidates]\n",
       "endpoint lookup paginates something that does not derive from the enumeration (keyword call)")

# fifth pass: the block-wise layer between a lookup and its client (C20.j, shared with C06.f) and the way from the
# parser to the registration (C20.k, K.LinkFlow)
F_BW = "aiocoap/blockwise.py"
F_LF = "aiocoap/util/linkformat.py"
F_LH = "aiocoap/util/vendored/link_header.py"
R.seed("C20.j", F_BW, "        if req.opt.block2 is None or req.opt.block2.block_number == 0:\n            assembled = await response_builder()\n",
       "        if req.opt.block2 is None:\n            assembled = await response_builder()\n", "a lookup that names block 0 explicitly is answered from the cache (or 4.08) instead of being rendered")
R.seed("C20.j", F_BW, "            self._completes[block_key] = assembled\n", "            self._completes[req.remote] = assembled\n", "renderings stored per client only: the later blocks of one lookup are cut from another lookup's listing")
_LF_TAIL = "    data.__class__ = LinkFormat\n    for link in data.links:\n        link.__class__ = Link\n    return data\n"
R.seed("C20.k", F_LF, _LF_TAIL, "    return LinkFormat([Link(link.href, list(dict(link.attr_pairs).items())) for link in data.links])\n", "links rebuilt through a dict: repeated attribute names collapse")
R.seed("C20.k", F_LF, _LF_TAIL, "    out = LinkFormat()\n    for link in data.links:\n        out.links.append(Link(link.href, [p for p in link.attr_pairs if p[1] is not None]))\n    return out\n", "value-less attributes (flags such as obs) dropped while rebuilding the links")
R.seed("C20.k", F_LF, _LF_TAIL, _LF_TAIL.replace("    return data\n", "        del link.attr_pairs[8:]\n    return data\n"), "attribute list of every parsed link truncated in place")
R.seed("C20.k", F_LH, "            list(pair) for pair in (attr_pairs or []) + list(kwargs.items())\n", "            list(pair) for pair in list(dict(attr_pairs or []).items()) + list(kwargs.items())\n", "Link.__init__ de-duplicates the attribute names it is given")
R.seed("C20.k", F_LH, "            link if isinstance(link, Link) else Link(*link) for link in links or []\n", "            link if isinstance(link, Link) else Link(*link) for link in (links or [])[:64]\n", "LinkHeader keeps only the first links it is given")
R.seed("C20.k", F, "            return parse(message.payload.decode(\"utf8\"))\n", "            return LinkFormat(parse(message.payload.decode(\"utf8\")).links[:32])\n", "registrations are capped at a number of links on their way to the handlers")

# eighth pass: C20.d also interprets absolute timers (loop.call_at) and the lazy design (the callback re-checks a
# deadline field and re-arms itself); the invariant over all writers of the deadline must bite

# attribute accesses that run code (validating property setters, __setattr__ hooks, descriptors)
_A_HREF = "        @property\n        def href(self):\n            return \"/\" + \"/\".join(self.path)\n"
R.seed("C20.a", F, _A_HREF, _A_HREF + "\n        @property\n        def base(self):\n            return self._base\n\n        @base.setter\n        def base(self, value):\n            if \"#\" in value:\n                raise error.BadRequest(\"fragment in base\")\n            self._base = value\n",
       "validating setter of .base: update_params stores .lt before it, the 4.00 arrives after the lifetime was altered")
R.seed("C20.a", F, _A_HREF, _A_HREF + "\n        def _get_explicit(self):\n            return self._explicit\n\n        def _set_explicit(self, value):\n            if not isinstance(value, bool):\n                raise error.BadRequest(\"flag expected\")\n            self._explicit = value\n\n        base_is_explicit = property(_get_explicit, _set_explicit)\n",
       "property(fget, fset) form: the setter of .base_is_explicit may refuse after .lt and .base were stored")
R.seed("C20.a", F, _A_HREF, _A_HREF + "\n        @property\n        def lt(self):\n            return self._lt\n\n        @lt.setter\n        def lt(self, value):\n            self._lt = value\n            if value < 0:\n                raise error.BadRequest(\"negative lt\")\n",
       "setter of .lt stores its backing field and validates afterwards")
R.seed("C20.a", F, _A_HREF, _A_HREF + "\n        def __setattr__(self, name, value):\n            if name == \"base\" and not value:\n                raise error.BadRequest(\"empty base\")\n            object.__setattr__(self, name, value)\n",
       "__setattr__ hook of the registration refuses a base after .lt was stored")

_D_ARM = "            self.timeout = asyncio.create_task(\n                longwait(delay, self.delete),\n                name=\"RD Timeout for %r\" % self,\n            )\n"
R.seed("C20.d", F, _D_ARM, "            loop = asyncio.get_running_loop()\n            self.timeout = loop.call_at(loop.time() + self.lt, self.delete)\n", "absolute timer (call_at) without the grace period")
R.seed("C20.d", F, _D_ARM + "\n        def refresh_timeout(self):\n            self.timeout.cancel()\n            self._set_timeout()\n",
       "            loop = asyncio.get_running_loop()\n            self.deadline = loop.time() + delay\n            self.timeout = loop.call_at(self.deadline, self._expire)\n\n"
       "        def _expire(self):\n            loop = asyncio.get_running_loop()\n            if self.deadline <= loop.time():\n                self.delete()\n                return\n            self.timeout = loop.call_at(self.deadline, self._expire)\n\n"
       "        def refresh_timeout(self):\n            self.deadline = asyncio.get_running_loop().time() + self.lt + self.grace_period\n",
       "lazy timer: updates only move a deadline the pending timer re-checks; a shortened lifetime takes effect when the old, later timer fires")
