"""Concrete evaluator for small state machines of the analysed package (C05.k: the token generator).

The checker's OWN interpreter walks the syntax tree of a plain synchronous method with the object's
fields bound to concrete Python values (ints, bytes, tuples, sets, dicts) that the checker itself created;
nothing of the analysed repository is imported or executed.  Only a closed vocabulary of statements,
operators, builtins and built-in container / int / bytes methods is interpreted; anything else raises
Refuse (-> AnalysisError, exit 2, the designed fail-closed outcome)."""

import ast
import operator
import struct

from ..rulekit import is_log_call, params


class Refuse(Exception):
    pass


class _Ret(Exception):
    def __init__(self, value):
        self.value = value


class _Brk(Exception):
    pass


class _Cnt(Exception):
    pass


class _Self:
    def __repr__(self):
        return "<self>"


SELF = _Self()


class Count:
    """itertools.count(start, step) owned by the checker."""

    def __init__(self, start=0, step=1):
        if not (isinstance(start, int) and isinstance(step, int)):
            raise TypeError("count of non-integers")
        self.value, self.step = start, step

    def take(self):
        v = self.value
        self.value += self.step
        return v

_BIN = {ast.Add: operator.add, ast.Sub: operator.sub, ast.Mult: operator.mul, ast.FloorDiv: operator.floordiv,
        ast.Mod: operator.mod, ast.LShift: operator.lshift, ast.RShift: operator.rshift, ast.BitAnd: operator.and_,
        ast.BitOr: operator.or_, ast.BitXor: operator.xor}
_CMP = {ast.Eq: operator.eq, ast.NotEq: operator.ne, ast.Lt: operator.lt, ast.LtE: operator.le, ast.Gt: operator.gt,
        ast.GtE: operator.ge, ast.Is: operator.is_, ast.IsNot: operator.is_not,
        ast.In: lambda a, b: a in b, ast.NotIn: lambda a, b: a not in b}
_VALUE_TYPES = (int, bytes, str, tuple, list, set, frozenset, dict, type(None), range, Count)
_BUILTINS = {"len": len, "min": min, "max": max, "abs": abs, "int": int, "bool": bool, "bytes": bytes, "set": set,
             "frozenset": frozenset, "list": list, "tuple": tuple, "sorted": sorted, "range": range, "any": any,
             "all": all, "sum": sum, "divmod": divmod, "dict": dict, "reversed": lambda x: list(reversed(x)),
             "enumerate": lambda x, start=0: list(enumerate(x, start)), "zip": lambda *a: list(zip(*a))}
_METHODS = {
    int: {"to_bytes", "bit_length"},
    bytes: {"lstrip", "rstrip", "strip", "hex", "startswith", "endswith", "rjust", "ljust", "removeprefix", "removesuffix", "count", "find"},
    str: {"lstrip", "rstrip", "strip", "encode", "startswith", "endswith", "rjust", "ljust", "zfill"},
    tuple: {"count", "index"},
    list: {"append", "extend", "pop", "remove", "insert", "count", "index", "copy", "clear"},
    set: {"add", "discard", "remove", "pop", "copy", "union", "difference", "intersection", "update", "clear", "isdisjoint", "issubset"},
    frozenset: {"union", "difference", "intersection", "isdisjoint", "issubset"},
    dict: {"get", "pop", "setdefault", "keys", "values", "items", "copy", "update", "clear"},
}
_STATIC = {"int.from_bytes": int.from_bytes, "bytes.fromhex": bytes.fromhex, "struct.pack": struct.pack,
           "struct.unpack": struct.unpack, "dict.fromkeys": dict.fromkeys, "itertools.count": Count}
# randomness sources: in *initialisation* mode they are a choice point (lowest / highest value), in the
# generator itself they are refused (freshness would be probabilistic, which this evaluator does not decide)
_RANDOM = {
    "random.randint": lambda pick, a, b: (a, b)[pick],
    "random.randrange": lambda pick, a, b=None: ((0, a - 1) if b is None else (a, b - 1))[pick],
    "random.getrandbits": lambda pick, k: (0, 2 ** k - 1)[pick],
    "secrets.randbits": lambda pick, k: (0, 2 ** k - 1)[pick],
    "secrets.randbelow": lambda pick, n: (0, n - 1)[pick],
    "secrets.token_bytes": lambda pick, k=32: (b"\0" * k, b"\xff" * k)[pick],
    "os.urandom": lambda pick, k: (b"\0" * k, b"\xff" * k)[pick],
    "random.randbytes": lambda pick, k: (b"\0" * k, b"\xff" * k)[pick],
}


def _chain(e):
    parts = []
    while isinstance(e, ast.Attribute):
        parts.append(e.attr)
        e = e.value
    if isinstance(e, ast.Name):
        parts.append(e.id)
        return ".".join(reversed(parts))
    return None


def _short(node, n=70):
    t = " ".join(ast.unparse(node).split())
    return t if len(t) <= n else t[:n - 3] + "..."


class Machine:
    """One object of class `ci` with lazily initialised fields.  `pick` (0/1) selects the lowest / highest
    value at every randomness choice point of the initialisation."""

    def __init__(self, prog, ci, pick=0, budget=4_000_000):
        self.prog = prog
        self.ci = ci
        self.pick = pick
        self.budget = budget
        self.state = {}
        self.init_mode = False
        self.depth = 0
        self.fields_read = set()
        self.fields_written = set()

    # -- fields --------------------------------------------------------------
    def _initial(self, field):
        init = self.prog.lookup_method(self.ci.qn, "__init__")
        stores = []
        if init is not None:
            for n in ast.walk(init.node):
                if isinstance(n, (ast.Assign, ast.AnnAssign, ast.AugAssign)):
                    tg = n.targets if isinstance(n, ast.Assign) else [n.target]
                    for t in tg:
                        for tt in ast.walk(t):
                            if isinstance(tt, ast.Attribute) and tt.attr == field and isinstance(tt.value, ast.Name) and tt.value.id == "self":
                                stores.append(n)
        if not stores:
            try:
                got = self.prog.class_attr(self.ci.qn, field)
            except Exception:
                got = None
            if not got or got[0] is None:
                raise Refuse("field self.%s has no initial value in __init__ or the class body" % field)
            expr = got[0]
        else:
            if len(stores) != 1 or stores[0] not in init.node.body or not isinstance(stores[0], (ast.Assign, ast.AnnAssign)) or stores[0].value is None \
                    or (isinstance(stores[0], ast.Assign) and not all(isinstance(t, ast.Attribute) for t in stores[0].targets)):
                raise Refuse("field self.%s is not initialised by one unconditional assignment in __init__" % field)
            expr = stores[0].value
        was = self.init_mode
        self.init_mode = True
        try:
            return self.ev(expr, {})
        finally:
            self.init_mode = was

    def load(self, field):
        if field not in self.state:
            m = self.prog.lookup_method(self.ci.qn, field)
            if m is not None:
                if any(isinstance(d, ast.Name) and d.id == "property" for d in m.node.decorator_list):
                    return self.call(m, [], {})
                raise Refuse("bound method self.%s used as a value" % field)
            self.state[field] = self._initial(field)
        self.fields_read.add(field)
        return self.state[field]

    def store(self, field, v):
        self.fields_written.add(field)
        self.state[field] = v

    # -- calls ---------------------------------------------------------------
    def call(self, fi, args, kw):
        if fi.is_async or fi.node.args.vararg or fi.node.args.kwarg or fi.node.args.kwonlyargs or self.depth >= 6 \
                or any(not (isinstance(d, ast.Name) and d.id in ("property", "staticmethod", "classmethod")) for d in fi.node.decorator_list):
            raise Refuse("call of %s (async, decorated, variadic or too deep)" % fi.short)
        if any(isinstance(n, (ast.Yield, ast.YieldFrom)) for n in ast.walk(fi.node)):
            raise Refuse("%s is a generator function" % fi.short)
        names = params(fi)
        bound = dict(zip(names, args))
        if len(args) > len(names) or any(k in bound or k not in names for k in kw):
            raise Refuse("arguments of %s" % fi.short)
        bound.update(kw)
        defaults = fi.node.args.defaults
        for nm, d in zip(names[len(names) - len(defaults):], defaults):
            if nm not in bound:
                bound[nm] = self.ev(d, {})
        if set(bound) != set(names):
            raise Refuse("arguments of %s" % fi.short)
        self.depth += 1
        try:
            self.run(fi.node.body, bound)
        except _Ret as r:
            return r.value
        finally:
            self.depth -= 1
        return None

    def _tick(self):
        self.budget -= 1
        if self.budget < 0:
            raise Refuse("evaluation budget exhausted (non-terminating or very long loop)")

    # -- statements ----------------------------------------------------------
    def bind(self, t, v, env):
        if isinstance(t, ast.Name):
            env[t.id] = v
        elif isinstance(t, ast.Attribute) and isinstance(t.value, ast.Name) and t.value.id == "self":
            self.store(t.attr, v)
        elif isinstance(t, (ast.Tuple, ast.List)) and not any(isinstance(x, ast.Starred) for x in t.elts):
            vs = list(v) if isinstance(v, (tuple, list)) else None
            if vs is None or len(vs) != len(t.elts):
                raise Refuse("unpacking in %s" % _short(t))
            for tt, vv in zip(t.elts, vs):
                self.bind(tt, vv, env)
        elif isinstance(t, ast.Subscript) and not isinstance(t.slice, ast.Slice):
            c = self.ev(t.value, env)
            if not isinstance(c, (dict, list)):
                raise Refuse("subscript store into %s" % _short(t.value))
            c[self.ev(t.slice, env)] = v
        else:
            raise Refuse("assignment target %s" % _short(t))

    def run(self, stmts, env):
        for st in stmts:
            self._tick()
            if isinstance(st, ast.Assign):
                v = self.ev(st.value, env)
                for t in st.targets:
                    self.bind(t, v, env)
            elif isinstance(st, ast.AnnAssign):
                if st.value is not None:
                    self.bind(st.target, self.ev(st.value, env), env)
            elif isinstance(st, ast.AugAssign):
                if type(st.op) not in _BIN and not isinstance(st.op, ast.Pow):
                    raise Refuse("operator in %s" % _short(st))
                load = copy_load(st.target)
                self.bind(st.target, self.ev(ast.BinOp(left=load, op=st.op, right=st.value), env), env)
            elif isinstance(st, ast.If):
                self.run(st.body if self.ev(st.test, env) else st.orelse, env)
            elif isinstance(st, ast.While):
                broke = False
                while self.ev(st.test, env):
                    self._tick()
                    try:
                        self.run(st.body, env)
                    except _Brk:
                        broke = True
                        break
                    except _Cnt:
                        continue
                if not broke:
                    self.run(st.orelse, env)
            elif isinstance(st, ast.For):
                broke = False
                for x in self._iter(self.ev(st.iter, env), st.iter):
                    self._tick()
                    self.bind(st.target, x, env)
                    try:
                        self.run(st.body, env)
                    except _Brk:
                        broke = True
                        break
                    except _Cnt:
                        continue
                if not broke:
                    self.run(st.orelse, env)
            elif isinstance(st, ast.Return):
                raise _Ret(None if st.value is None else self.ev(st.value, env))
            elif isinstance(st, ast.Break):
                raise _Brk()
            elif isinstance(st, ast.Continue):
                raise _Cnt()
            elif isinstance(st, (ast.Pass, ast.Assert, ast.Import)):
                continue    # `import struct` inside the function: module names are resolved by their dotted chain
            elif isinstance(st, ast.Expr):
                if isinstance(st.value, ast.Constant) or (isinstance(st.value, ast.Call) and is_log_call(st.value)):
                    continue
                self.ev(st.value, env)
            else:
                raise Refuse("statement %s" % _short(st))

    def _iter(self, v, node):
        if isinstance(v, range) and len(v) > 1_000_000:
            return iter(v)      # lazily; the step budget bounds the walk
        if isinstance(v, (tuple, list, set, frozenset, dict, bytes, str, range)):
            return iter(list(v))
        raise Refuse("iteration over %s" % _short(node))

    # -- expressions ---------------------------------------------------------
    def ev(self, e, env):
        self._tick()
        if isinstance(e, ast.Constant):
            if isinstance(e.value, (int, bytes, str, type(None))):
                return e.value
            raise Refuse("constant %s" % _short(e))
        if isinstance(e, ast.Name):
            if e.id in env:
                return env[e.id]
            if e.id == "self":
                return SELF
            try:
                mc = self.prog.module_const(self.ci_module(), e.id)
            except Exception:
                mc = None
            if mc is not None:
                return self.ev(mc, {})
            raise Refuse("name %s has no value the evaluator knows" % e.id)
        if isinstance(e, ast.Attribute):
            base = self.ev(e.value, env) if not (isinstance(e.value, ast.Name) and e.value.id not in env and e.value.id != "self") else None
            if base is SELF:
                return self.load(e.attr)
            raise Refuse("attribute %s" % _short(e))
        if isinstance(e, ast.BinOp):
            l, r = self.ev(e.left, env), self.ev(e.right, env)
            try:
                if isinstance(e.op, ast.Pow):
                    if not (isinstance(l, int) and isinstance(r, int) and 0 <= r <= 4096 and abs(l) <= 2 ** 64):
                        raise Refuse("power %s" % _short(e))
                    return l ** r
                if isinstance(e.op, ast.LShift) and not (isinstance(r, int) and 0 <= r <= 4096):
                    raise Refuse("shift %s" % _short(e))
                if isinstance(e.op, ast.Mult) and not (isinstance(l, int) and isinstance(r, int)):
                    n = l if isinstance(l, int) else r
                    if not isinstance(n, int) or n > 65536:
                        raise Refuse("repetition %s" % _short(e))
                if type(e.op) in _BIN:
                    return _BIN[type(e.op)](l, r)
            except Refuse:
                raise
            except Exception as x:
                raise Refuse("%s raises %s" % (_short(e), type(x).__name__))
            raise Refuse("operator in %s" % _short(e))
        if isinstance(e, ast.UnaryOp):
            v = self.ev(e.operand, env)
            if isinstance(e.op, ast.Not):
                return not v
            if isinstance(v, int):
                return {ast.USub: operator.neg, ast.UAdd: operator.pos, ast.Invert: operator.invert}[type(e.op)](v)
            raise Refuse("operator in %s" % _short(e))
        if isinstance(e, ast.BoolOp):
            v = None
            for x in e.values:
                v = self.ev(x, env)
                if isinstance(e.op, ast.And) and not v:
                    return v
                if isinstance(e.op, ast.Or) and v:
                    return v
            return v
        if isinstance(e, ast.Compare):
            l = self.ev(e.left, env)
            for op, rr in zip(e.ops, e.comparators):
                r = self.ev(rr, env)
                try:
                    if not _CMP[type(op)](l, r):
                        return False
                except Exception as x:
                    raise Refuse("%s raises %s" % (_short(e), type(x).__name__))
                l = r
            return True
        if isinstance(e, ast.IfExp):
            return self.ev(e.body if self.ev(e.test, env) else e.orelse, env)
        if isinstance(e, ast.NamedExpr):
            v = self.ev(e.value, env)
            self.bind(e.target, v, env)
            return v
        if isinstance(e, (ast.Tuple, ast.List, ast.Set)):
            out = []
            for x in e.elts:
                if isinstance(x, ast.Starred):
                    out.extend(self._iter(self.ev(x.value, env), x.value))
                else:
                    out.append(self.ev(x, env))
            return tuple(out) if isinstance(e, ast.Tuple) else out if isinstance(e, ast.List) else set(out)
        if isinstance(e, ast.Dict):
            if any(k is None for k in e.keys):
                raise Refuse("dict splat %s" % _short(e))
            return {self.ev(k, env): self.ev(v, env) for k, v in zip(e.keys, e.values)}
        if isinstance(e, (ast.ListComp, ast.SetComp, ast.GeneratorExp, ast.DictComp)):
            out = []
            self._comp(e, 0, dict(env), out)
            if isinstance(e, ast.SetComp):
                return set(out)
            if isinstance(e, ast.DictComp):
                return dict(out)
            return out
        if isinstance(e, ast.Subscript):
            c = self.ev(e.value, env)
            if not isinstance(c, (bytes, str, tuple, list, dict, range)):
                raise Refuse("subscript %s" % _short(e))
            if isinstance(e.slice, ast.Slice):
                idx = slice(*(None if p is None else self.ev(p, env) for p in (e.slice.lower, e.slice.upper, e.slice.step)))
            else:
                idx = self.ev(e.slice, env)
            try:
                return c[idx]
            except Exception as x:
                raise Refuse("%s raises %s" % (_short(e), type(x).__name__))
        if isinstance(e, ast.Call):
            return self._call(e, env)
        raise Refuse("expression %s" % _short(e))

    def ci_module(self):
        return self.ci.qn.split(".", 1)[1].rsplit(".", 1)[0]

    def _comp(self, e, k, env, out):
        if k == len(e.generators):
            out.append((self.ev(e.key, env), self.ev(e.value, env)) if isinstance(e, ast.DictComp) else self.ev(e.elt, env))
            return
        g = e.generators[k]
        if g.is_async:
            raise Refuse("async comprehension")
        for x in self._iter(self.ev(g.iter, env), g.iter):
            self._tick()
            self.bind(g.target, x, env)
            if all(self.ev(c, env) for c in g.ifs):
                self._comp(e, k + 1, env, out)

    def _call(self, e, env):
        if any(isinstance(a, ast.Starred) for a in e.args) or any(k.arg is None for k in e.keywords):
            raise Refuse("splat call %s" % _short(e))
        f = e.func
        ch = _chain(f)
        root = ch.split(".")[0] if ch else None
        if ch in _RANDOM and root not in env:
            if not self.init_mode:
                raise Refuse("%s: a value drawn from a randomness source on every call is fresh only with a probability this evaluator does not decide" % ch)
            args = [self.ev(a, env) for a in e.args]
            kw = {k.arg: self.ev(k.value, env) for k in e.keywords}
            try:
                return _RANDOM[ch](self.pick, *args, **kw)
            except Exception as x:
                raise Refuse("%s raises %s" % (_short(e), type(x).__name__))
        args = lambda: [self.ev(a, env) for a in e.args]
        kws = lambda: {k.arg: self.ev(k.value, env) for k in e.keywords}
        if isinstance(f, ast.Name) and f.id not in env:
            if f.id in _BUILTINS:
                a, k = args(), kws()
                if f.id in ("bytes", "list", "tuple", "set", "frozenset", "sorted", "sum", "any", "all") and a and isinstance(a[0], (int, range)) and (a[0] if isinstance(a[0], int) else len(a[0])) > 65536:
                    raise Refuse("%s of a huge operand" % f.id)
                return self._apply(_BUILTINS[f.id], a, k, e)
            if f.id == "next" and len(e.args) == 1 and not e.keywords:
                c = self.ev(e.args[0], env)
                if isinstance(c, Count):
                    return c.take()
                raise Refuse("next() of %s" % _short(e.args[0]))
            mf = self.prog.funcs.get("aiocoap.%s.%s" % (self.ci_module(), f.id))
            if mf is not None and mf.cls is None:
                return self.call(mf, args(), kws())
            raise Refuse("call of %s" % f.id)
        if ch in _STATIC and root not in env:
            return self._apply(_STATIC[ch], args(), kws(), e)
        if isinstance(f, ast.Attribute):
            recv = self.ev(f.value, env) if not (isinstance(f.value, ast.Name) and f.value.id not in env and f.value.id != "self") else None
            if recv is SELF:
                m = self.prog.lookup_method(self.ci.qn, f.attr)
                if m is None:
                    raise Refuse("call of self.%s" % f.attr)
                return self.call(m, args(), kws())
            for ty, names in _METHODS.items():
                if type(recv) is ty and f.attr in names:
                    return self._apply(getattr(recv, f.attr), args(), kws(), e)
        raise Refuse("call %s" % _short(e))

    def _apply(self, fn, a, k, e):
        if not all(isinstance(x, _VALUE_TYPES) for x in list(a) + list(k.values())):
            raise Refuse("argument of %s" % _short(e))
        try:
            v = fn(*a, **k)
        except Exception as x:
            raise Refuse("%s raises %s" % (_short(e), type(x).__name__))
        if isinstance(v, type({}.keys())) or isinstance(v, type({}.values())) or isinstance(v, type({}.items())):
            v = list(v)
        return v


def copy_load(t):
    import copy
    c = copy.deepcopy(t)
    for n in ast.walk(c):
        if hasattr(n, "ctx"):
            n.ctx = ast.Load()
    return ast.fix_missing_locations(c) if hasattr(c, "lineno") else c
