"""Helpers private to the C17 rule module (not a rule module itself).

1. `Interp` -- the checker's own evaluator for a subset of Python, working on the
   syntax trees of the analysed program (`ctx.prog`); nothing of the analysed
   repository is imported, compiled, exec'd or eval'd.  The C17 clauses use it
   for *small-scope model checking*: a function under analysis (the Site lookup,
   registration, listing, the RFC 6690 filter, the URI reader) is evaluated on an
   enumerated family of small concrete configurations (registration tables,
   request paths, link sets, filter queries) whose collaborators (the request
   message, registered resources) are symbolic objects supplied by the rule, and
   the observed outcome is compared with a reference semantics written down in
   the rule module.  The verdict therefore depends on what the code *computes*,
   not on how it is spelled: loops vs. comprehensions, `in` + index vs.
   try/except KeyError vs. `.get()`, nested helpers / lambdas / partial, early
   returns vs. nesting, `match` vs. if-chains, hoisted locals and so on are all
   the same to it.
   Anything outside the evaluator's vocabulary (an opaque value deciding a
   branch, an unsupported statement kind, ...) raises AnalysisError -> exit 2;
   it never guesses.

2. Static helpers: alias-aware table-writer scan, transitive per-site state reads,
   and the branch-side utilities used by the caller clause (C17.c).
"""

import ast
import operator

from ..rulekit import *
from ..model import BUILTIN_EXC

# ---------------------------------------------------------------------------
# branch-side utilities (used by C17.c; copies of the helpers of the C16/C17 kit so that
# this module does not depend on a file owned by another rule)


def raises_from(cfg, pseudo):
    return [cfg.nodes[n].ast for n in sorted(cfg.reach({pseudo}, include_src=True)) if cfg.nodes[n].kind == "raise"]


def returns_from(cfg, src):
    return [n for n in sorted(cfg.reach({src}, include_src=True)) if cfg.nodes[n].kind == "return"]


def raised_class(prog, fi, raise_node):
    """Qualified class of `raise X(...)` / `raise X`, or None."""
    e = raise_node.exc
    if e is None:
        return None
    if isinstance(e, ast.Call):
        e = e.func
    txt = chain(e)
    if txt is None:
        return None
    return prog.resolve_in_module(fi.module, txt)


# ---------------------------------------------------------------------------
# values of the evaluator


class Diverged(Exception):
    """step budget exhausted: on a small concrete configuration this is non-termination"""


class Raised(Exception):
    """an exception raised by the *analysed* program"""

    def __init__(self, exc):
        Exception.__init__(self, getattr(exc, "cls", "?"))
        self.exc = exc


class _Return(Exception):
    def __init__(self, value):
        self.value = value


class _Break(Exception):
    pass


class _Continue(Exception):
    pass


def refuse(what):
    raise AnalysisError("evaluator: %s is outside the evaluator's vocabulary" % what)


class Obj:
    """symbolic object: attributes, optional class of the analysed program (methods are looked up there),
    optional rule-supplied methods.  `open_`: unknown attributes read as opaque values (an object whose
    irrelevant details the rule leaves open); otherwise an unknown attribute is an AttributeError of the
    analysed program.  `absent`: attributes that are definitely not there even on an open object."""

    def __init__(self, cls=None, attrs=None, label="obj", open_=False, methods=None, absent=(), private_absent=False, open_names=()):
        self.open_names = set(open_names)  # on a closed object: names that read as unknown values nevertheless (a logger, ...)
        self.private_absent = private_absent  # on an open object, underscore-names that were never set are absent
        self.cls = cls
        self.attrs = dict(attrs or {})
        self.label = label
        self.open_ = open_
        self.methods = dict(methods or {})
        self.absent = set(absent)

    def __repr__(self):
        return "<%s>" % self.label


class Opaque:
    """a value the evaluator knows nothing about; it may be stored and passed on, but not inspected"""

    def __init__(self, label):
        self.label = label
        self._attrs = {}

    def __repr__(self):
        return "<?%s>" % self.label

    def __eq__(self, other):
        if other is self:
            return True
        refuse("comparison with the unknown value %s" % self.label)

    def __ne__(self, other):
        if other is self:
            return False
        refuse("comparison with the unknown value %s" % self.label)

    def __hash__(self):
        return id(self)

    def __bool__(self):
        refuse("truth value of the unknown value %s" % self.label)


class Func:
    def __init__(self, node, env, module, owner=None, defaults=None, kwdefaults=None, name=None):
        self.node = node
        self.env = env
        self.module = module
        self.owner = owner  # qualified class name for methods
        self.defaults = defaults  # list of values (None: evaluate lazily in the module environment)
        self.kwdefaults = kwdefaults
        self.name = name or getattr(node, "name", "<lambda>")
        self.is_async = isinstance(node, ast.AsyncFunctionDef)
        self.is_gen = False
        if not isinstance(node, ast.Lambda):
            for n in walk_no_nested(node):
                if isinstance(n, (ast.Yield, ast.YieldFrom)):
                    self.is_gen = True

    def __repr__(self):
        return "<function %s>" % self.name


class Bound:
    def __init__(self, func, self_):
        self.func = func
        self.self_ = self_


class Builtin:
    """a callable implemented by the evaluator / supplied by the rule: fn(interp, args, kwargs)"""

    def __init__(self, name, fn):
        self.name = name
        self.fn = fn

    def __repr__(self):
        return "<builtin %s>" % self.name


class PyMethod:
    """method of a concrete str / list / tuple / dict / set value"""

    def __init__(self, recv, name):
        self.recv = recv
        self.name = name


class ClassVal:
    def __init__(self, qn):
        self.qn = qn

    def __eq__(self, o):
        return isinstance(o, ClassVal) and o.qn == self.qn

    def __hash__(self):
        return hash(("ClassVal", self.qn))

    def __repr__(self):
        return "<class %s>" % self.qn


class TypeVal:
    """builtin type usable as constructor and in isinstance"""

    def __init__(self, name, pytypes):
        self.name = name
        self.pytypes = pytypes

    def __repr__(self):
        return "<type %s>" % self.name


class ModuleVal:
    def __init__(self, name):
        self.name = name


class ExtVal:
    """something imported from outside the package"""

    def __init__(self, qn):
        self.qn = qn

    def __repr__(self):
        return "<external %s>" % self.qn


class Property:
    """value of `property(fget, fset, fdel)` (call form; also what `p.setter(f)` / `p.getter(f)` / `p.deleter(f)` return): read through an
    instance, it is the result of fget(instance)"""

    def __init__(self, fget=None, fset=None, fdel=None):
        self.fget = fget
        self.fset = fset
        self.fdel = fdel

    def __repr__(self):
        return "<property %r>" % (self.fget,)


class Partial:
    def __init__(self, func, args, kwargs):
        self.func = func
        self.args = list(args)
        self.kwargs = dict(kwargs)


class Iter:
    """one-shot lazy iterator (generator, filter, map, reversed, ...)"""

    def __init__(self, it, label="iterator"):
        self.it = iter(it)
        self.label = label

    def __repr__(self):
        return "<%s>" % self.label


class Awaitable:
    def __init__(self, thunk):
        self.thunk = thunk


class Suppress:
    """contextlib.suppress(*classes)"""

    def __init__(self, classes):
        self.classes = classes


class SuperProxy:
    def __init__(self, obj, after):
        self.obj = obj
        self.after = after


_DICT_VIEWS = (type({}.keys()), type({}.values()), type({}.items()))
_CONCRETE_ITER = (list, tuple, str, bytes, set, frozenset, dict, range) + _DICT_VIEWS
_SCALARS = (type(None), bool, int, float, str, bytes)

_STR_METHODS = {"split", "rsplit", "join", "startswith", "endswith", "lower", "upper", "strip", "lstrip", "rstrip", "replace", "encode", "format",
                "partition", "rpartition", "find", "rfind", "index", "count", "isdigit", "isalpha", "isalnum", "splitlines", "removeprefix",
                "removesuffix", "title", "casefold", "zfill", "capitalize", "isspace", "translate", "decode", "hex"}
_LIST_METHODS = {"append", "insert", "pop", "extend", "remove", "index", "count", "reverse", "clear", "copy"}
_DICT_METHODS = {"get", "pop", "setdefault", "items", "keys", "values", "update", "clear", "copy", "popitem"}
_SET_METHODS = {"add", "discard", "remove", "update", "union", "intersection", "difference", "issubset", "issuperset", "copy", "clear", "pop", "isdisjoint"}

_BINOPS = {ast.Add: operator.add, ast.Sub: operator.sub, ast.Mult: operator.mul, ast.FloorDiv: operator.floordiv, ast.Mod: operator.mod,
           ast.Div: operator.truediv, ast.Pow: operator.pow, ast.LShift: operator.lshift, ast.RShift: operator.rshift, ast.BitAnd: operator.and_,
           ast.BitOr: operator.or_, ast.BitXor: operator.xor}
_CMPOPS = {ast.Lt: operator.lt, ast.LtE: operator.le, ast.Gt: operator.gt, ast.GtE: operator.ge}
# most specific first
_PY_EXC = [(KeyError, "KeyError"), (IndexError, "IndexError"), (UnicodeError, "UnicodeError"), (ValueError, "ValueError"), (TypeError, "TypeError"),
           (AttributeError, "AttributeError"), (ZeroDivisionError, "ZeroDivisionError"), (OverflowError, "OverflowError"), (StopIteration, "StopIteration"),
           (RuntimeError, "RuntimeError")]


class Env:
    def __init__(self, parent, module, comprehension=False):
        self.vars = {}
        self.parent = parent
        self.module = module
        self.comprehension = comprehension
        self.nonlocals = set()
        self.globals_ = set()
        self.func = None  # Func being executed (for zero-argument super())
        self.self_ = None

    def function_env(self):
        e = self
        while e.comprehension and e.parent is not None:
            e = e.parent
        return e


class Interp:
    def __init__(self, prog, stubs=None, max_steps=20000):
        self.prog = prog
        self.stubs = dict(stubs or {})  # qualified name -> value: overrides for module-level names (functions, classes, externals)
        self.max_steps = max_steps
        self.steps = 0
        self._modconst = {}
        self._modglobals = {}
        self._exc_stack = []
        self._clsattr = {}
        self.opaque_calls = []
        self.active = False  # the step budget applies to evaluations started through run()

    # -- bookkeeping -----------------------------------------------------
    def tick(self):
        if self.active:
            self.steps += 1
            if self.steps > self.max_steps:
                raise Diverged()

    def reset(self):
        self.steps = 0
        self.opaque_calls = []

    def new_exc(self, cls, *args):
        return Obj(cls=cls, attrs={"args": tuple(args)}, label="%s%r" % (cls.split(".")[-1], tuple(args)))

    def throw(self, cls, *args):
        raise Raised(self.new_exc(cls, *args))

    def _py(self, fn, *a, **kw):
        """apply a Python-level operation on concrete values; Python's own exceptions become exceptions of the analysed program"""
        try:
            return fn(*a, **kw)
        except (AnalysisError, RecursionError, Raised, Diverged):
            raise
        except tuple(t for t, _ in _PY_EXC) as e:
            for t, name in _PY_EXC:
                if isinstance(e, t):
                    self.throw(name, *[a_ for a_ in e.args if isinstance(a_, _SCALARS)])
            raise

    # -- names --------------------------------------------------------------
    def func_of(self, fi):
        """Func value of a function of the analysed program"""
        owner = fi.cls.qn if fi.cls is not None else None
        return Func(fi.node, None, fi.module, owner=owner)

    def lookup(self, name, env):
        e = env
        while e is not None:
            if name in e.vars:
                return e.vars[name]
            e = e.parent
        module = env.module if env is not None else None
        return self.global_lookup(module, name)

    def global_lookup(self, module, name):
        if module is not None:
            key = (module.name, name)
            if key in self._modglobals:
                return self._modglobals[key]
            q = module.name + "." + name
            if q in self.stubs:
                return self.stubs[q]
            if q in self.prog.funcs:
                return self.func_of(self.prog.funcs[q])
            if q in self.prog.classes:
                return ClassVal(q)
            if name in module.imports:
                return self.qualified(module.imports[name])
            if self._has_const(module, name):
                return self.module_const(module, name)
        if name in self.stubs:
            return self.stubs[name]
        if name in _BUILTINS:
            return _BUILTINS[name]
        if name in BUILTIN_EXC and "." not in name:
            return ClassVal(name)
        if module is not None and _binds_somewhere(module.tree, name):
            return Opaque("%s.%s" % (module.name, name))
        if hasattr(_pybuiltins, name):
            refuse("the builtin %s" % name)
        self.throw("NameError", name)

    def qualified(self, q):
        """value of a qualified name (import target)"""
        if q in self.stubs:
            return self.stubs[q]
        c = self.prog.canonical(q)
        if c in self.stubs:
            return self.stubs[c]
        if c in self.prog.modules:
            return ModuleVal(c)
        if c in self.prog.classes:
            return ClassVal(c)
        if c in self.prog.funcs:
            return self.func_of(self.prog.funcs[c])
        if "." in c:
            mod, last = c.rsplit(".", 1)
            if mod in self.prog.modules:
                return self.global_lookup(self.prog.modules[mod], last)
        return _EXT_CONSTS.get(c, ExtVal(c))

    def _has_const(self, module, name):
        for st in module.tree.body:
            for t in (st.targets if isinstance(st, ast.Assign) else [st.target] if isinstance(st, ast.AnnAssign) and st.value is not None else []):
                for x in ast.walk(t):
                    if isinstance(x, ast.Name) and x.id == name:
                        return True
        return False

    def module_const(self, module, name):
        key = (module.name, name)
        if key not in self._modconst:
            self._modconst[key] = Opaque("%s.%s" % (module.name, name))  # cycle guard / fallback
            val = None
            for st in module.tree.body:
                if isinstance(st, ast.Assign) and len(st.targets) == 1 and isinstance(st.targets[0], ast.Name) and st.targets[0].id == name:
                    val = st.value
                elif isinstance(st, ast.AnnAssign) and isinstance(st.target, ast.Name) and st.target.id == name and st.value is not None:
                    val = st.value
            if val is not None:
                saved = self.steps
                try:
                    self._modconst[key] = self.ev(val, Env(None, module))
                except (AnalysisError, Raised, Diverged):
                    pass
                self.steps = saved
        return self._modconst[key]

    def setvar(self, name, value, env):
        if env.comprehension:
            env.vars[name] = value
            return
        if name in env.globals_:
            self._modglobals[(env.module.name, name)] = value
            return
        if name in env.nonlocals:
            e = env.parent
            while e is not None:
                if name in e.vars and not e.comprehension:
                    e.vars[name] = value
                    return
                e = e.parent
        env.vars[name] = value

    # -- truth, iteration -------------------------------------------------------
    def truth(self, v):
        if isinstance(v, _SCALARS) or isinstance(v, (list, tuple, dict, set, frozenset, range) + _DICT_VIEWS):
            return bool(v)
        if isinstance(v, Obj):
            for dunder in ("__bool__", "__len__"):
                # a rule-supplied dunder (a symbolic collaborator that is an empty collection, ...) or the one of the object's class
                m = v.methods.get(dunder) or self._class_method(v, dunder)
                if m is not None:
                    return bool(self.call(m, [], {}))
            return True
        if isinstance(v, Opaque):
            refuse("a branch on the unknown value %s" % v.label)
        return True

    def iterate(self, v):
        if isinstance(v, dict):
            return self._guard_iter(iter(v))
        if isinstance(v, _CONCRETE_ITER):
            return self._guard_iter(iter(v))
        if isinstance(v, Iter):
            return self._guard_iter(v.it)
        if isinstance(v, Obj):
            m = v.methods.get("__iter__") or self._class_method(v, "__iter__")
            if m is not None:
                return self.iterate(self.call(m, [], {}))
            if not v.open_:
                self.throw("TypeError", "%s object is not iterable" % v.label)
        if isinstance(v, (type(None), bool, int, float)):
            self.throw("TypeError", "%s object is not iterable" % type(v).__name__)
        refuse("iteration over %r" % (v,))

    def _guard_iter(self, it):
        while True:
            self.tick()
            try:
                x = next(it)
            except StopIteration:
                return
            except RuntimeError:
                self.throw("RuntimeError", "container changed size during iteration")
            yield x

    def realise(self, v):
        """lists for lazy iterators (arguments of Python-level operations)"""
        if isinstance(v, Iter):
            return list(self.iterate(v))
        return v

    # -- attributes ------------------------------------------------------------------
    def _class_method(self, obj, name):
        if obj.cls is None:
            return None
        fi = self.prog.lookup_method(obj.cls, name)
        if fi is None:
            return None
        return Bound(self.func_of(fi), obj)

    def getattr_(self, v, name):
        self.tick()
        if isinstance(v, Obj):
            if name in v.attrs:
                return v.attrs[name]
            if name in v.methods:
                m = v.methods[name]
                return m
            if name == "__class__":
                return ClassVal(v.cls) if v.cls else TypeVal("object", (object,))
            if name == "__dict__":
                return v.attrs
            if v.cls is not None and name not in v.absent:
                fi = self.prog.lookup_method(v.cls, name)
                if fi is not None:
                    decos = [ast.unparse(d) for d in fi.node.decorator_list]
                    f = self.func_of(fi)
                    if not decos:
                        return Bound(f, v)
                    if decos == ["property"] or decos == ["functools.cached_property"] or decos == ["cached_property"]:
                        return self.call(Bound(f, v), [], {})
                    if decos == ["staticmethod"]:
                        return f
                    if decos == ["classmethod"]:
                        return Bound(f, ClassVal(v.cls))
                    if decos in (["%s.setter" % name], ["%s.deleter" % name]):
                        # `@property def x` followed by `@x.setter def x`: the attribute is the property, read through its getter
                        g = self._property_getter(fi, name)
                        if g is not None:
                            return self.call(Bound(g, v), [], {})
                    refuse("decorated method %s.%s" % (v.cls, name))
                ex, ci = self.prog.class_attr(v.cls, name)
                if ex is not None:
                    val = self.class_attr_value(ci, name, ex)
                    if isinstance(val, Property):
                        if val.fget is None:
                            self.throw("AttributeError", "property %s has no getter" % name)
                        return self.call(val.fget, [v], {})
                    return val
                ga = self.prog.lookup_method(v.cls, "__getattr__")
                if ga is not None and name not in v.absent and not (name.startswith("__") and name.endswith("__")):
                    return self.call(Bound(self.func_of(ga), v), [name], {})
            if (name in v.open_names) or (v.open_ and name not in v.absent and not (v.private_absent and name.startswith("_"))):
                o = Opaque("%s.%s" % (v.label, name))
                v.attrs[name] = o
                return o
            self.throw("AttributeError", name)
        if isinstance(v, Opaque):
            if name not in v._attrs:
                v._attrs[name] = Opaque("%s.%s" % (v.label, name))
            return v._attrs[name]
        if isinstance(v, ModuleVal):
            sub = v.name + "." + name
            if sub in self.stubs:
                return self.stubs[sub]
            if sub in self.prog.modules:
                return ModuleVal(sub)
            return self.global_lookup(self.prog.modules[v.name], name)
        if isinstance(v, ExtVal):
            q = v.qn + "." + name
            if q in self.stubs:
                return self.stubs[q]
            if q in _EXT_CONSTS:
                return _EXT_CONSTS[q]
            return ExtVal(q)
        if isinstance(v, ClassVal):
            sub = v.qn + "." + name
            if sub in self.stubs:
                return self.stubs[sub]
            if v.qn in self.prog.classes:
                if sub in self.prog.classes:
                    return ClassVal(sub)  # a class defined inside the class
                fi = self.prog.lookup_method(v.qn, name)
                if fi is not None:
                    decos = [ast.unparse(d) for d in fi.node.decorator_list]
                    f = self.func_of(fi)
                    if decos == ["classmethod"]:
                        return Bound(f, v)
                    return f
                ex, ci = self.prog.class_attr(v.qn, name)
                if ex is not None:
                    return self.class_attr_value(ci, name, ex)
            if name == "__name__":
                return v.qn.split(".")[-1]
            self.throw("AttributeError", name)
        if isinstance(v, SuperProxy):
            mro = self.prog.mro(v.obj.cls) if v.obj.cls else []
            if v.after in mro:
                for q in mro[mro.index(v.after) + 1:]:
                    ci = self.prog.classes.get(q)
                    if ci is not None and name in ci.methods:
                        return Bound(self.func_of(ci.methods[name]), v.obj)
            if name == "__init__":
                return Builtin("object.__init__", lambda it, a, k: None)
            refuse("super().%s outside the package" % name)
        if isinstance(v, TypeVal):
            allowed = {"str": _STR_METHODS, "bytes": _STR_METHODS, "list": _LIST_METHODS | {"sort"}, "dict": _DICT_METHODS, "set": _SET_METHODS, "frozenset": _SET_METHODS, "tuple": {"index", "count"}}.get(v.name, ())
            if name in allowed:
                def unbound(it, a, k, _t=v, _n=name):
                    if not a or not it.isinstance_(a[0], _t):
                        it.throw("TypeError", "descriptor %r requires a %s object" % (_n, _t.name))
                    return it.call(it.getattr_(a[0], _n), a[1:], k)
                return Builtin("%s.%s" % (v.name, name), unbound)
            if name == "__name__":
                return v.name
            refuse("attribute %s of the type %s" % (name, v.name))
        if isinstance(v, Property):
            if name in ("fget", "fset", "fdel"):
                return getattr(v, name)
            if name in ("getter", "setter", "deleter"):
                slot = {"getter": "fget", "setter": "fset", "deleter": "fdel"}[name]

                def with_(it, a, k, _p=v, _slot=slot):
                    parts = {"fget": _p.fget, "fset": _p.fset, "fdel": _p.fdel}
                    parts[_slot] = a[0] if a else None
                    return Property(**parts)
                return Builtin("property.%s" % name, with_)
            if name == "__doc__":
                return Opaque("property.__doc__")
            refuse("attribute %s of a property object" % name)
        if isinstance(v, (Func, Bound, Builtin, Partial, PyMethod)):
            if name == "__name__" and isinstance(v, Func):
                return v.name
            return Opaque("%r.%s" % (v, name))
        if isinstance(v, (str, bytes)) and name in _STR_METHODS and hasattr(v, name):
            return PyMethod(v, name)
        if isinstance(v, list) and name in _LIST_METHODS | {"sort"}:
            return PyMethod(v, name)
        if isinstance(v, tuple) and name in ("index", "count"):
            return PyMethod(v, name)
        if isinstance(v, dict) and name in _DICT_METHODS:
            return PyMethod(v, name)
        if isinstance(v, (set, frozenset)) and name in _SET_METHODS and hasattr(v, name):
            return PyMethod(v, name)
        if isinstance(v, _SCALARS + (list, tuple, dict, set, frozenset)):
            if hasattr(v, name):
                refuse("method %s of a %s value" % (name, type(v).__name__))
            self.throw("AttributeError", name)
        refuse("attribute %s of %r" % (name, v))

    def _property_getter(self, fi, name):
        """the `@property def <name>` of the class that defines the method `fi` (a later `@<name>.setter def <name>` replaced it in the index)"""
        ci = fi.cls
        if ci is None:
            return None
        for st in ci.node.body:
            if isinstance(st, (ast.FunctionDef, ast.AsyncFunctionDef)) and st.name == name and [ast.unparse(d) for d in st.decorator_list] in (["property"], ["functools.cached_property"], ["cached_property"]):
                return Func(st, None, fi.module, owner=ci.qn)
        return None

    def class_attr_value(self, ci, name, ex):
        """value of a class-level attribute; the expression sees the other names of the class body (functions defined there, other
        class-level attributes, nested classes) and the module's globals"""
        key = (ci.qn, name)
        if key not in self._clsattr:
            busy = self.__dict__.setdefault("_clsattr_busy", set())
            if key in busy:
                refuse("the class attribute %s.%s, defined in several steps in terms of itself" % (ci.qn, name))
            busy.add(key)
            try:
                env = Env(None, ci.module)
                for n in ast.walk(ex):
                    if isinstance(n, ast.Name) and isinstance(n.ctx, ast.Load) and n.id not in env.vars:
                        for st in ci.node.body:
                            if isinstance(st, (ast.FunctionDef, ast.AsyncFunctionDef)) and st.name == n.id:
                                if [ast.unparse(d) for d in st.decorator_list] in ([], ["staticmethod"]):
                                    env.vars[n.id] = Func(st, None, ci.module, owner=ci.qn)
                            elif isinstance(st, ast.ClassDef) and st.name == n.id and ci.qn + "." + n.id in self.prog.classes:
                                env.vars[n.id] = ClassVal(ci.qn + "." + n.id)
                        if n.id not in env.vars and n.id in ci.attrs:
                            env.vars[n.id] = self.class_attr_value(ci, n.id, ci.attrs[n.id])
                self._clsattr[key] = self.ev(ex, env)
            finally:
                busy.discard(key)
        return self._clsattr[key]

    def hasattr_(self, v, name):
        try:
            self.getattr_(v, name)
            return True
        except Raised as r:
            if self.isinstance_exc(r.exc, "AttributeError"):
                return False
            raise

    def _class_property(self, clsqn, name):
        """the property (data descriptor) the class defines under `name`, in decorator or call form, else None"""
        key = (clsqn, name)
        cache = self.__dict__.setdefault("_propcache", {})
        if key not in cache:
            found = None
            fi = self.prog.lookup_method(clsqn, name)
            if fi is not None and fi.cls is not None:
                parts = {}
                for st in fi.cls.node.body:
                    if isinstance(st, (ast.FunctionDef, ast.AsyncFunctionDef)) and st.name == name:
                        decos = [ast.unparse(d) for d in st.decorator_list]
                        slot = {"property": "fget", "%s.getter" % name: "fget", "%s.setter" % name: "fset", "%s.deleter" % name: "fdel"}.get(decos[0] if len(decos) == 1 else None)
                        if slot:
                            parts[slot] = Func(st, None, fi.module, owner=fi.cls.qn)
                if "fget" in parts:
                    found = Property(**parts)
            else:
                ex, ci = self.prog.class_attr(clsqn, name)
                if isinstance(ex, ast.Call) and isinstance(ex.func, ast.Name) and ex.func.id == "property":
                    val = self.class_attr_value(ci, name, ex)
                    if isinstance(val, Property):
                        found = val
            cache[key] = found
        return cache[key]

    def setattr_(self, v, name, value):
        if isinstance(v, Obj):
            if v.cls is not None and name not in v.methods:
                prop = self._class_property(v.cls, name)
                if prop is not None:
                    # a property is a data descriptor: assignment through an instance runs its setter
                    if prop.fset is None:
                        self.throw("AttributeError", "property %s has no setter" % name)
                    self.call(prop.fset, [v, value], {})
                    return
            v.attrs[name] = value
            v.absent.discard(name)
            return
        if isinstance(v, Opaque):
            v._attrs[name] = value
            return
        if isinstance(v, ModuleVal):
            self._modglobals[(v.name, name)] = value
            return
        if isinstance(v, (Func, ClassVal)):
            return
        self.throw("AttributeError", name)

    def isinstance_exc(self, exc, clsqn):
        return isinstance(exc, Obj) and exc.cls is not None and self.prog.is_subclass(exc.cls, clsqn)

    def isinstance_(self, v, c):
        if isinstance(c, tuple):
            return any(self.isinstance_(v, x) for x in c)
        if isinstance(v, Opaque):
            refuse("isinstance of the unknown value %s" % v.label)
        if isinstance(c, TypeVal):
            if c.name == "object":
                return True
            if isinstance(v, (Obj, Func, Bound, Builtin, ClassVal, TypeVal, ModuleVal, ExtVal, Partial, Iter, PyMethod)):
                return False
            if c.name == "int" and isinstance(v, bool):
                return True
            return isinstance(v, c.pytypes)
        if isinstance(c, ClassVal):
            if isinstance(v, Obj):
                return v.cls is not None and self.prog.is_subclass(v.cls, c.qn)
            return False
        if isinstance(c, ExtVal):
            if isinstance(v, Obj):
                if v.cls is None:
                    return False
                return c.qn in self.prog.mro(v.cls) or c.qn.split(".")[-1] in [b.split(".")[-1] for b in self.prog.mro(v.cls)]
            if isinstance(v, _SCALARS + (list, tuple, dict, set, frozenset)):
                known = {"collections.abc.Sequence": (list, tuple, str, bytes), "collections.abc.Mapping": (dict,), "collections.abc.Iterable": _CONCRETE_ITER}
                if c.qn in known:
                    return isinstance(v, known[c.qn])
                return False
        refuse("isinstance against %r" % (c,))

    # -- calls ---------------------------------------------------------------------------
    def call(self, f, args, kwargs=None):
        kwargs = kwargs or {}
        self.tick()
        if isinstance(f, Bound):
            return self.call(f.func, [f.self_] + list(args), kwargs)
        if isinstance(f, Func):
            return self.call_func(f, list(args), kwargs)
        if isinstance(f, Builtin):
            return f.fn(self, list(args), kwargs)
        if isinstance(f, Partial):
            kw = dict(f.kwargs)
            kw.update(kwargs)
            return self.call(f.func, f.args + list(args), kw)
        if isinstance(f, PyMethod):
            return self.call_pymethod(f, list(args), kwargs)
        if isinstance(f, TypeVal):
            return self.construct_builtin(f, list(args), kwargs)
        if isinstance(f, ClassVal):
            return self.instantiate(f, list(args), kwargs)
        if isinstance(f, (Opaque, ExtVal)):
            label = f.label if isinstance(f, Opaque) else f.qn
            if isinstance(f, ExtVal) and f.qn in _EXTERNALS:
                return _EXTERNALS[f.qn](self, list(args), kwargs)
            r = Opaque("%s(...)" % label)
            self.opaque_calls.append((label, list(args), dict(kwargs), r))
            return r
        if isinstance(f, Obj):
            m = self._class_method(f, "__call__")
            if m is not None:
                return self.call(m, args, kwargs)
            if "__call__" in f.methods:
                return self.call(f.methods["__call__"], args, kwargs)
        self.throw("TypeError", "%r is not callable" % (f,))

    def bind(self, f, args, kwargs, env):
        a = f.node.args
        if f.defaults is None:
            denv = Env(None, f.module)
            f.defaults = [self.ev(d, denv) for d in a.defaults]
            f.kwdefaults = [self.ev(d, denv) if d is not None else None for d in a.kw_defaults]
        pos = [x.arg for x in a.posonlyargs + a.args]
        npos = len(pos)
        bound = {}
        for i, v in enumerate(args[:npos]):
            bound[pos[i]] = v
        extra = list(args[npos:])
        if extra and a.vararg is None:
            self.throw("TypeError", "%s() takes %d positional arguments but %d were given" % (f.name, npos, len(args)))
        kwonly = [x.arg for x in a.kwonlyargs]
        rest = {}
        posonly = {x.arg for x in a.posonlyargs}
        for k, v in kwargs.items():
            if (k in pos and k not in posonly) or k in kwonly:
                if k in bound:
                    self.throw("TypeError", "%s() got multiple values for argument %r" % (f.name, k))
                bound[k] = v
            elif a.kwarg is not None:
                rest[k] = v
            else:
                self.throw("TypeError", "%s() got an unexpected keyword argument %r" % (f.name, k))
        dflt = dict(zip(pos[npos - len(f.defaults):], f.defaults)) if f.defaults else {}
        for p in pos:
            if p not in bound:
                if p in dflt:
                    bound[p] = dflt[p]
                else:
                    self.throw("TypeError", "%s() missing required argument %r" % (f.name, p))
        for i, k_ in enumerate(a.kwonlyargs):
            if k_.arg not in bound:
                if a.kw_defaults[i] is None:
                    self.throw("TypeError", "%s() missing keyword-only argument %r" % (f.name, k_.arg))
                bound[k_.arg] = f.kwdefaults[i]
        if a.vararg is not None:
            bound[a.vararg.arg] = tuple(extra)
        if a.kwarg is not None:
            bound[a.kwarg.arg] = rest
        env.vars.update(bound)

    def call_func(self, f, args, kwargs):
        env = Env(f.env, f.module)
        env.func = f
        self.bind(f, args, kwargs, env)
        pos = f.node.args.posonlyargs + f.node.args.args
        if pos and f.owner is not None:
            env.self_ = env.vars.get(pos[0].arg)
        if isinstance(f.node, ast.Lambda):
            return self.ev(f.node.body, env)
        for n in walk_no_nested(f.node):
            if isinstance(n, ast.Nonlocal):
                env.nonlocals.update(n.names)
            elif isinstance(n, ast.Global):
                env.globals_.update(n.names)
        if f.is_gen:
            if f.is_async:
                refuse("asynchronous generator %s" % f.name)
            return Iter(self._run_gen(f, env), "generator %s" % f.name)
        if f.is_async:
            return Awaitable(lambda: self._run_plain(f, env))
        return self._run_plain(f, env)

    def _run_plain(self, f, env):
        try:
            for _ in self.exec_block(f.node.body, env):
                refuse("yield outside a generator")
        except _Return as r:
            return r.value
        return None

    def _run_gen(self, f, env):
        try:
            yield from self.exec_block(f.node.body, env)
        except _Return:
            return

    def instantiate(self, c, args, kwargs):
        q = c.qn
        if q in self.stubs and not isinstance(self.stubs[q], ClassVal):
            return self.call(self.stubs[q], args, kwargs)
        if q in BUILTIN_EXC or self.prog.is_subclass(q, "BaseException"):
            e = self.new_exc(q, *args)
            return e
        if q in self.prog.classes:
            mro = self.prog.mro(q)
            if any(b.split(".")[-1] in ("Enum", "IntEnum", "Flag", "IntFlag") for b in mro):
                if len(args) == 1 and not kwargs and isinstance(args[0], Obj) and args[0].cls is not None and self.prog.is_subclass(args[0].cls, q):
                    return args[0]  # E(member) is that member
                refuse("construction of the enumeration %s" % q)
            o = Obj(cls=q, label="%s#%d" % (q.split(".")[-1], self.steps))
            init = self.prog.lookup_method(q, "__init__")
            if init is not None:
                self.call(Bound(self.func_of(init), o), args, kwargs)
            return o
        refuse("construction of %s" % q)

    def construct_builtin(self, t, args, kwargs):
        args = [self.realise(a) for a in args]
        n = t.name
        if n in ("list", "tuple", "set", "frozenset") and len(args) <= 1 and not kwargs:
            py = {"list": list, "tuple": tuple, "set": set, "frozenset": frozenset}[n]
            if not args:
                return py()
            return self._py(py, list(self.iterate(args[0])))
        if n == "dict":
            d = {}
            if args:
                src = args[0]
                if isinstance(src, dict):
                    d.update(src)
                else:
                    for kv in self.iterate(src):
                        k, v = self._py(lambda: tuple(self.iterate(kv)))
                        self._py(d.__setitem__, k, v)
            d.update(kwargs)
            return d
        if n == "str" and len(args) <= 1:
            if not args:
                return ""
            return self.str_(args[0])
        if n in ("int", "float", "bool", "bytes") and not kwargs:
            if n == "bool":
                return self.truth(args[0]) if args else False
            py = {"int": int, "float": float, "bytes": bytes}[n]
            if any(not isinstance(a, _SCALARS + (list, tuple)) for a in args):
                if any(isinstance(a, Opaque) for a in args):
                    return Opaque("%s(...)" % n)
                self.throw("TypeError", "%s() argument" % n)
            return self._py(py, *args)
        if n == "object" and not args:
            return Obj(label="object()")
        if n == "range":
            if any(not isinstance(a, int) for a in args):
                self.throw("TypeError", "range() arguments")
            return self._py(range, *args)
        if n == "type" and len(args) == 1:
            return self.type_of(args[0])
        if n == "slice":
            return self._py(slice, *args)
        refuse("%s(%d arguments)" % (n, len(args)))

    def type_of(self, v):
        if isinstance(v, Obj):
            return ClassVal(v.cls) if v.cls else _BUILTINS["object"]
        for name in ("bool", "int", "float", "str", "bytes", "list", "tuple", "dict", "set", "frozenset"):
            t = _BUILTINS[name]
            if type(v) in t.pytypes:
                return t
        if v is None:
            return TypeVal("NoneType", (type(None),))
        refuse("type(%r)" % (v,))

    def str_(self, v):
        if isinstance(v, _SCALARS):
            return self._py(str, v)
        if isinstance(v, (list, tuple, dict, set, frozenset)):
            if _all_scalar(v):
                return str(v)
            return Opaque("str(...)")
        if isinstance(v, Obj):
            m = self._class_method(v, "__str__")
            if m is not None:
                return self.call(m, [], {})
            if v.cls is not None and self.prog.is_subclass(v.cls, "BaseException"):
                a = v.attrs.get("args", ())
                return "" if not a else (self.str_(a[0]) if len(a) == 1 else Opaque("str(...)"))
        return Opaque("str(%r)" % (v,))

    def call_pymethod(self, m, args, kwargs):
        recv, name = m.recv, m.name
        args = [self.realise(a) for a in args]
        kwargs = {k: self.realise(v) for k, v in kwargs.items()}
        if isinstance(recv, (str, bytes)):
            flat = list(args) + list(kwargs.values())
            if name == "join":
                if len(args) != 1:
                    self.throw("TypeError", "join() takes exactly one argument")
                items = list(self.iterate(args[0]))
                if any(isinstance(x, Opaque) for x in items):
                    return Opaque("join(...)")
                return self._py(recv.join, items)
            if name == "format":
                if all(isinstance(a, _SCALARS) for a in flat):
                    return self._py(recv.format, *args, **kwargs)
                return Opaque("format(...)")
            if any(isinstance(a, Opaque) for a in flat):
                return Opaque("%s(...)" % name)
            if any(not isinstance(a, _SCALARS + (tuple,)) for a in flat):
                self.throw("TypeError", "%s() argument" % name)
            return self._py(getattr(recv, name), *args, **kwargs)
        if isinstance(recv, list) and name == "sort":
            key = kwargs.get("key")
            rev = bool(kwargs.get("reverse", False))
            if key is None:
                self._py(recv.sort, reverse=rev)
            else:
                keyed = [(self.call(key, [x]), x) for x in recv]
                order = self._py(lambda: sorted(range(len(keyed)), key=lambda i: keyed[i][0], reverse=rev))
                recv[:] = [keyed[i][1] for i in order]
            return None
        if isinstance(recv, dict) and name == "update":
            for a in args:
                if isinstance(a, dict):
                    recv.update(a)
                else:
                    for kv in self.iterate(a):
                        k, v = self._py(lambda: tuple(self.iterate(kv)))
                        self._py(recv.__setitem__, k, v)
            recv.update(kwargs)
            return None
        if isinstance(recv, (set, frozenset)) and name in ("update", "union", "intersection", "difference", "issubset", "issuperset", "isdisjoint"):
            args = [list(self.iterate(a)) for a in args]
        if isinstance(recv, list) and name == "extend":
            args = [list(self.iterate(args[0]))] if len(args) == 1 else args
        return self._py(getattr(recv, name), *args, **kwargs)

    # -- expressions ------------------------------------------------------------------------
    def ev(self, e, env):
        self.tick()
        m = getattr(self, "ev_" + type(e).__name__, None)
        if m is None:
            refuse("expression kind %s" % type(e).__name__)
        return m(e, env)

    def ev_Constant(self, e, env):
        return e.value

    def ev_Name(self, e, env):
        return self.lookup(e.id, env)

    def ev_Attribute(self, e, env):
        return self.getattr_(self.ev(e.value, env), e.attr)

    def ev_Tuple(self, e, env):
        return tuple(self._elts(e.elts, env))

    def ev_List(self, e, env):
        return list(self._elts(e.elts, env))

    def ev_Set(self, e, env):
        return self._py(set, self._elts(e.elts, env))

    def _elts(self, elts, env):
        out = []
        for x in elts:
            if isinstance(x, ast.Starred):
                out.extend(self.iterate(self.ev(x.value, env)))
            else:
                out.append(self.ev(x, env))
        return out

    def ev_Dict(self, e, env):
        d = {}
        for k, v in zip(e.keys, e.values):
            if k is None:
                src = self.ev(v, env)
                if not isinstance(src, dict):
                    refuse("** of a non-dict in a dict display")
                d.update(src)
            else:
                kk = self.ev(k, env)
                vv = self.ev(v, env)
                self._py(d.__setitem__, kk, vv)
        return d

    def ev_JoinedStr(self, e, env):
        parts = []
        for v in e.values:
            if isinstance(v, ast.Constant):
                parts.append(v.value)
                continue
            x = self.ev(v.value, env)
            if v.conversion == ord("r"):
                x = _BUILTINS["repr"].fn(self, [x], {})
            elif v.conversion in (ord("s"), -1):
                x = self.str_(x) if not (v.format_spec is not None and isinstance(x, _SCALARS)) else x
            else:
                return Opaque("f-string")
            if isinstance(x, Opaque):
                return Opaque("f-string")
            if v.format_spec is not None:
                spec = self.ev(v.format_spec, env)
                if isinstance(spec, Opaque):
                    return Opaque("f-string")
                x = self._py(format, x, spec)
            parts.append(x)
        return "".join(parts)

    def ev_FormattedValue(self, e, env):
        return self.ev_JoinedStr(ast.JoinedStr(values=[e]), env)

    def ev_BoolOp(self, e, env):
        isand = isinstance(e.op, ast.And)
        v = None
        for x in e.values:
            v = self.ev(x, env)
            t = self.truth(v)
            if t != isand:
                return v
        return v

    def ev_UnaryOp(self, e, env):
        v = self.ev(e.operand, env)
        if isinstance(e.op, ast.Not):
            return not self.truth(v)
        if isinstance(v, Opaque):
            return Opaque("unary(%s)" % v.label)
        if not isinstance(v, (int, float)):
            self.throw("TypeError", "bad operand for unary operator")
        return {ast.USub: operator.neg, ast.UAdd: operator.pos, ast.Invert: operator.invert}[type(e.op)](v)

    def ev_BinOp(self, e, env):
        l = self.ev(e.left, env)
        r = self.ev(e.right, env)
        return self.binop(type(e.op), l, r)

    def binop(self, op, l, r):
        if isinstance(l, Opaque) or isinstance(r, Opaque):
            return Opaque("binop")
        l, r = self.realise(l), self.realise(r)
        for side, other, dunder in ((l, r, _DUNDER.get(op)), (r, l, "__r" + _DUNDER.get(op, "__x__")[2:])):
            if isinstance(side, Obj):
                m = self._class_method(side, dunder) if dunder else None
                if m is None:
                    refuse("arithmetic on the symbolic object %s" % side.label)
                return self.call(m, [other], {})
        if op not in _BINOPS:
            refuse("operator %s" % op.__name__)
        if not all(isinstance(x, _SCALARS + (list, tuple, set, frozenset, dict) + _DICT_VIEWS) for x in (l, r)):
            self.throw("TypeError", "unsupported operand types")
        if op is ast.Mod and isinstance(l, str) and not _all_scalar(r if isinstance(r, tuple) else (r,)):
            return Opaque("%-format")
        if op is ast.Pow and isinstance(r, int) and abs(r) > 4096:
            refuse("huge exponent")
        if op is ast.Mult and any(isinstance(x, int) and not isinstance(x, bool) and abs(x) > 100000 for x in (l, r)) and any(isinstance(x, (str, list, tuple, bytes)) for x in (l, r)):
            refuse("huge repetition")
        return self._py(_BINOPS[op], l, r)

    def ev_Compare(self, e, env):
        left = self.ev(e.left, env)
        for op, c in zip(e.ops, e.comparators):
            right = self.ev(c, env)
            if not self.compare(type(op), left, right):
                return False
            left = right
        return True

    def compare(self, op, l, r):
        if op in (ast.Is, ast.IsNot):
            if isinstance(l, Opaque) or isinstance(r, Opaque):
                if l is r:
                    res = True
                else:
                    refuse("identity test on the unknown value %s" % (l.label if isinstance(l, Opaque) else r.label))
            elif isinstance(l, _SCALARS) and isinstance(r, _SCALARS):
                res = type(l) is type(r) and l == r
            elif isinstance(l, tuple) and isinstance(r, tuple) and not l and not r:
                res = True
            elif isinstance(l, ClassVal) and isinstance(r, ClassVal):
                res = l.qn == r.qn
            elif isinstance(l, TypeVal) and isinstance(r, TypeVal):
                res = l.name == r.name
            elif isinstance(l, Bound) and isinstance(r, Bound):
                res = l.func.node is r.func.node and l.self_ is r.self_
            elif isinstance(l, Func) and isinstance(r, Func):
                res = l.node is r.node and l.env is r.env
            else:
                res = l is r
            return res if op is ast.Is else not res
        if op in (ast.In, ast.NotIn):
            r = self.realise(r)
            if isinstance(r, Opaque):
                refuse("membership in the unknown value %s" % r.label)
            if isinstance(r, Obj):
                m = self._class_method(r, "__contains__")
                if m is None:
                    refuse("membership in the symbolic object %s" % r.label)
                res = self.truth(self.call(m, [l], {}))
            elif isinstance(r, str):
                if not isinstance(l, str):
                    self.throw("TypeError", "'in <string>' requires string as left operand")
                res = l in r
            elif isinstance(r, _CONCRETE_ITER):
                res = self._py(lambda: l in r)
            else:
                self.throw("TypeError", "argument of type %r is not iterable" % type(r).__name__)
            return res if op is ast.In else not res
        if op in (ast.Eq, ast.NotEq):
            if isinstance(l, Obj) and (l.methods.get("__eq__") or self._class_method(l, "__eq__")) is not None:
                res = self.truth(self.call(l.methods.get("__eq__") or self._class_method(l, "__eq__"), [r], {}))
            elif isinstance(r, Obj) and not isinstance(l, Obj) and r.methods.get("__eq__") is not None:
                res = self.truth(self.call(r.methods["__eq__"], [l], {}))  # reflected comparison with a rule-supplied value object
            else:
                res = self._py(lambda: l == r)
            return bool(res) if op is ast.Eq else not res
        if isinstance(l, Opaque) or isinstance(r, Opaque):
            refuse("ordering of an unknown value")
        if isinstance(l, Obj):
            m = self._class_method(l, {ast.Lt: "__lt__", ast.LtE: "__le__", ast.Gt: "__gt__", ast.GtE: "__ge__"}[op])
            if m is None:
                refuse("ordering of the symbolic object %s" % l.label)
            return self.truth(self.call(m, [r], {}))
        if not all(isinstance(x, _SCALARS + (list, tuple, set, frozenset)) for x in (l, r)):
            self.throw("TypeError", "ordering not supported")
        return bool(self._py(_CMPOPS[op], l, r))

    def ev_IfExp(self, e, env):
        return self.ev(e.body if self.truth(self.ev(e.test, env)) else e.orelse, env)

    def ev_NamedExpr(self, e, env):
        v = self.ev(e.value, env)
        self.setvar(e.target.id, v, env.function_env())
        return v

    def ev_Lambda(self, e, env):
        return self.make_func(e, env)

    def make_func(self, node, env):
        a = node.args
        defaults = [self.ev(d, env) for d in a.defaults]
        kwdefaults = [self.ev(d, env) if d is not None else None for d in a.kw_defaults]
        owner = env.func.owner if env.func is not None else None
        return Func(node, env, env.module, owner=None, defaults=defaults, kwdefaults=kwdefaults)

    def ev_Await(self, e, env):
        v = self.ev(e.value, env)
        if isinstance(v, Awaitable):
            return v.thunk()
        if isinstance(v, Opaque):
            return Opaque("await %s" % v.label)
        refuse("await of %r" % (v,))

    def ev_Subscript(self, e, env):
        v = self.ev(e.value, env)
        k = self.ev(e.slice, env)
        return self.getitem(v, k)

    def ev_Slice(self, e, env):
        parts = [self.ev(x, env) if x is not None else None for x in (e.lower, e.upper, e.step)]
        if any(isinstance(p, Opaque) for p in parts):
            refuse("slice with unknown bounds")
        if any(p is not None and not isinstance(p, int) for p in parts):
            self.throw("TypeError", "slice indices must be integers")
        return slice(*parts)

    def getitem(self, v, k):
        if isinstance(v, Opaque):
            return Opaque("%s[...]" % v.label)
        if isinstance(v, Obj):
            m = v.methods.get("__getitem__") or self._class_method(v, "__getitem__")
            if m is None:
                refuse("subscript of the symbolic object %s" % v.label)
            return self.call(m, [k], {})
        if isinstance(v, Iter):
            self.throw("TypeError", "iterator is not subscriptable")
        if isinstance(v, (list, tuple, str, bytes, range)):
            if isinstance(k, Opaque):
                refuse("index by an unknown value")
            if not isinstance(k, (int, slice)):
                self.throw("TypeError", "indices must be integers or slices")
            return self._py(operator.getitem, v, k)
        if isinstance(v, dict):
            if isinstance(k, slice):
                self.throw("TypeError", "unhashable type: 'slice'")
            return self._py(operator.getitem, v, k)
        self.throw("TypeError", "%s object is not subscriptable" % type(v).__name__)

    def ev_Call(self, e, env):
        # zero-argument super()
        if isinstance(e.func, ast.Name) and e.func.id == "super" and not e.args and not e.keywords:
            fe = env.function_env()
            while fe is not None and (fe.func is None or fe.func.owner is None):
                fe = fe.parent
            if fe is None or not isinstance(fe.self_, Obj):
                refuse("super() outside a method")
            return SuperProxy(fe.self_, fe.func.owner)
        f = self.ev(e.func, env)
        args = []
        for a in e.args:
            if isinstance(a, ast.Starred):
                args.extend(self.iterate(self.ev(a.value, env)))
            else:
                args.append(self.ev(a, env))
        kwargs = {}
        for k in e.keywords:
            v = self.ev(k.value, env)
            if k.arg is None:
                if not isinstance(v, dict):
                    if isinstance(v, Opaque):
                        refuse("** of the unknown value %s" % v.label)
                    self.throw("TypeError", "argument after ** must be a mapping")
                for kk, vv in v.items():
                    if not isinstance(kk, str):
                        self.throw("TypeError", "keywords must be strings")
                    kwargs[kk] = vv
            else:
                kwargs[k.arg] = v
        return self.call(f, args, kwargs)

    def _comp(self, generators, env, produce):
        cenv = Env(env, env.module, comprehension=True)
        first = self.iterate(self.ev(generators[0].iter, env))

        def rec(i):
            g = generators[i]
            if g.is_async:
                refuse("asynchronous comprehension")
            it = first if i == 0 else self.iterate(self.ev(g.iter, cenv))
            for item in it:
                self.assign(g.target, item, cenv)
                if all(self.truth(self.ev(c, cenv)) for c in g.ifs):
                    if i + 1 == len(generators):
                        yield produce(cenv)
                    else:
                        yield from rec(i + 1)

        return rec(0)

    def ev_ListComp(self, e, env):
        return list(self._comp(e.generators, env, lambda ce: self.ev(e.elt, ce)))

    def ev_SetComp(self, e, env):
        return self._py(set, list(self._comp(e.generators, env, lambda ce: self.ev(e.elt, ce))))

    def ev_DictComp(self, e, env):
        d = {}
        for k, v in self._comp(e.generators, env, lambda ce: (self.ev(e.key, ce), self.ev(e.value, ce))):
            self._py(d.__setitem__, k, v)
        return d

    def ev_GeneratorExp(self, e, env):
        return Iter(self._comp(e.generators, env, lambda ce: self.ev(e.elt, ce)), "generator expression")

    def ev_Starred(self, e, env):
        refuse("starred expression outside a call or display")

    # -- assignment ----------------------------------------------------------------------------
    def assign(self, t, v, env):
        if isinstance(t, ast.Name):
            self.setvar(t.id, v, env)
        elif isinstance(t, ast.Attribute):
            self.setattr_(self.ev(t.value, env), t.attr, v)
        elif isinstance(t, ast.Subscript):
            c = self.ev(t.value, env)
            k = self.ev(t.slice, env)
            self.setitem(c, k, v)
        elif isinstance(t, (ast.Tuple, ast.List)):
            if isinstance(v, Opaque):
                for x in t.elts:
                    self.assign(x.value if isinstance(x, ast.Starred) else x, Opaque("%s[i]" % v.label), env)
                return
            if isinstance(v, (Obj,)) and "__iter__" not in v.methods and self._class_method(v, "__iter__") is None:
                self.throw("TypeError", "cannot unpack non-iterable object")
            if not isinstance(v, _CONCRETE_ITER + (Iter, Obj)):
                self.throw("TypeError", "cannot unpack non-iterable %s" % type(v).__name__)
            items = list(self.iterate(v))
            stars = [i for i, x in enumerate(t.elts) if isinstance(x, ast.Starred)]
            if not stars:
                if len(items) != len(t.elts):
                    self.throw("ValueError", "not enough values to unpack" if len(items) < len(t.elts) else "too many values to unpack")
                for x, item in zip(t.elts, items):
                    self.assign(x, item, env)
            else:
                s = stars[0]
                after = len(t.elts) - s - 1
                if len(items) < len(t.elts) - 1:
                    self.throw("ValueError", "not enough values to unpack")
                for x, item in zip(t.elts[:s], items[:s]):
                    self.assign(x, item, env)
                self.assign(t.elts[s].value, items[s:len(items) - after], env)
                for x, item in zip(t.elts[s + 1:], items[len(items) - after:]):
                    self.assign(x, item, env)
        else:
            refuse("assignment target %s" % type(t).__name__)

    def setitem(self, c, k, v):
        if isinstance(c, Opaque):
            return
        if isinstance(c, Obj):
            m = self._class_method(c, "__setitem__")
            if m is None:
                refuse("item assignment on the symbolic object %s" % c.label)
            self.call(m, [k, v], {})
            return
        if isinstance(c, list):
            if isinstance(k, slice):
                v = list(self.iterate(v))
            elif not isinstance(k, int):
                self.throw("TypeError", "list indices must be integers or slices")
            self._py(operator.setitem, c, k, v)
            return
        if isinstance(c, dict):
            if isinstance(k, slice):
                self.throw("TypeError", "unhashable type: 'slice'")
            self._py(operator.setitem, c, k, v)
            return
        self.throw("TypeError", "%s object does not support item assignment" % type(c).__name__)

    def delete(self, t, env):
        if isinstance(t, ast.Name):
            fe = env
            while fe is not None:
                if t.id in fe.vars:
                    del fe.vars[t.id]
                    return
                fe = fe.parent if fe.comprehension else None
            self.throw("NameError", t.id)
        elif isinstance(t, ast.Subscript):
            c = self.ev(t.value, env)
            k = self.ev(t.slice, env)
            if isinstance(c, Opaque):
                return
            if isinstance(c, Obj):
                m = self._class_method(c, "__delitem__")
                if m is None:
                    refuse("item deletion on the symbolic object %s" % c.label)
                self.call(m, [k], {})
                return
            if not isinstance(c, (list, dict)):
                self.throw("TypeError", "object doesn't support item deletion")
            if isinstance(c, dict) and isinstance(k, slice):
                self.throw("TypeError", "unhashable type: 'slice'")
            self._py(operator.delitem, c, k)
        elif isinstance(t, ast.Attribute):
            o = self.ev(t.value, env)
            if isinstance(o, Obj):
                if t.attr not in o.attrs:
                    self.throw("AttributeError", t.attr)
                del o.attrs[t.attr]
                if o.open_:
                    o.absent.add(t.attr)
            elif not isinstance(o, Opaque):
                self.throw("AttributeError", t.attr)
        elif isinstance(t, (ast.Tuple, ast.List)):
            for x in t.elts:
                self.delete(x, env)
        else:
            refuse("del target %s" % type(t).__name__)

    # -- statements (generators: they yield what `yield` statements of the analysed code produce) --
    def exec_block(self, stmts, env):
        for st in stmts:
            self.tick()
            m = getattr(self, "ex_" + type(st).__name__, None)
            if m is None:
                refuse("statement kind %s" % type(st).__name__)
            r = m(st, env)
            if r is not None:
                yield from r

    def ex_Expr(self, st, env):
        v = st.value
        if isinstance(v, ast.Yield):
            return self._yield(v, env)
        if isinstance(v, ast.YieldFrom):
            return self._yield_from(v, env)
        self.ev(v, env)

    def _yield(self, v, env):
        yield (self.ev(v.value, env) if v.value is not None else None)

    def _yield_from(self, v, env):
        for x in self.iterate(self.ev(v.value, env)):
            yield x

    def ev_Yield(self, e, env):
        refuse("yield used as an expression")

    ev_YieldFrom = ev_Yield

    def ex_Pass(self, st, env):
        return None

    def ex_Assign(self, st, env):
        v = self.ev(st.value, env)
        for t in st.targets:
            self.assign(t, v, env)

    def ex_AnnAssign(self, st, env):
        if st.value is not None:
            self.assign(st.target, self.ev(st.value, env), env)

    def ex_AugAssign(self, st, env):
        t = st.target
        if isinstance(t, ast.Name):
            cur = self.lookup(t.id, env)
            new = self._aug(type(st.op), cur, self.ev(st.value, env))
            self.setvar(t.id, new, env)
        elif isinstance(t, ast.Attribute):
            o = self.ev(t.value, env)
            cur = self.getattr_(o, t.attr)
            self.setattr_(o, t.attr, self._aug(type(st.op), cur, self.ev(st.value, env)))
        elif isinstance(t, ast.Subscript):
            c = self.ev(t.value, env)
            k = self.ev(t.slice, env)
            cur = self.getitem(c, k)
            self.setitem(c, k, self._aug(type(st.op), cur, self.ev(st.value, env)))
        else:
            refuse("augmented assignment target")

    def _aug(self, op, cur, v):
        if op is ast.Add and isinstance(cur, list):
            cur.extend(self.iterate(v))  # in place, like list.__iadd__
            return cur
        if op is ast.BitOr and isinstance(cur, (set, dict)) and isinstance(v, (set, frozenset, dict)):
            cur.update(v)
            return cur
        return self.binop(op, cur, v)

    def ex_Return(self, st, env):
        raise _Return(self.ev(st.value, env) if st.value is not None else None)

    def ex_Break(self, st, env):
        raise _Break()

    def ex_Continue(self, st, env):
        raise _Continue()

    def ex_Delete(self, st, env):
        for t in st.targets:
            self.delete(t, env)

    def ex_Assert(self, st, env):
        try:
            ok = self.truth(self.ev(st.test, env))
        except AnalysisError:
            return None  # an assertion about details the rule leaves open
        if not ok:
            self.throw("AssertionError")

    def ex_Global(self, st, env):
        env.globals_.update(st.names)

    def ex_Nonlocal(self, st, env):
        env.nonlocals.update(st.names)

    def ex_Import(self, st, env):
        for a in st.names:
            if a.asname:
                self.setvar(a.asname, self.qualified(a.name), env)
            else:
                self.setvar(a.name.split(".")[0], self.qualified(a.name.split(".")[0]), env)

    def ex_ImportFrom(self, st, env):
        m = env.module
        pkgparts = m.name.split(".") if m.is_pkg else m.name.split(".")[:-1]
        if st.level:
            base = pkgparts[: len(pkgparts) - (st.level - 1)]
            modname = ".".join(base + ([st.module] if st.module else []))
        else:
            modname = st.module or ""
        for a in st.names:
            self.setvar(a.asname or a.name, self.qualified(modname + "." + a.name), env)

    def ex_FunctionDef(self, st, env):
        if st.decorator_list:
            refuse("decorated nested function %s" % st.name)
        self.setvar(st.name, self.make_func(st, env), env)

    ex_AsyncFunctionDef = ex_FunctionDef

    def ex_If(self, st, env):
        if self.truth(self.ev(st.test, env)):
            return self.exec_block(st.body, env)
        return self.exec_block(st.orelse, env)

    def ex_While(self, st, env):
        return self._while(st, env)

    def _while(self, st, env):
        broke = False
        while self.truth(self.ev(st.test, env)):
            self.tick()
            try:
                yield from self.exec_block(st.body, env)
            except _Break:
                broke = True
                break
            except _Continue:
                continue
        if not broke:
            yield from self.exec_block(st.orelse, env)

    def ex_For(self, st, env):
        return self._for(st, env)

    def _for(self, st, env):
        broke = False
        for item in self.iterate(self.ev(st.iter, env)):
            self.assign(st.target, item, env)
            try:
                yield from self.exec_block(st.body, env)
            except _Break:
                broke = True
                break
            except _Continue:
                continue
        if not broke:
            yield from self.exec_block(st.orelse, env)

    def ex_With(self, st, env):
        return self._with(st, env, 0)

    ex_AsyncWith = ex_With

    def _with(self, st, env, i):
        if i == len(st.items):
            yield from self.exec_block(st.body, env)
            return
        it = st.items[i]
        v = self.ev(it.context_expr, env)
        if isinstance(v, Awaitable):
            v = v.thunk()
        if isinstance(v, Suppress):
            if it.optional_vars is not None:
                self.assign(it.optional_vars, None, env)
            try:
                yield from self._with(st, env, i + 1)
            except Raised as r:
                if not any(self._exc_matches(r.exc, c) for c in v.classes):
                    raise
            return
        if not isinstance(v, Opaque):
            # a context manager whose __exit__ the evaluator would have to model
            refuse("the context manager %r" % (v,))
        if it.optional_vars is not None:
            self.assign(it.optional_vars, Opaque("%s.__enter__()" % v.label), env)
        yield from self._with(st, env, i + 1)

    def ex_Try(self, st, env):
        return self._try(st, env)

    def _exc_matches(self, exc, c):
        if isinstance(c, ClassVal):
            return self.isinstance_exc(exc, c.qn)
        if isinstance(c, ExtVal):
            return exc.cls is not None and c.qn in self.prog.mro(exc.cls)
        refuse("except clause naming %r" % (c,))

    def _handler_matches(self, h, exc, env):
        if h.type is None:
            return True
        t = self.ev(h.type, env)
        return any(self._exc_matches(exc, c) for c in (t if isinstance(t, tuple) else (t,)))

    def _try(self, st, env):
        try:
            try:
                yield from self.exec_block(st.body, env)
            except Raised as r:
                handled = False
                for h in st.handlers:
                    if self._handler_matches(h, r.exc, env):
                        handled = True
                        if h.name:
                            self.setvar(h.name, r.exc, env)
                        self._exc_stack.append(r)
                        try:
                            yield from self.exec_block(h.body, env)
                        finally:
                            self._exc_stack.pop()
                        break
                if not handled:
                    raise
            else:
                yield from self.exec_block(st.orelse, env)
        finally:
            if st.finalbody:
                # a jump inside `finally` overrides the pending one, as in Python
                yield from self.exec_block(st.finalbody, env)

    def ex_Raise(self, st, env):
        if st.exc is None:
            if not self._exc_stack:
                self.throw("RuntimeError", "No active exception to reraise")
            raise self._exc_stack[-1]
        v = self.ev(st.exc, env)
        if isinstance(v, ClassVal):
            v = self.instantiate(v, [], {})
        if isinstance(v, Opaque):
            refuse("raise of the unknown value %s" % v.label)
        if not (isinstance(v, Obj) and v.cls is not None and self.prog.is_subclass(v.cls, "BaseException")):
            self.throw("TypeError", "exceptions must derive from BaseException")
        if st.cause is not None:
            self.ev(st.cause, env)
        raise Raised(v)

    def ex_Match(self, st, env):
        subject = self.ev(st.subject, env)
        for case in st.cases:
            if self.match_pattern(case.pattern, subject, env):
                if case.guard is None or self.truth(self.ev(case.guard, env)):
                    return self.exec_block(case.body, env)
        return None

    def match_pattern(self, p, v, env):
        if isinstance(p, ast.MatchValue):
            return self.compare(ast.Eq, v, self.ev(p.value, env))
        if isinstance(p, ast.MatchSingleton):
            return self.compare(ast.Is, v, p.value)
        if isinstance(p, ast.MatchOr):
            return any(self.match_pattern(x, v, env) for x in p.patterns)
        if isinstance(p, ast.MatchAs):
            if p.pattern is not None and not self.match_pattern(p.pattern, v, env):
                return False
            if p.name:
                self.setvar(p.name, v, env)
            return True
        if isinstance(p, ast.MatchSequence):
            if isinstance(v, Opaque):
                refuse("match on the unknown value %s" % v.label)
            if not isinstance(v, (list, tuple)):
                return False
            stars = [i for i, x in enumerate(p.patterns) if isinstance(x, ast.MatchStar)]
            if not stars:
                return len(v) == len(p.patterns) and all(self.match_pattern(x, y, env) for x, y in zip(p.patterns, v))
            s = stars[0]
            after = len(p.patterns) - s - 1
            if len(v) < len(p.patterns) - 1:
                return False
            ok = all(self.match_pattern(x, y, env) for x, y in zip(p.patterns[:s], v[:s])) and all(self.match_pattern(x, y, env) for x, y in zip(p.patterns[s + 1:], v[len(v) - after:]))
            if ok and p.patterns[s].name:
                self.setvar(p.patterns[s].name, list(v[s:len(v) - after]), env)
            return ok
        refuse("match pattern %s" % type(p).__name__)

    # -- entry point for the rules -----------------------------------------------------------------
    def run(self, f, args, kwargs=None):
        """-> ('return', value) | ('raise', exception object) | ('diverged', None)"""
        self.reset()
        self.active = True
        try:
            v = self.call(f, args, kwargs or {})
            if isinstance(v, Awaitable):
                v = v.thunk()
            return ("return", v)
        except Raised as r:
            return ("raise", r.exc)
        except Diverged:
            return ("diverged", None)
        except RecursionError:
            return ("diverged", None)
        except (_Break, _Continue):
            refuse("break/continue outside a loop")
        finally:
            self.active = False
            self.last_steps = self.steps
            self.steps = 0


def _all_scalar(v):
    if isinstance(v, _SCALARS):
        return True
    if isinstance(v, (list, tuple, set, frozenset)):
        return all(_all_scalar(x) for x in v)
    if isinstance(v, dict):
        return all(_all_scalar(k) and _all_scalar(x) for k, x in v.items())
    return False


_DUNDER = {ast.Add: "__add__", ast.Sub: "__sub__", ast.Mult: "__mul__", ast.Mod: "__mod__", ast.FloorDiv: "__floordiv__", ast.Div: "__truediv__",
           ast.BitAnd: "__and__", ast.BitOr: "__or__", ast.BitXor: "__xor__", ast.LShift: "__lshift__", ast.RShift: "__rshift__", ast.Pow: "__pow__"}


# ---------------------------------------------------------------------------
# builtins of the evaluator


def _b(name):
    def deco(fn):
        _BUILTINS[name] = Builtin(name, fn)
        return fn
    return deco


_BUILTINS = {
    "list": TypeVal("list", (list,)), "tuple": TypeVal("tuple", (tuple,)), "dict": TypeVal("dict", (dict,)), "set": TypeVal("set", (set,)),
    "frozenset": TypeVal("frozenset", (frozenset,)), "str": TypeVal("str", (str,)), "int": TypeVal("int", (int,)), "bool": TypeVal("bool", (bool,)),
    "bytes": TypeVal("bytes", (bytes,)), "float": TypeVal("float", (float,)), "object": TypeVal("object", (object,)), "range": TypeVal("range", (range,)),
    "type": TypeVal("type", (type,)), "slice": TypeVal("slice", (slice,)),
    "NotImplemented": Obj(label="NotImplemented"), "Ellipsis": Obj(label="Ellipsis"), "__debug__": True,
}


@_b("len")
def _len(it, a, k):
    (v,) = a
    if isinstance(v, Obj):
        m = v.methods.get("__len__") or it._class_method(v, "__len__")
        if m is None:
            it.throw("TypeError", "object has no len()")
        return it.call(m, [], {})
    if isinstance(v, Opaque):
        refuse("len of the unknown value %s" % v.label)
    if isinstance(v, Iter) or not isinstance(v, _CONCRETE_ITER):
        it.throw("TypeError", "object of type %r has no len()" % type(v).__name__)
    return len(v)


@_b("isinstance")
def _isinstance(it, a, k):
    return it.isinstance_(a[0], a[1])


@_b("issubclass")
def _issubclass(it, a, k):
    c, d = a
    ds = d if isinstance(d, tuple) else (d,)
    if isinstance(c, ClassVal) and all(isinstance(x, (ClassVal, ExtVal)) for x in ds):
        return any(it.prog.is_subclass(c.qn, x.qn) for x in ds)
    refuse("issubclass(%r, %r)" % (c, d))


@_b("hasattr")
def _hasattr(it, a, k):
    o, n = a
    if isinstance(o, Opaque):
        refuse("hasattr on the unknown value %s" % o.label)
    return it.hasattr_(o, n)


@_b("getattr")
def _getattr(it, a, k):
    if isinstance(a[1], Opaque):
        refuse("getattr with an unknown attribute name")
    if len(a) == 2:
        return it.getattr_(a[0], a[1])
    try:
        return it.getattr_(a[0], a[1])
    except Raised as r:
        if it.isinstance_exc(r.exc, "AttributeError"):
            return a[2]
        raise


@_b("setattr")
def _setattr(it, a, k):
    it.setattr_(a[0], a[1], a[2])


@_b("delattr")
def _delattr(it, a, k):
    o, n = a
    if isinstance(o, Obj):
        if n not in o.attrs:
            it.throw("AttributeError", n)
        del o.attrs[n]
        if o.open_:
            o.absent.add(n)


@_b("vars")
def _vars(it, a, k):
    if len(a) == 1 and isinstance(a[0], Obj) and not a[0].open_:
        return a[0].attrs
    if len(a) == 1 and isinstance(a[0], Obj):
        # an open object: its instance dictionary holds what was set, the rest is unknown but never private
        if a[0].private_absent:
            return a[0].attrs
    refuse("vars() of %r" % (a[0] if a else None,))


@_b("property")
def _property(it, a, k):
    names = ("fget", "fset", "fdel", "doc")
    vals = dict(zip(names, a))
    for n_, v_ in k.items():
        if n_ not in names or n_ in vals:
            it.throw("TypeError", "property() got an unexpected argument %r" % n_)
        vals[n_] = v_
    return Property(vals.get("fget"), vals.get("fset"), vals.get("fdel"))


@_b("callable")
def _callable(it, a, k):
    v = a[0]
    if isinstance(v, Opaque):
        refuse("callable() of an unknown value")
    return isinstance(v, (Func, Bound, Builtin, Partial, PyMethod, ClassVal, TypeVal)) or (isinstance(v, Obj) and (it._class_method(v, "__call__") is not None or "__call__" in v.methods))


@_b("iter")
def _iter(it, a, k):
    if len(a) != 1:
        refuse("iter() with a sentinel")
    return Iter(it.iterate(a[0]))


@_b("next")
def _next(it, a, k):
    v = a[0]
    if not isinstance(v, Iter):
        it.throw("TypeError", "object is not an iterator")
    for x in it.iterate(v):
        return x
    if len(a) > 1:
        return a[1]
    it.throw("StopIteration")


@_b("reversed")
def _reversed(it, a, k):
    v = a[0]
    if isinstance(v, (list, tuple, str, range, bytes)):
        return Iter(reversed(v), "reversed")
    if isinstance(v, dict) or isinstance(v, _DICT_VIEWS):
        return Iter(reversed(list(v)), "reversed")
    if isinstance(v, Opaque):
        refuse("reversed() of an unknown value")
    it.throw("TypeError", "argument to reversed() must be a sequence")


@_b("enumerate")
def _enumerate(it, a, k):
    start = a[1] if len(a) > 1 else k.get("start", 0)
    src = it.iterate(a[0])
    return Iter(((i, x) for i, x in enumerate(src, start)), "enumerate")


@_b("zip")
def _zip(it, a, k):
    srcs = [it.iterate(x) for x in a]
    if k.get("strict"):
        refuse("zip(strict=True)")
    return Iter(zip(*srcs), "zip")


@_b("map")
def _map(it, a, k):
    f = a[0]
    srcs = [it.iterate(x) for x in a[1:]]
    return Iter((it.call(f, list(xs)) for xs in zip(*srcs)), "map")


@_b("filter")
def _filter(it, a, k):
    f, src = a
    src = it.iterate(src)
    if f is None:
        return Iter((x for x in src if it.truth(x)), "filter")
    return Iter((x for x in src if it.truth(it.call(f, [x]))), "filter")


@_b("any")
def _any(it, a, k):
    for x in it.iterate(a[0]):
        if it.truth(x):
            return True
    return False


@_b("all")
def _all(it, a, k):
    for x in it.iterate(a[0]):
        if not it.truth(x):
            return False
    return True


@_b("sorted")
def _sorted(it, a, k):
    items = list(it.iterate(a[0]))
    key = k.get("key")
    rev = bool(k.get("reverse", False))
    if key is None:
        return it._py(sorted, items, reverse=rev)
    keyed = [(it.call(key, [x]), x) for x in items]
    order = it._py(lambda: sorted(range(len(keyed)), key=lambda i: keyed[i][0], reverse=rev))
    return [keyed[i][1] for i in order]


def _minmax(pyf):
    def fn(it, a, k):
        items = list(it.iterate(a[0])) if len(a) == 1 else list(a)
        key = k.get("key")
        if not items:
            if "default" in k:
                return k["default"]
            it.throw("ValueError", "empty sequence")
        if key is None:
            return it._py(pyf, items)
        keyed = [(it.call(key, [x]), x) for x in items]
        i = it._py(lambda: pyf(range(len(keyed)), key=lambda j: keyed[j][0]))
        return keyed[i][1]
    return fn


_BUILTINS["min"] = Builtin("min", _minmax(min))
_BUILTINS["max"] = Builtin("max", _minmax(max))


@_b("sum")
def _sum(it, a, k):
    total = a[1] if len(a) > 1 else k.get("start", 0)
    for x in it.iterate(a[0]):
        total = it.binop(ast.Add, total, x)
    return total


@_b("abs")
def _abs(it, a, k):
    if not isinstance(a[0], (int, float)):
        refuse("abs of a non-number")
    return abs(a[0])


@_b("divmod")
def _divmod(it, a, k):
    if not all(isinstance(x, (int, float)) for x in a):
        refuse("divmod of non-numbers")
    return it._py(divmod, *a)


@_b("repr")
def _repr(it, a, k):
    v = a[0]
    if _all_scalar(v):
        return repr(v)
    return Opaque("repr(...)")


@_b("print")
def _print(it, a, k):
    return None


@_b("id")
def _id(it, a, k):
    return id(a[0])


@_b("ord")
def _ord(it, a, k):
    return it._py(ord, a[0])


@_b("chr")
def _chr(it, a, k):
    return it._py(chr, a[0])


@_b("format")
def _format(it, a, k):
    if all(isinstance(x, _SCALARS) for x in a):
        return it._py(format, *a)
    return Opaque("format(...)")


@_b("super")
def _super(it, a, k):
    if len(a) == 2 and isinstance(a[0], ClassVal) and isinstance(a[1], Obj):
        return SuperProxy(a[1], a[0].qn)
    refuse("super() with these arguments")


def _partial(it, a, k):
    if not a:
        it.throw("TypeError", "partial() needs a callable")
    return Partial(a[0], a[1:], k)


def _chain(it, a, k):
    def gen():
        for src in a:
            yield from it.iterate(src)
    return Iter(gen(), "chain")


def _chain_from_iterable(it, a, k):
    def gen():
        for src in it.iterate(a[0]):
            yield from it.iterate(src)
    return Iter(gen(), "chain")


import string as _string
import builtins as _pybuiltins


def _binds_somewhere(tree, name):
    """is `name` bound at module level in a way the evaluator does not follow (conditional definition, try/except import, loop, with, del)?"""
    todo = list(tree.body)
    while todo:
        st = todo.pop()
        if isinstance(st, (ast.FunctionDef, ast.AsyncFunctionDef, ast.ClassDef)):
            if st.name == name:
                return True
            continue
        for n in ast.walk(st):
            if isinstance(n, ast.Name) and n.id == name and isinstance(n.ctx, ast.Store):
                return True
            if isinstance(n, ast.alias) and (n.asname or n.name.split(".")[0]) == name:
                return True
            if isinstance(n, (ast.FunctionDef, ast.AsyncFunctionDef, ast.ClassDef)) and n.name == name:
                return True
    return False

_EXT_CONSTS = {"string.ascii_letters": _string.ascii_letters, "string.ascii_lowercase": _string.ascii_lowercase, "string.ascii_uppercase": _string.ascii_uppercase,
               "string.digits": _string.digits, "string.hexdigits": _string.hexdigits, "string.punctuation": _string.punctuation}


def _quote(it, a, k):
    # urllib.parse.quote is the identity on unreserved ASCII text; anything else stays unknown
    if a and isinstance(a[0], str) and all(c.isascii() and (c.isalnum() or c in "-._~") for c in a[0]):
        return a[0]
    return Opaque("quote(...)")


def _shallow_obj(o):
    """copy.copy of a symbolic object: a new object of the same kind whose attribute table is a copy (the attribute values are shared)"""
    import copy as _copy
    n = _copy.copy(o)
    n.attrs = type(o.attrs)(o.attrs)
    n.methods = dict(o.methods)
    n.absent = set(o.absent)
    n.open_names = set(o.open_names)
    n.label = "copy of " + o.label
    return n


_EXTERNALS = {
    "contextlib.suppress": lambda it, a, k: Suppress(list(a)),
    "collections.OrderedDict": lambda it, a, k: it.construct_builtin(_BUILTINS["dict"], a, k),
    "urllib.parse.quote": _quote,
    "functools.partial": _partial,
    "itertools.chain": _chain,
    "itertools.chain.from_iterable": _chain_from_iterable,
    "warnings.warn": lambda it, a, k: None,
    "operator.itemgetter": lambda it, a, k: Builtin("itemgetter", lambda it2, a2, k2: it2.getitem(a2[0], a[0]) if len(a) == 1 else tuple(it2.getitem(a2[0], i) for i in a)),
    "operator.attrgetter": lambda it, a, k: Builtin("attrgetter", lambda it2, a2, k2: it2.getattr_(a2[0], a[0])),
    "operator.eq": lambda it, a, k: it.compare(ast.Eq, a[0], a[1]),
    "operator.ne": lambda it, a, k: it.compare(ast.NotEq, a[0], a[1]),
    "operator.contains": lambda it, a, k: it.compare(ast.In, a[1], a[0]),
    "operator.not_": lambda it, a, k: not it.truth(a[0]),
    "operator.add": lambda it, a, k: it.binop(ast.Add, a[0], a[1]),
    "operator.getitem": lambda it, a, k: it.getitem(a[0], a[1]),
    "copy.copy": lambda it, a, k: (a[0].copy() if isinstance(a[0], (list, dict, set)) else a[0] if isinstance(a[0], _SCALARS + (tuple, frozenset)) else _shallow_obj(a[0]) if isinstance(a[0], Obj) else refuse("copy.copy of %r" % (a[0],))),
}


# ---------------------------------------------------------------------------
# static helpers


def table_writers(prog, tables):
    """{table: {function short name: [(kind, node)]}}: every function of the package that may modify
    `<x>.<table>` -- directly (rulekit.stores_to_any) or through a local that may denote the table
    (`reg = self._subsites`, `reg = self._subsites if c else self._resources`, `reg = a or b`, several
    assignments, for-loop over a tuple of tables): item assignment, `del`, augmented assignment and
    mutating method calls through such a local count as writes of every table the local may denote."""
    MUT = {"pop", "update", "setdefault", "clear", "popitem", "__setitem__", "__delitem__"}
    out = {t: {} for t in tables}

    def denotes(e):
        """tables an expression may evaluate to"""
        if isinstance(e, ast.Attribute) and e.attr in tables and isinstance(e.ctx, ast.Load):
            return {e.attr}
        if isinstance(e, ast.IfExp):
            return denotes(e.body) | denotes(e.orelse)
        if isinstance(e, ast.BoolOp):
            s = set()
            for v in e.values:
                s |= denotes(v)
            return s
        if isinstance(e, ast.NamedExpr):
            return denotes(e.value)
        if isinstance(e, ast.Call) and chain(e.func) == "getattr" and len(e.args) >= 2 and isinstance(e.args[1], ast.Constant) and e.args[1].value in tables:
            return {e.args[1].value}
        if isinstance(e, (ast.Tuple, ast.List, ast.Set)):
            s = set()
            for v in e.elts:
                s |= denotes(v)
            return s
        if isinstance(e, ast.Dict):
            s = set()
            for v in e.values:
                s |= denotes(v)
            return s
        if isinstance(e, ast.Subscript) and isinstance(e.value, (ast.Tuple, ast.List, ast.Dict)):
            return denotes(e.value)  # selection from a display of tables
        return set()

    for fi in prog.funcs.values():
        direct = {t: stores_to_any(fi.node, t) for t in tables}
        for t, hits in direct.items():
            if hits:
                out[t].setdefault(fi.short, []).extend(hits)
        alias = {}
        for _ in range(3):
            for n in walk_no_nested(fi.node):
                tgt = val = None
                if isinstance(n, ast.Assign) and len(n.targets) == 1:
                    tgt, val = n.targets[0], n.value
                elif isinstance(n, ast.NamedExpr):
                    tgt, val = n.target, n.value
                elif isinstance(n, (ast.For, ast.AsyncFor)):
                    tgt, val = n.target, n.iter
                elif isinstance(n, ast.comprehension):
                    tgt, val = n.target, n.iter
                if tgt is None:
                    continue
                if isinstance(tgt, ast.Name):
                    s = denotes(val) | (alias.get(val.id, set()) if isinstance(val, ast.Name) else set())
                    if s:
                        alias[tgt.id] = alias.get(tgt.id, set()) | s
                elif isinstance(tgt, (ast.Tuple, ast.List)) and isinstance(val, (ast.Tuple, ast.List)) and len(tgt.elts) == len(val.elts):
                    for a_, b_ in zip(tgt.elts, val.elts):
                        if isinstance(a_, ast.Name) and denotes(b_):
                            alias[a_.id] = alias.get(a_.id, set()) | denotes(b_)
        def recv(e):
            """tables a receiver expression may denote (other than the plain `x.<table>` chain, which stores_to_any covers)"""
            if isinstance(e, ast.Name):
                return alias.get(e.id, set())
            if isinstance(e, ast.Attribute):
                return set()
            return denotes(e)

        for n in walk_no_nested(fi.node):
            hits = []
            if isinstance(n, (ast.Assign, ast.AugAssign, ast.AnnAssign, ast.Delete)):
                tg = n.targets if isinstance(n, (ast.Assign, ast.Delete)) else [n.target]
                for t_ in tg:
                    for tt in (t_.elts if isinstance(t_, (ast.Tuple, ast.List)) else [t_]):
                        if isinstance(tt, ast.Subscript) and recv(tt.value):
                            hits.append(("delitem" if isinstance(n, ast.Delete) else "setitem", recv(tt.value)))
                        elif isinstance(n, ast.AugAssign) and isinstance(tt, ast.Name) and tt.id in alias:
                            hits.append(("augassign", alias[tt.id]))
            elif isinstance(n, ast.Call) and isinstance(n.func, ast.Attribute) and n.func.attr in MUT and recv(n.func.value):
                hits.append((n.func.attr, recv(n.func.value)))
            for kind, ts in hits:
                for t in ts:
                    out[t].setdefault(fi.short, []).append((kind, n))
    return out


def self_state_reads(prog, fi, clsqn, _seen=None):
    """{attribute name: first node} of `self.<attr>` reads (incl. getattr/hasattr(self, "<attr>")) in `fi` and,
    transitively, in the methods of the class it calls through `self.<method>(...)` / passes around as `self.<method>`;
    names that are methods of the class are followed, not reported."""
    _seen = _seen if _seen is not None else set()
    if fi.qn in _seen:
        return {}
    _seen.add(fi.qn)
    out = {}
    ps = params(fi, skip_self=False)
    if not ps:
        return out
    me = ps[0]
    for n in ast.walk(fi.node):
        name = None
        if isinstance(n, ast.Attribute) and isinstance(n.value, ast.Name) and n.value.id == me and isinstance(n.ctx, ast.Load):
            name = n.attr
        elif isinstance(n, ast.Call) and chain(n.func) in ("getattr", "hasattr") and len(n.args) >= 2 and isinstance(n.args[0], ast.Name) and n.args[0].id == me:
            name = n.args[1].value if isinstance(n.args[1], ast.Constant) and isinstance(n.args[1].value, str) else "<computed>"
        elif isinstance(n, ast.Call) and chain(n.func) == "vars" and n.args and isinstance(n.args[0], ast.Name) and n.args[0].id == me:
            name = "<computed>"
        elif isinstance(n, ast.Attribute) and n.attr == "__dict__" and isinstance(n.value, ast.Name) and n.value.id == me:
            name = "<computed>"
        if name is None:
            continue
        m = prog.lookup_method(clsqn, name)
        if m is not None:
            for k, v in self_state_reads(prog, m, clsqn, _seen).items():
                out.setdefault(k, n)
        else:
            out.setdefault(name, n)
    return out


def instance_written_attrs(prog, modules=None):
    """names of attributes assigned through any receiver (`x.attr = ...`, `x.attr += ...`, setattr(x, "attr", ..)) anywhere in the package"""
    out = set()
    for m in prog.modules.values():
        if modules is not None and m.name not in modules:
            continue
        for n in ast.walk(m.tree):
            if isinstance(n, ast.Attribute) and isinstance(n.ctx, (ast.Store, ast.Del)):
                out.add(n.attr)
            elif isinstance(n, ast.Call) and chain(n.func) in ("setattr", "delattr") and len(n.args) >= 2:
                out.add(n.args[1].value if isinstance(n.args[1], ast.Constant) else "<computed>")
    return out
