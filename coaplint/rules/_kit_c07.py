"""Helpers of the C07 rules (rules/c07.py).

1. `sem_equiv / sem_implies` -- equivalence / implication of two DNFs of comparison normal forms
   (the literals produced by c05.nf_conds) decided *semantically*: every linear form that occurs in an
   arithmetic literal is one integer variable whose line is cut into cells by the literals' thresholds, every
   other literal is one boolean; the two DNFs are evaluated in every cell.
2. `write_values`         -- per-name values of assignments including tuple destructuring.
3. `returned_elements`    -- what a helper returns (element-wise for tuples) for interprocedural def-use.

Nothing here looks at names of locals/helpers, statement positions or source text.
"""

import ast
import itertools
import math
from fractions import Fraction

from ..rulekit import *
from ..norm import Poly

# ---------------------------------------------------------------------------
# 1. semantic comparison of DNFs over comparison normal forms


def _lin(p):
    """p = a*form + c  ->  (form key, a, c); form is a primitive integer combination of monomials with a
    positive leading coefficient; (None, 0, c) for a constant."""
    terms = {k: v for k, v in p.t.items() if k != ()}
    c = p.t.get((), Fraction(0))
    if not terms:
        return None, Fraction(0), c
    keys = sorted(terms)
    den = 1
    for k in keys:
        den = den * terms[k].denominator // math.gcd(den, terms[k].denominator)
    ints = [int(terms[k] * den) for k in keys]
    g = 0
    for v in ints:
        g = math.gcd(g, abs(v))
    if ints[0] < 0:
        g = -g
    form = tuple((k, v // g) for k, v in zip(keys, ints))
    a = Fraction(g, den)
    return form, a, c


def _boolkey(l):
    k = l[0]
    if k in ("is", "isnot"):
        return ("is",) + tuple(sorted(map(str, l[1:]))), k == "is"
    if k in ("in", "notin"):
        return ("in",) + tuple(map(str, l[1:])), k == "in"
    if k in ("truth", "nottruth"):
        return ("truth", str(l[1])), k == "truth"
    if k in ("eq", "ne") and len(l) == 3:
        return ("eq",) + tuple(sorted(map(str, l[1:]))), k == "eq"
    raise AnalysisError("C07: literal %r is outside the vocabulary of the semantic comparison" % (l,))


def _arith(l):
    return l[0] in ("lt", "le", "eq", "ne") and len(l) == 2 and isinstance(l[1], Poly)


class _Space:
    def __init__(self, lits):
        self.forms = {}  # form -> set of thresholds
        self.bools = set()
        self.info = {}
        for l in lits:
            if l in self.info:
                continue
            if _arith(l):
                form, a, c = _lin(l[1])
                self.info[l] = ("a", form, a, c)
                if form is not None:
                    self.forms.setdefault(form, set()).add(-c / a)
            else:
                key, pol = _boolkey(l)
                self.info[l] = ("b", key, pol)
                self.bools.add(key)
        self.forms_l = sorted(self.forms)
        self.bools_l = sorted(self.bools)
        # `x is None` and comparisons of x with numbers are not independent: x is None or a number.  A linear
        # form that is just the quantity x gets None as a further value, taken exactly in the cells where the
        # boolean `x is None` is true (there `x == c` is false and `x != c` true, as in Python; an ordering
        # comparison would raise and is left undecided).  Without this `x is not None and x == 0` and `x == 0`
        # would be different conditions.
        self.none_link = {}
        for key in self.bools_l:
            if key[0] == "is" and len(key) == 3 and "None" in key[1:]:
                other = [x for x in key[1:] if x != "None"]
                form = ((((other[0], 1),), 1),) if len(other) == 1 else None
                if form in self.forms:
                    self.none_link[form] = key

    def samples(self, form):
        out = set()
        for th in self.forms[form]:
            f = math.floor(th)
            out.update((f - 1, f, f + 1, f + 2))
        return sorted(out) + ([None] if form in self.none_link else [])

    def size(self):
        n = 2 ** len(self.bools_l)
        for f in self.forms_l:
            n *= len(self.samples(f))
        return n

    def assignments(self):
        doms = [self.samples(f) for f in self.forms_l] + [(False, True)] * len(self.bools_l)
        nf = len(self.forms_l)
        for combo in itertools.product(*doms):
            fv, bv = dict(zip(self.forms_l, combo[:nf])), dict(zip(self.bools_l, combo[nf:]))
            if any((fv[f] is None) != bv[k] for f, k in self.none_link.items()):
                continue
            yield fv, bv

    def lit(self, l, fv, bv):
        inf = self.info[l]
        if inf[0] == "b":
            return bv[inf[1]] == inf[2]
        _, form, a, c = inf
        k = l[0]
        if form is not None and fv[form] is None:
            if k in ("eq", "ne"):
                return k == "ne"
            raise Undecided("C07: a condition orders %s although it may be None" % form[0][0][0][0])
        val = c if form is None else a * fv[form] + c
        if k == "lt":
            return val < 0
        if k == "le":
            return val <= 0
        if k == "eq":
            return val == 0
        return val != 0

    def dnf(self, D, fv, bv):
        return any(all(self.lit(l, fv, bv) for l in c) for c in D)

    def dependent(self):
        """are the linear forms linearly dependent (then some cells are infeasible)?"""
        monos = sorted({k for f in self.forms_l for k, _ in f})
        rows = [[Fraction(dict(f).get(m, 0)) for m in monos] for f in self.forms_l]
        rank = 0
        for col in range(len(monos)):
            piv = None
            for r in range(rank, len(rows)):
                if rows[r][col] != 0:
                    piv = r
                    break
            if piv is None:
                continue
            rows[rank], rows[piv] = rows[piv], rows[rank]
            for r in range(len(rows)):
                if r != rank and rows[r][col] != 0:
                    fct = rows[r][col] / rows[rank][col]
                    rows[r] = [x - fct * y for x, y in zip(rows[r], rows[rank])]
            rank += 1
        return rank < len(self.forms_l)

    def describe(self, fv, bv):
        parts = []
        for f, v in fv.items():
            parts.append("%s = %s" % (" + ".join("%s*%s" % (c, "*".join(a for a, _ in k)) for k, c in f), v))
        for k, v in bv.items():
            parts.append("%s%s" % ("" if v else "not ", " ".join(k)))
        return ", ".join(parts)


class Undecided(AnalysisError):
    pass


def _compare(D1, D2, assume, mode, limit=400000, under=None):
    """`assume`: a conjunction of literals, `under`: a DNF -- only the cells in which both hold are compared
    (a premise that is itself a disjunction, e.g. 'the entry was found under the first key or else under the
    second', cannot be written as a set of literals)."""
    D1 = [frozenset(c) for c in D1]
    D2 = [frozenset(c) for c in D2]
    assume = frozenset(assume)
    under = None if under is None else [frozenset(c) for c in under]
    sp = _Space([l for c in D1 for l in c] + [l for c in D2 for l in c] + list(assume) + [l for c in (under or ()) for l in c])
    if sp.size() > limit:
        raise Undecided("C07: the condition has too many cells to compare (%d)" % sp.size())
    for fv, bv in sp.assignments():
        if not all(sp.lit(l, fv, bv) for l in assume):
            continue
        if under is not None and not sp.dnf(under, fv, bv):
            continue
        v1, v2 = sp.dnf(D1, fv, bv), sp.dnf(D2, fv, bv)
        if (mode == "eq" and v1 != v2) or (mode == "imp" and v1 and not v2):
            if sp.dependent():
                raise Undecided("C07: the comparisons of the condition are over linearly dependent quantities; the semantic comparison cannot decide it")
            return False, sp.describe(fv, bv)
    return True, None


def sem_equiv(D1, D2, assume=(), under=None):
    """(equivalent?, counterexample text).  Sound for 'equivalent' in general; a counterexample is genuine
    when the linear forms are independent (otherwise Undecided is raised)."""
    return _compare(D1, D2, assume, "eq", under=under)


def sem_implies(D1, D2, assume=(), under=None):
    return _compare(D1, D2, assume, "imp", under=under)


def sem_satisfiable(conj):
    """is the conjunction of literals true in some cell?"""
    conj = frozenset(conj)
    sp = _Space(list(conj))
    return any(all(sp.lit(l, fv, bv) for l in conj) for fv, bv in sp.assignments())


def atoms_of(l):
    """names of the quantities a literal talks about"""
    out = set()
    for x in l[1:]:
        if isinstance(x, Poly):
            out |= set(x.atoms())
        elif isinstance(x, str):
            out.add(x)
    return out


def project_away(D, decisive):
    """Existential projection of a DNF: the condition `exists <values of the quantities in decisive>. D` over the
    remaining quantities.  For a DNF that is: every satisfiable conjunction without its literals that mention a
    projected quantity (a literal mentioning both kinds of quantity would make this an over-approximation; the
    callers refuse that)."""
    out = set()
    for c in D:
        c = frozenset(c)
        if not sem_satisfiable(c):
            continue
        out.add(frozenset(l for l in c if not (atoms_of(l) & decisive)))
    return out


def forms_of(D):
    out = set()
    for c in D:
        for l in c:
            if _arith(l):
                f, _a, _c = _lin(l[1])
                if f is not None:
                    out.add(f)
    return out


def rename_atoms(l, fn):
    """literal with every atom name x replaced by fn(x)"""
    if _arith(l):
        t = {}
        for k, v in l[1].t.items():
            nk = {}
            for a, pw in k:
                a2 = fn(a)
                nk[a2] = nk.get(a2, 0) + pw
            nk = tuple(sorted(nk.items()))
            t[nk] = t.get(nk, 0) + v
        return (l[0], Poly(t))
    return (l[0],) + tuple(fn(x) if isinstance(x, str) else x for x in l[1:])


# ---------------------------------------------------------------------------
# 2. values written to a local, element-wise through tuple destructuring


def _destructure(target, value, name, out, st):
    if isinstance(target, ast.Name):
        if target.id == name:
            out.append((st, value))
        return
    if isinstance(target, (ast.Tuple, ast.List)):
        if not any(isinstance(x, ast.Name) and x.id == name for x in ast.walk(target)):
            return
        if value is not None and isinstance(value, (ast.Tuple, ast.List)) and len(value.elts) == len(target.elts) \
                and not any(isinstance(x, ast.Starred) for x in list(value.elts) + list(target.elts)):
            for t, v in zip(target.elts, value.elts):
                _destructure(t, v, name, out, st)
        else:
            out.append((st, None))
        return
    if any(isinstance(x, ast.Name) and x.id == name and isinstance(x.ctx, ast.Store) for x in ast.walk(target)):
        out.append((st, None))


def write_values(fnode, name):
    """[(statement, value expression or None)] for every binding of local `name`; `a, b = x, y` binds a to x."""
    out = []
    for st in writes_to_name(fnode, name):
        if isinstance(st, ast.Assign):
            for t in st.targets:
                _destructure(t, st.value, name, out, st)
        elif isinstance(st, (ast.AnnAssign, ast.NamedExpr)):
            out.append((st, st.value))  # `name: T = v`, `(name := v)`
        else:
            out.append((st, None))
    return out


# ---------------------------------------------------------------------------
# 3. what a helper returns


def returned_elements(fi, index=None):
    """Expressions a function can return (the index-th element when it returns tuples), or None when some
    return cannot be read that way.  A function falling off its end returns None (a Constant)."""
    outs = []
    cfg = cfg_of(fi)
    rets = [n for n in walk_no_nested(fi.node) if isinstance(n, ast.Return)]
    for r in rets:
        v = r.value if r.value is not None else ast.Constant(value=None)
        v = resolve_local(fi.node, v)
        if index is None:
            outs.append((r, v))
        elif isinstance(v, ast.Tuple) and index < len(v.elts) and not any(isinstance(x, ast.Starred) for x in v.elts):
            outs.append((r, v.elts[index]))
        else:
            return None
    if not rets or not cfg.must_pass(cfg.entry, [cfg.loc1(r) for r in rets]):
        if index is not None:
            return None
        outs.append((fi.node, ast.Constant(value=None)))
    return outs


# ---------------------------------------------------------------------------
# 4. the condition under which a node executes, over *paths* (not over dominating `if`s)


def _simplify_dnf(D, limit=4000):
    """merge c&x | c&~x -> c and drop absorbed conjunctions; literals are (test id, polarity)"""
    D = set(D)
    changed = True
    while changed:
        changed = False
        if len(D) > limit:
            raise AnalysisError("C07: path condition grows beyond its bound")
        D = {c for c in D if not any(o < c for o in D)}
        lst = sorted(D, key=lambda c: (len(c), sorted(c)))
        for i, c1 in enumerate(lst):
            for c2 in lst[i + 1:]:
                if len(c1) != len(c2):
                    continue
                diff = c1 ^ c2
                if len(diff) == 2:
                    (t1, p1), (t2, p2) = tuple(diff)
                    if t1 == t2 and p1 != p2:
                        D.discard(c1)
                        D.discard(c2)
                        D.add(c1 & c2)
                        changed = True
                        break
            if changed:
                break
    return D


def path_conditions(fi, node_id, start=None, avoid=()):
    """Alternatives [(test expr, polarity), ...] such that CFG node `node_id` is reached from `start` (default:
    function entry) within one pass (no back edge) exactly when one alternative holds at its tests.  Computed by
    propagating conditions along all paths and merging at joins, so early returns / continue / nested or
    sequential ifs / guard order give the same result as the equivalent if-else nest.  A decision that does not
    influence whether the node is reached disappears at the join of its two arms.  Ways through a node of
    `avoid` do not count."""
    cfg = cfg_of(fi)
    start = cfg.entry if start is None else start
    avoid = set(avoid) - {start, node_id}
    fwd = cfg.reach({start}, avoid=avoid, skip_labels=("back",)) | {start}
    if node_id not in fwd:
        return []
    # nodes from which node_id is reachable without a back edge
    back = {node_id}
    todo = [node_id]
    while todo:
        n = todo.pop()
        for p, lab in cfg.pred[n]:
            if lab == "back" or p in back or p in avoid:
                continue
            back.add(p)
            todo.append(p)
    sub = fwd & back
    preds = {n: [p for p, lab in cfg.pred[n] if lab != "back" and p in sub and n != start] for n in sub}
    order = []
    state = {}

    def visit(n):
        stack = [(n, iter(preds[n]))]
        state[n] = 1
        while stack:
            m, it = stack[-1]
            adv = False
            for p in it:
                if state.get(p) is None:
                    state[p] = 1
                    stack.append((p, iter(preds[p])))
                    adv = True
                    break
                if state[p] == 1:
                    raise AnalysisError("C07: cycle without back edge in the CFG of %s" % fi.short)
            if not adv:
                state[m] = 2
                order.append(m)
                stack.pop()

    visit(node_id)
    tests = {}
    cond = {}
    for n in order:
        if n == start:
            D = {frozenset()}
        else:
            D = set()
            for p in preds[n]:
                D |= cond.get(p, set())
        nd = cfg.nodes[n]
        if nd.kind in ("T", "F") and isinstance(nd.ast, ast.expr) and n != start:
            tests[id(nd.ast)] = nd.ast
            lit = (id(nd.ast), nd.kind == "T")
            D = {c | {lit} for c in D if (lit[0], not lit[1]) not in c}
        cond[n] = _simplify_dnf(D)
    out = []
    for c in sorted(cond[node_id], key=lambda c: sorted((getattr(tests[t], "lineno", 0), getattr(tests[t], "col_offset", 0), p) for t, p in c)):
        lits = sorted(c, key=lambda tp: (getattr(tests[tp[0]], "lineno", 0), getattr(tests[tp[0]], "col_offset", 0)))
        out.append([(tests[t], p) for t, p in lits])
    return out


def reach_dnf(X, N, fi, node, start=None):
    """normal-form DNF (list of literal sets, c05 vocabulary) of the condition under which `node` (an AST node) is
    reached from CFG node `start`; X: c05.Expander, N: Normalizer"""
    from .c05 import nf_conds
    cfg = cfg_of(fi)
    out = []
    for nid in cfg.locate(node)[:1]:
        for conds in path_conditions(fi, nid, start):
            for c in X.expand_conds(conds):
                out.extend(nf_conds(N, c))
    return out


# ---------------------------------------------------------------------------
# 5. c05.Expander with the conditions of a definition completed


def _make_expander():
    from .c05 import Expander as _E, node_conditions

    class PathExpander(_E):
        """c05.Expander replaces a local by its reaching definitions, each with the condition under which it is the
        one that reaches the use.  c05 takes for that condition the branch outcomes that dominate the definition
        plus the outcomes that every way from the definition to the use passes -- a conjunction.  That loses the
        condition whenever it is a disjunction: a definition in the body of `if a or b:`, and -- more commonly --
        a default that survives unless `if a and b:` overwrites it (`flag = True` / `if a and b: flag = False`:
        the default reaches the use when `not a or not b`, and no single outcome lies on every way).  Here the
        condition is computed over paths: (the enclosing tests of the definition, as whole expressions) and
        (the DNF, merged at joins, of the ways from the definition to the use that pass no other definition of the
        same local)."""

        def _def_conditions(self, wn):
            out = []
            seen = set()
            for t, pol, _p in self.cfg.guards(wn):
                if (id(t), pol) not in seen:
                    seen.add((id(t), pol))
                    out.append((t, pol))
            st = self.cfg.nodes[wn].ast
            if st is not None:
                for t, pol in node_conditions(self.fi, st):
                    if (id(t), pol) not in seen:
                        seen.add((id(t), pol))
                        out.append((t, pol))
            return out

        def _path_conditions(self, name, wn, between, nid):  # kept for callers that want one conjunction
            out = list(super()._path_conditions(name, wn, between, nid))
            seen = {(id(t), pol) for t, pol in out}
            for t, pol in self._def_conditions(wn):
                if (id(t), pol) not in seen:
                    seen.add((id(t), pol))
                    out.append((t, pol))
            return out

        def _reach_alternatives(self, name, wn, between, nid):
            """[[(test, polarity), ...], ...]: the definition at wn is the one that reaches nid"""
            others = {n for n, _ in self.writes(name)} - {wn, nid}
            try:
                alts = path_conditions(self.fi, nid, wn, avoid=others)
            except AnalysisError:
                alts = None
            if not alts:  # only reachable round a loop, or not computable: fall back on the conjunction
                return [self._path_conditions(name, wn, between, nid)]
            base = self._def_conditions(wn)
            seen = {(id(t), pol) for t, pol in base}
            return [base + [(t, pol) for t, pol in a if (id(t), pol) not in seen] for a in alts]

        def _name(self, e, nid, depth):
            from .c05 import _retag
            if e.id in self.subst:
                return [(self.subst[e.id], ())]
            ws = self.writes(e.id)
            if not ws or e.id in self.opaque:
                return [(e, ())]
            defs, entry = self.reaching(e.id, nid)
            if entry or not defs:
                return [(e, ())]
            if not all(self._substitutable(e.id, wn, st, v, btw, nid) for wn, st, v, btw in defs):
                return [(e, ())]
            out = []
            for wn, st, v, btw in defs:
                key = (e.id, wn, nid)
                if key in self._active:
                    raise AnalysisError("loop-carried definition of %s in %s" % (e.id, self.fi.short))
                self._active.add(key)
                try:
                    if self.path_conds:
                        calts = []
                        for conds in (self._reach_alternatives(e.id, wn, btw, nid) if len(defs) > 1 else [self._def_conditions(wn)]):
                            calts.extend(self.expand_conds(conds, depth + 1))
                    else:
                        calts = [()]
                    vals = self.expand(v, wn, depth + 1)
                    stale = self._stale(e.id, st, v, btw, nid)
                    if stale:
                        vals = [(_retag(v2, stale, e.id), tuple((_retag(t, stale, e.id), pol) for t, pol in c2)) for v2, c2 in vals]
                finally:
                    self._active.discard(key)
                for c_ in calts:
                    for v2, c2 in vals:
                        out.append((v2, c_ + c2))
                self._tick(len(out))
            return out

    return PathExpander


PathExpander = _make_expander()


def class_of_self(e, bound=()):
    """'self' / 'cls' when expression e denotes the class of the method's receiver -- `type(self)`,
    `self.__class__` -- else None.  `cls` itself is a plain chain head and
    is handled as such by the callers."""
    if isinstance(e, ast.Call) and isinstance(e.func, ast.Name) and e.func.id == "type" and "type" not in bound \
            and len(e.args) == 1 and not e.keywords and isinstance(e.args[0], ast.Name) and e.args[0].id == "self":
        return "self"
    if isinstance(e, ast.Attribute) and e.attr == "__class__" and isinstance(e.value, ast.Name) and e.value.id in ("self", "cls"):
        # cls.__class__ would be the metaclass: not a spelling of the class
        return "self" if e.value.id == "self" else None
    return None


def _expr_key(e):
    return " ".join(ast.unparse(e).split())


class ConstNormalizer(norm.Normalizer):
    """norm.Normalizer that also replaces a class-level numeric constant read through the *class of the receiver*
    (`type(self).X`, `self.__class__.X` -- what the helper expansion makes of `cls.X` in an expanded classmethod) by its
    value.  norm.Normalizer looks constants up by attribute chain only (`self.X`, `cls.X`, `C.X`), and `type(self).X` is
    not a chain.  `expr_env` maps the normalised text of such an attribute expression to the value expression; it
    is filled by constant_env under the same conditions as chain_env (no subclass redefines X, nothing assigns X
    through an instance), under which `type(self).X` and `self.X` are the same value."""

    def __init__(self, *a, expr_env=None, **kw):
        super().__init__(*a, **kw)
        self.expr_env = expr_env or {}

    def poly(self, e):
        if isinstance(e, ast.Attribute) and self.expr_env:
            k = _expr_key(e)
            if k in self.expr_env and k not in self._stack:
                self._stack.add(k)
                try:
                    return self.poly(self.expr_env[k])
                finally:
                    self._stack.discard(k)
        return super().poly(e)


def constant_env(prog, fi, fnode=None, expr_env=None):
    """(env, chain_env) for norm.Normalizer: named numeric constants a function reads -- module-level names
    (of its own module, or imported from another module of the package) bound exactly once at top level, and
    class attributes read as `self.X` / `cls.X` / `<Class>.X` that no subclass redefines and nothing assigns
    through an instance -- with a value the checker's own constant evaluator reduces to a number.  `2**23` and
    `_HALF_RANGE` (= `1 << 23`) are then the same polynomial constant."""
    fnode = fnode if fnode is not None else fi.node
    env, chain_env = {}, {}
    bound = {n.id for n in ast.walk(fnode) if isinstance(n, ast.Name) and isinstance(n.ctx, (ast.Store, ast.Del))}
    a = fnode.args
    bound |= {x.arg for x in a.posonlyargs + a.args + a.kwonlyargs}

    def numeric(e):
        try:
            v = norm.consteval(e)
        except (norm.NormError, TypeError, ValueError, ZeroDivisionError, OverflowError):
            return False
        return isinstance(v, (int, float)) and not isinstance(v, bool)

    def top_level(m, name):
        vals = []
        for st in m.tree.body:
            if isinstance(st, ast.Assign) and any(isinstance(t, ast.Name) and t.id == name for t in st.targets):
                vals.append(st.value)
            elif isinstance(st, (ast.AnnAssign, ast.AugAssign)) and isinstance(st.target, ast.Name) and st.target.id == name:
                vals.append(getattr(st, "value", None) if isinstance(st, ast.AnnAssign) else None)
        rebinds = any(isinstance(n, ast.Global) and name in n.names for n in ast.walk(m.tree))
        return vals[0] if len(vals) == 1 and vals[0] is not None and not rebinds else None

    owner = fi
    while owner is not None and owner.cls is None:
        owner = owner.parent
    for n in ast.walk(fnode):
        if isinstance(n, ast.Name) and isinstance(n.ctx, ast.Load) and n.id not in bound and n.id not in env:
            q = prog.resolve_in_module(fi.module, n.id)
            modname, _, cname = q.rpartition(".")
            m = prog.modules.get(modname)
            v = top_level(m, cname) if m is not None else None
            if v is not None and numeric(v):
                env[n.id] = v
        elif isinstance(n, ast.Attribute) and isinstance(n.ctx, ast.Load):
            c = chain(n)
            via_class = class_of_self(n.value, bound - {"self", "cls"})
            if via_class is not None and expr_env is not None and owner is not None and "self" not in bound - {"self", "cls"}:
                # `type(self).X` / `self.__class__.X`: the class attribute X of the receiver's class
                v, ci = prog.class_attr(owner.cls.qn, n.attr)
                if v is not None and numeric(v) \
                        and not any(n.attr in prog.classes[q].attrs for q in prog.subclasses(ci.qn) if q != ci.qn and q in prog.classes) \
                        and not field_writers(prog, n.attr):
                    expr_env[_expr_key(n)] = v
                continue
            if c is None or c in chain_env:
                continue
            head, _, attr = c.rpartition(".")
            if head.split(".")[0] in bound - {"self", "cls"}:
                continue
            clsqn = None
            if head in ("self", "cls") and owner is not None:
                clsqn = owner.cls.qn
            elif head not in ("self", "cls") and not head.startswith(("self.", "cls.")):
                # `<Class>.X`, `<module>.<Class>.X`, or a module-level constant read through its module
                # (`constants.X`, `numbers.constants.X`): the same single top-level binding as `from m import X`
                q = prog.resolve_in_module(fi.module, head)
                if q in prog.classes:
                    clsqn = q
                elif q in prog.modules:
                    v = top_level(prog.modules[q], attr)
                    if v is not None and numeric(v):
                        chain_env[c] = v
                    continue
            if clsqn is None:
                continue
            v, ci = prog.class_attr(clsqn, attr)
            if v is None or not numeric(v):
                continue
            if any(attr in prog.classes[q].attrs for q in prog.subclasses(ci.qn) if q != ci.qn and q in prog.classes):
                continue
            if field_writers(prog, attr):
                continue
            chain_env[c] = v
    return env, chain_env


def flag_locals(fi):
    """{name: [(statement, literal)]} for the locals all of whose bindings are `name = True | False | None`"""
    cand = {}
    for n in walk_no_nested(fi.node):
        if isinstance(n, ast.Assign) and len(n.targets) == 1 and isinstance(n.targets[0], ast.Name) and isinstance(n.value, ast.Constant) \
                and (n.value.value is None or isinstance(n.value.value, bool)):
            v = n.value.value
            lit = ("is", n.targets[0].id, "None") if v is None else (("truth" if v else "nottruth"), n.targets[0].id)
            cand.setdefault(n.targets[0].id, []).append((n, lit))
    a = fi.node.args
    params_ = {x.arg for x in a.posonlyargs + a.args + a.kwonlyargs} | ({a.vararg.arg} if a.vararg else set()) | ({a.kwarg.arg} if a.kwarg else set())
    return {k: v for k, v in cand.items() if k not in params_ and len(writes_to_name(fi.node, k)) == len(v)}


# ---------------------------------------------------------------------------
# 6. literal-consistent walks: "on every way the program can take while L holds, X happens before Y"


class ConsistentWalk:
    """Walks of the CFG on which the branch outcomes taken do not contradict each other or an initial set of
    literals.  Every branch pseudo node asserts the normal-form literals of its test (locals replaced by their
    reaching definitions *with* the conditions under which each definition is the reaching one, so a flag
    computed earlier and the tests it was computed from are the same facts); an outcome whose every alternative
    contradicts what the walk already knows is not taken.  Hence the verdict does not depend on how the tests
    are grouped: `if a: if b: X` / `if a and b: X` / `if not a: return ... if b: X` / `f = a and b; if f: X` /
    one merged `if a or c:` with an inner `if a:` all produce the same consistent walks.

    `keep(literal) -> literal | None` selects (and may rename) the literals that are facts for the whole walk
    (about immutable or walk-invariant quantities); every other test is a free choice (both outcomes taken).
    Pruning is only ever done on kept literals, so a walk that exists in some execution is never dropped."""

    LIMIT = 200000

    def __init__(self, X, N, fi, keep, decide=None):
        """decide(test expression) -> True / False / None: tests the rule can decide outright (e.g. `<a freshly
        constructed object> is None`), which the normal forms would otherwise keep as an opaque free choice"""
        self.X, self.N, self.fi, self.keep, self.decide = X, N, fi, keep, decide
        self.cfg = cfg_of(fi)
        self._asserted = {}
        # flag locals: every binding is `name = True / False / None`.  Where the expander cannot replace such a
        # local by its definitions (the definition reaches the test round a loop: `done = False` /
        # `while not done: ... done = True`), the walk itself carries the value: passing a binding forgets what
        # was known about the name and records the constant.
        self.flags = flag_locals(fi)
        self._writes = {}
        for name, binds in self.flags.items():
            for st, lit in binds:
                for nid in self.cfg.locate(st):
                    if self.cfg.nodes[nid].kind not in ("T", "F"):
                        self._writes.setdefault(nid, []).append((name, lit))

    def alternatives(self, conds_alts):
        """expanded conditions [((test, polarity), ...), ...] -> kept literal sets; an alternative with a test
        decided the other way is dropped"""
        from .c05 import nf_conds
        out = []
        for c in conds_alts:
            live = []
            for t, pol in c:
                k = self.decide(t) if self.decide is not None else None
                if k is None:
                    live.append((t, pol))
                elif k != pol:
                    live = None
                    break
            if live is None:
                continue
            for a in nf_conds(self.N, live):
                k = self.filter(a)
                if k not in out:
                    out.append(k)
        return out

    def filter(self, lits):
        out = set()
        for l in lits:
            k = self.keep(l)
            if k is not None:
                out.add(k)
        return frozenset(out)

    def asserted(self, pid):
        """alternatives (kept literals) of the outcome a T/F pseudo node stands for; [frozenset()] = no information"""
        if pid not in self._asserted:
            nd = self.cfg.nodes[pid]
            res = None
            if isinstance(nd.ast, ast.expr):
                try:
                    res = self.alternatives(self.X.expand_conds([(nd.ast, nd.kind == "T")]))
                except AnalysisError:
                    res = None
            if res is None or frozenset() in res:
                res = [frozenset()]
            self._asserted[pid] = res
        return self._asserted[pid]

    def add(self, lits, more):
        """lits & more, or None when contradictory"""
        from .c05 import simplify
        return simplify(set(lits) | set(more))

    def run(self, start, init, stop, watch=()):
        """All consistent walks that leave CFG node `start` knowing `init`, each followed until it enters a node of
        `stop`, the normal exit, the exception exit or a dead end.  Returns a set of
        (end node id | 'exit' | 'raise', literals known at the end, trail) where trail is the tuple of `watch`
        nodes passed on the way (the end node excluded)."""
        cfg = self.cfg
        stop, watch = set(stop), set(watch)
        init = self.add(frozenset(init), ())
        if init is None:
            return set()
        out = set()
        seen = set()
        todo = [(d, init, ()) for d, lab in cfg.succ[start] if lab != "exc"]
        steps = 0
        while todo:
            nid, lits, trail = todo.pop()
            key = (nid, lits, trail)
            if key in seen:
                continue
            seen.add(key)
            steps += 1
            if steps > self.LIMIT:
                raise AnalysisError("C07: consistent walk of %s exceeds its bound" % self.fi.short)
            if nid == cfg.exit:
                out.add(("exit", lits, trail))
                continue
            if nid == cfg.rexit:
                out.add(("raise", lits, trail))
                continue
            if nid in stop:
                out.add((nid, lits, trail))
                continue
            nd = cfg.nodes[nid]
            states = [lits]
            if nd.kind in ("T", "F"):
                states = []
                for a in self.asserted(nid):
                    s = self.add(lits, a)
                    if s is not None and s not in states:
                        states.append(s)
            if nid in self._writes:
                for name, lit in self._writes[nid]:
                    states = [frozenset(l for l in st_ if name not in atoms_of(l)) | {lit} for st_ in states]
            t2 = trail + (nid,) if nid in watch else trail
            succ = [(d, lab) for d, lab in cfg.succ[nid] if lab != "exc" or nd.kind == "raise"]
            if not succ and states:
                out.add(("raise" if nd.kind == "raise" else "exit", states[0], t2))
            for s in states:
                for d, _lab in succ:
                    todo.append((d, s, t2))
        return out


# ---------------------------------------------------------------------------
# 7. None-ness of values and "for which values does a function hand its argument on" (C07.i)

NONE, OBJ = "None", "obj"
BOTH = frozenset({NONE, OBJ})

_BUILTIN_CTORS = {"str", "bytes", "int", "float", "tuple", "list", "dict", "set", "frozenset", "repr", "bool", "object", "bytearray"}


def _refine(test, env):
    """(env if test holds, env if it does not) for tests on the None-ness of a name the environment knows"""
    pol = True
    while isinstance(test, ast.UnaryOp) and isinstance(test.op, ast.Not):
        test, pol = test.operand, not pol
    name, none_when_true = None, None
    if isinstance(test, ast.Name):
        name, none_when_true = test.id, False  # `if x:` -- objects here (exceptions, messages) are true
    elif isinstance(test, ast.Compare) and len(test.ops) == 1 and isinstance(test.ops[0], (ast.Is, ast.IsNot, ast.Eq, ast.NotEq)):
        a, b = test.left, test.comparators[0]
        if isinstance(a, ast.Constant) and a.value is None:
            a, b = b, a
        if isinstance(a, ast.Name) and isinstance(b, ast.Constant) and b.value is None:
            name, none_when_true = a.id, isinstance(test.ops[0], (ast.Is, ast.Eq))
    if name is None or name not in env:
        return env, env
    t, f = dict(env), dict(env)
    t[name] = env[name] & ({NONE} if none_when_true else {OBJ})
    f[name] = env[name] & ({OBJ} if none_when_true else {NONE})
    if not pol:
        t, f = f, t
    return t, f


def nullness(prog, fi, e, env=None, depth=5):
    """Which of {None, an object} the value of expression e (in function fi) can be; `env` gives the answer for
    names (parameters under discussion) and for expression texts (e.g. 'e.args[0]').  Anything not understood is
    BOTH, so the answer only ever errs towards 'may be either'."""
    env = env or {}
    if e is None or depth < 0:
        return BOTH
    key = " ".join(ast.unparse(e).split())
    if key in env:
        return frozenset(env[key])
    if isinstance(e, ast.Constant):
        return frozenset({NONE}) if e.value is None else frozenset({OBJ})
    if isinstance(e, (ast.JoinedStr, ast.Tuple, ast.List, ast.Dict, ast.Set, ast.ListComp, ast.DictComp, ast.SetComp, ast.GeneratorExp, ast.Lambda, ast.BinOp, ast.Compare)):
        return frozenset({OBJ})
    if isinstance(e, ast.NamedExpr):
        return nullness(prog, fi, e.value, env, depth)
    if isinstance(e, ast.Name):
        ws = write_values(fi.node, e.id)
        if not ws:
            return BOTH  # a parameter or a free name the caller said nothing about
        out = set()
        for _st, v in ws:
            out |= nullness(prog, fi, v, env, depth - 1) if v is not None and not (isinstance(v, ast.Name) and v.id == e.id) else BOTH
        return frozenset(out)
    if isinstance(e, ast.Call):
        c = chain(e.func)
        if c is not None:
            q = prog.resolve_in_module(fi.module, c)
            if q in prog.classes or c in _BUILTIN_CTORS:
                return frozenset({OBJ})
            if c.split(".")[-1][:1].isupper() and c.split(".")[-1].endswith(("Error", "Exception")) and "." not in c:
                return frozenset({OBJ})  # builtin exception classes (ConnectionResetError(...), ...)
        return BOTH
    if isinstance(e, ast.IfExp):
        t, f = _refine(e.test, env)
        return nullness(prog, fi, e.body, t, depth - 1) | nullness(prog, fi, e.orelse, f, depth - 1)
    if isinstance(e, ast.BoolOp):
        vals = [nullness(prog, fi, v, env, depth - 1) for v in e.values]
        if isinstance(e.op, ast.Or):
            # `a or b`: a when it is true (then it is not None), else b
            out = set()
            for v in vals[:-1]:
                out |= v - {NONE}
            return frozenset(out | vals[-1])
        return frozenset(set().union(*vals))
    return BOTH


def not_handed_on(fi, sites, given, subjects_none_ok=(), aliases=None):
    """For a function that is to hand something on at the call sites `sites`: {value of `given` (NONE / OBJ):
    description of a normal path that passes none of the sites}.  `given` is the parameter under discussion;
    paths on which one of `subjects_none_ok` (attribute chains) is None are not demanded to hand on.  Decided over
    the path model, so guard clauses, nesting, else-branches, De Morgan forms and hoisted tests are the same."""
    from ..paths import PathModel
    cfg = cfg_of(fi)
    subj = {s: [NONE, OBJ] for s in subjects_none_ok}
    subj[given] = [NONE, OBJ]
    pm = PathModel(fi, subjects=subj, aliases=dict(aliases or {}))
    site_n = set()
    for c in sites:
        site_n |= set(cfg.locate(c))
    lost = {}
    for p in pm.paths():
        if any(p.values.get(s) == NONE for s in subjects_none_ok):
            continue
        if p.end == "cut" or site_n & set(p.nodes):
            continue
        for v in ([p.values[given]] if given in p.values else [NONE, OBJ]):
            lost.setdefault(v, pm.describe(p))
    return lost


# ---------------------------------------------------------------------------
# 8. provenance of the tokens a token source hands out (C07.j)


class TokenProvenance:
    """Where do the values a token source (TokenManager.next_token) returns come from, and can a value that is or
    was a token get there?  A flow-insensitive, field-based data-flow over the syntax trees:

    * a *token value* is: the result of a call of the source; a read of an attribute the result of such a call is
      stored in anywhere in the package (`msg.token = self.next_token()`, `Message(token=self.next_token())` make
      every `<x>.token` a token); a read of a field (of the source's module) some store puts a token value into --
      as key or as value, by assignment, subscript store or a filling method, directly, through an alias or
      through a method value (`functools.partial(self.f.append, tok)`) -- computed as a fixpoint; a local any of
      whose bindings is a token value (tuple elements, loop targets, closures over the enclosing function's locals
      and lambda default arguments included); a parameter some call / functools.partial binds to a token value;
    * results of comparisons, `len()` / `isinstance()` / `bool()` and the tests of conditional expressions are not
      token values (nothing of the token but one bit / its length survives).

    Over-approximate on purpose (any subexpression counts, receivers are not distinguished); where a value comes
    from a caller the analysis cannot enumerate (a parameter of a function that is passed around as a callback, a
    lambda parameter without default) it refuses (AnalysisError) instead of guessing."""

    LAUNDER = {"len", "isinstance", "bool", "callable", "hasattr", "type", "id"}
    FILL = {"append", "add", "appendleft", "insert", "extend", "extendleft", "update", "setdefault", "__setitem__", "put", "put_nowait", "push"}
    REMOVE = {"pop", "remove", "clear", "popitem", "discard", "popleft", "__delitem__", "del", "delitem"}

    def __init__(self, prog, src_fi):
        self.prog, self.src = prog, src_fi
        self.name = src_fi.name
        self._parents = {}
        self.mint_sites = []  # (fi, node) where a drawn token is stored
        self.token_attrs = set()
        self._collect_token_attrs()
        self.tainted_fields = {}  # field name -> witness text
        self._fixpoint()

    # -- syntax helpers --------------------------------------------------------------------------------------
    def parents(self, fi):
        m = self._parents.get(fi.qn)
        if m is None:
            m = {}
            for p in ast.walk(fi.node):
                for c in ast.iter_child_nodes(p):
                    m[id(c)] = p
            self._parents[fi.qn] = m
        return m

    def is_mint(self, n):
        return isinstance(n, ast.Call) and ((isinstance(n.func, ast.Attribute) and n.func.attr == self.name) or
                                            (isinstance(n.func, ast.Name) and n.func.id == self.name))

    def data_nodes(self, e):
        """the nodes of expression e whose value can survive in the value of e"""
        todo = [e]
        while todo:
            n = todo.pop()
            if isinstance(n, ast.Compare):
                continue
            if isinstance(n, ast.Call) and isinstance(n.func, ast.Name) and n.func.id in self.LAUNDER:
                continue
            yield n
            for f, c in ast.iter_fields(n):
                if isinstance(n, ast.IfExp) and f == "test":
                    continue
                if isinstance(n, ast.comprehension) and f == "ifs":
                    continue
                for x in (c if isinstance(c, list) else [c]):
                    if isinstance(x, ast.AST):
                        todo.append(x)

    def _is_partial(self, fi, call):
        c = chain(call.func) if isinstance(call, ast.Call) else None
        return c is not None and self.prog.resolve_in_module(fi.module, c) in ("functools.partial", "functools.partialmethod")

    # -- token attributes ------------------------------------------------------------------------------------
    def _collect_token_attrs(self):
        for fi in self.prog.funcs.values():
            for n in walk_with_lambdas(fi.node):
                if isinstance(n, (ast.Assign, ast.AnnAssign)) and n.value is not None and any(self.is_mint(x) for x in self.data_nodes(n.value)):
                    for t in (n.targets if isinstance(n, ast.Assign) else [n.target]):
                        for tt in ast.walk(t):
                            if isinstance(tt, ast.Attribute) and isinstance(tt.ctx, ast.Store):
                                self.token_attrs.add(tt.attr)
                                self.mint_sites.append((fi, n))
                            elif isinstance(tt, ast.Name) and isinstance(tt.ctx, ast.Store):
                                self.mint_sites.append((fi, n))
                elif isinstance(n, ast.Call) and not self.is_mint(n):
                    for k in n.keywords:
                        if k.arg is not None and any(self.is_mint(x) for x in self.data_nodes(k.value)):
                            self.token_attrs.add(k.arg)
                            self.mint_sites.append((fi, n))

    # -- token values ----------------------------------------------------------------------------------------
    def tainted(self, fi, e, seen=None):
        """None, or a text saying why expression e (in function fi) may carry a token.  Evidence in plain sight
        is looked for first; a value that cannot be followed (AnalysisError) only matters when nothing else
        decides the question."""
        seen = set() if seen is None else seen
        if e is None:
            return None
        nodes = list(self.data_nodes(e))
        for n in nodes:
            if self.is_mint(n):
                return "%s is a freshly drawn token" % stmt_text(n)
            if isinstance(n, ast.Attribute) and isinstance(n.ctx, ast.Load):
                if n.attr in self.token_attrs:
                    return "%s is a token" % stmt_text(n)
                if n.attr in self.tainted_fields:
                    return "%s holds tokens (%s)" % (stmt_text(n), self.tainted_fields[n.attr])
        pending = None
        for n in nodes:
            if isinstance(n, ast.Name) and isinstance(n.ctx, ast.Load):
                try:
                    w = self._name(fi, n, seen)
                except AnalysisError as ex:
                    pending = pending or ex
                    continue
                if w:
                    return w
        if pending is not None:
            raise pending
        return None

    def any_tainted(self, fi, values):
        """tainted() over several expressions; refuses only if none of them is seen to carry a token"""
        pending = None
        for v in values:
            try:
                w = self.tainted(fi, v)
            except AnalysisError as ex:
                pending = pending or ex
                continue
            if w:
                return w
        if pending is not None:
            raise pending
        return None

    def _bound_in_comprehension(self, fi, node):
        par = self.parents(fi)
        p = par.get(id(node))
        while p is not None:
            if isinstance(p, (ast.ListComp, ast.SetComp, ast.DictComp, ast.GeneratorExp)):
                for g in p.generators:
                    if any(isinstance(x, ast.Name) and x.id == node.id for x in ast.walk(g.target)):
                        return True
            p = par.get(id(p))
        return False

    def _enclosing_lambda(self, fi, node):
        """(lambda, default expression or None) when Name `node` is a parameter of a lambda that encloses it"""
        par = self.parents(fi)
        p = par.get(id(node))
        while p is not None:
            if isinstance(p, ast.Lambda):
                a = p.args
                pos = a.posonlyargs + a.args
                for i, x in enumerate(pos):
                    if x.arg == node.id:
                        j = i - (len(pos) - len(a.defaults))
                        return p, (a.defaults[j] if j >= 0 else None)
                for x, d in zip(a.kwonlyargs, a.kw_defaults):
                    if x.arg == node.id:
                        return p, d
                if (a.vararg and a.vararg.arg == node.id) or (a.kwarg and a.kwarg.arg == node.id):
                    return p, None
            p = par.get(id(p))
        return None

    def _name(self, fi, node, seen):
        name = node.id
        if id(node) in self.parents(fi):
            if self._bound_in_comprehension(fi, node):
                return None  # its source (the iterable) is part of the same expression
            lam = self._enclosing_lambda(fi, node)
            if lam is not None:
                if lam[1] is None:
                    raise AnalysisError("C07: %s is a lambda parameter in %s; what it is called with cannot be followed" % (name, fi.short))
                return self.tainted(fi, lam[1], seen)
        f = fi
        while f is not None:
            key = (f.qn, name)
            a = f.node.args
            ps = [x.arg for x in a.posonlyargs + a.args + a.kwonlyargs] + ([a.vararg.arg] if a.vararg else []) + ([a.kwarg.arg] if a.kwarg else [])
            ws = writes_to_name(f.node, name)
            if ws or name in ps:
                if key in seen:
                    return None
                seen.add(key)
                pending = None
                for st, v in write_values(f.node, name):
                    if v is None:
                        if isinstance(st, (ast.For, ast.AsyncFor)):
                            v = st.iter
                        elif isinstance(st, (ast.With, ast.AsyncWith)):
                            v = ast.Tuple(elts=[it.context_expr for it in st.items], ctx=ast.Load())
                        elif isinstance(st, (ast.Assign, ast.AugAssign)):
                            v = st.value
                    try:
                        w = self.tainted(f, v, seen)
                    except AnalysisError as ex:
                        pending = pending or ex
                        continue
                    if w:
                        return w
                if name in ps and name not in ("self", "cls"):
                    w = self._param(f, name, seen)
                    if w:
                        return w
                if pending is not None:
                    raise pending
                return None
            f = f.parent
        return None  # a global / builtin

    def _references(self, f):
        """(function, node) for every mention of function f in the package.  A nested function is mentioned by
        name in its enclosing function (and its siblings); a module-level function by name; a method as
        `self.<name>` / `cls.<name>` inside its own class hierarchy -- a mention `<other receiver>.<name>` anywhere
        may or may not be this method and is refused."""
        out = []
        if f.parent is not None:
            scope = [f.parent] + [g for g in self.prog.funcs.values() if g.parent is f.parent]
            for g in scope:
                for n in walk_with_lambdas(g.node):
                    if isinstance(n, ast.Name) and n.id == f.name and isinstance(n.ctx, ast.Load):
                        out.append((g, n))
            return out
        for g in self.prog.funcs.values():
            for n in walk_with_lambdas(g.node):
                if f.cls is None:
                    if isinstance(n, ast.Name) and n.id == f.name and isinstance(n.ctx, ast.Load) and g.module is f.module:
                        out.append((g, n))
                    elif isinstance(n, ast.Attribute) and n.attr == f.name and isinstance(n.ctx, ast.Load):
                        raise AnalysisError("C07: %s may be the function mentioned as %s in %s; cannot be followed" % (f.short, stmt_text(n), g.short))
                elif isinstance(n, ast.Attribute) and n.attr == f.name and isinstance(n.ctx, ast.Load):
                    owner = g
                    while owner is not None and owner.cls is None:
                        owner = owner.parent
                    own = owner is not None and (self.prog.is_subclass(owner.cls.qn, f.cls.qn) or self.prog.is_subclass(f.cls.qn, owner.cls.qn))
                    if isinstance(n.value, ast.Name) and n.value.id in ("self", "cls") and own:
                        out.append((g, n))
                    else:
                        raise AnalysisError("C07: %s may be the method mentioned as %s in %s; what its parameters receive cannot be followed" % (f.short, stmt_text(n), g.short))
        return out

    def _param(self, f, name, seen):
        a = f.node.args
        if (a.vararg and a.vararg.arg == name) or (a.kwarg and a.kwarg.arg == name):
            raise AnalysisError("C07: %s collects arguments in *%s; cannot be followed" % (f.short, name))
        pos = [x.arg for x in a.posonlyargs + a.args]
        if f.cls is not None and pos and pos[0] in ("self", "cls"):
            pos = pos[1:]
        defaults = {}
        allpos = a.posonlyargs + a.args
        for x, d in zip(allpos[len(allpos) - len(a.defaults):], a.defaults):
            defaults[x.arg] = d
        for x, d in zip(a.kwonlyargs, a.kw_defaults):
            if d is not None:
                defaults[x.arg] = d
        if name in defaults:
            w = self.tainted(f, defaults[name], seen)
            if w:
                return w
        for g, ref in self._references(f):
            par = self.parents(g).get(id(ref))
            if isinstance(par, ast.Call) and par.func is ref:
                args, kws = par.args, par.keywords
            elif isinstance(par, ast.Call) and self._is_partial(g, par) and par.args and par.args[0] is ref:
                args, kws = par.args[1:], par.keywords
                bound = (name in pos and pos.index(name) < len(args)) or any(k.arg == name for k in kws)
                if not bound and name not in defaults:
                    raise AnalysisError("C07: %s of %s is supplied by whoever calls the partial object made in %s; cannot be followed" % (name, f.short, g.short))
            else:
                raise AnalysisError("C07: %s is passed around as a value in %s; what its parameter %s receives cannot be followed" % (f.short, g.short, name))
            if any(isinstance(x, ast.Starred) for x in args) or any(k.arg is None for k in kws):
                raise AnalysisError("C07: %s is called with * / ** arguments in %s" % (f.short, g.short))
            e = None
            if name in pos and pos.index(name) < len(args):
                e = args[pos.index(name)]
            for k in kws:
                if k.arg == name:
                    e = k.value
            w = self.tainted(g, e, seen)
            if w:
                return w
        return None

    # -- stores ----------------------------------------------------------------------------------------------
    def stored_values(self, fi, kind, node):
        """the expressions a store (as reported by rulekit.stores_to) puts into the field -- keys included"""
        if isinstance(node, (ast.Assign, ast.AnnAssign, ast.AugAssign)):
            out = [node.value]
            for t in (node.targets if isinstance(node, ast.Assign) else [node.target]):
                for tt in ast.walk(t):
                    if isinstance(tt, ast.Subscript):
                        out.append(tt.slice)
            return [x for x in out if x is not None]
        if isinstance(node, ast.Delete):
            return []
        k = kind[4:] if kind.startswith("ref:") else kind
        if k in self.REMOVE:
            return []
        if isinstance(node, ast.Call):
            return list(node.args) + [kw.value for kw in node.keywords]
        if isinstance(node, ast.Attribute):
            par = self.parents(fi).get(id(node))
            if isinstance(par, ast.Call) and self._is_partial(fi, par) and par.args and par.args[0] is node:
                if not (par.args[1:] or par.keywords):
                    raise AnalysisError("C07: %s in %s is filled by whoever calls the partial object; cannot be followed" % (stmt_text(node), fi.short))
                return list(par.args[1:]) + [kw.value for kw in par.keywords]
            raise AnalysisError("C07: the method value %s is passed around in %s; what it is called with cannot be followed" % (stmt_text(node), fi.short))
        return []

    def _module_fields(self):
        out = {}
        for fi in self.prog.funcs.values():
            if fi.module is not self.src.module:
                continue
            for n in walk_with_lambdas(fi.node):
                if isinstance(n, ast.Attribute) and isinstance(n.value, ast.Name) and n.value.id == "self":
                    out.setdefault(n.attr, set()).add(fi.qn)
        return out

    def _fixpoint(self):
        fields = self._module_fields()
        stores = {}
        for F, fqns in fields.items():
            for q in sorted(fqns):
                fi = self.prog.funcs[q]
                for kind, node in stores_to_any(fi.node, F):
                    stores.setdefault(F, []).append((fi, kind, node))
        self.field_stores = stores
        changed = True
        while changed:
            changed = False
            for F in sorted(stores):
                if F in self.tainted_fields:
                    continue
                for fi, kind, node in stores[F]:
                    try:
                        w = self.any_tainted(fi, self.stored_values(fi, kind, node))
                    except AnalysisError:
                        w = None  # judged (and refused) only if the token source draws from this field
                    if w:
                        self.tainted_fields[F] = "%s in %s: %s" % (stmt_text(node), fi.short, w)
                        changed = True
                        break

    # -- what the source draws from ----------------------------------------------------------------------------
    def fields_read(self, fi, e, seen=None, depth=4):
        """names of the `self.<field>`s the value of expression e (in a method fi) is computed from"""
        seen = set() if seen is None else seen
        out = set()
        if e is None:
            return out
        for n in self.data_nodes(e):
            if isinstance(n, ast.Attribute) and isinstance(n.value, ast.Name) and n.value.id in ("self", "cls") and isinstance(n.ctx, ast.Load):
                par = self.parents(fi).get(id(n))
                callee = None
                if isinstance(par, ast.Call) and par.func is n and fi.cls is not None:
                    callee = self.prog.lookup_method(fi.cls.qn, n.attr)
                elif isinstance(par, ast.Call) and par.func is n:
                    owner = fi
                    while owner is not None and owner.cls is None:
                        owner = owner.parent
                    callee = self.prog.lookup_method(owner.cls.qn, n.attr) if owner is not None else None
                if callee is not None and depth > 0 and callee.qn not in seen:
                    seen.add(callee.qn)
                    for _r, v in (returned_elements(callee) or []):
                        if isinstance(v, ast.AST) and not isinstance(v, (ast.FunctionDef, ast.AsyncFunctionDef)):
                            out |= self.fields_read(callee, v, seen, depth - 1)
                elif callee is None:
                    out.add(n.attr)
            elif isinstance(n, ast.Name) and isinstance(n.ctx, ast.Load) and n.id not in ("self", "cls"):
                key = (fi.qn, n.id)
                if key in seen:
                    continue
                seen.add(key)
                for st, v in write_values(fi.node, n.id):
                    if v is None:
                        v = getattr(st, "iter", None) or getattr(st, "value", None)
                    out |= self.fields_read(fi, v, seen, depth)
        return out


# ---------------------------------------------------------------------------
# 5. the value an instance attribute has on a default-constructed instance of a class of constants


class InstanceConstants:
    """`<instance of clsqn>.<name>` for a class whose attributes are numeric parameters (TransportTuning):
    evaluated the way Python's attribute lookup does on an instance that carries no attribute of its own --
    the first class of the MRO that binds the name decides; a plain class-level binding is evaluated in the
    class body's scope (earlier class-level names, then module-level constants bound once), a `@property` is
    evaluated with `self.X` looked up on the *instance's* class again (so a subclass that overrides a parameter
    a derived property depends on is seen).  Everything the evaluator cannot interpret -- another decorator,
    a body that is more than local assignments and one return, a call other than max/min/abs/int/float/round,
    a conditional binding, __getattr__/__getattribute__/__init__ machinery, stores through instances -- raises
    AnalysisError: the rule refuses rather than guesses.  `consulted` collects every name looked up, so that the
    caller can demand that nothing in the package stores to them through an instance."""

    CALLS = {"max": max, "min": min, "abs": abs, "int": int, "float": float, "round": round}

    def __init__(self, prog):
        self.prog = prog
        self.consulted = set()

    def _fail(self, msg):
        raise AnalysisError("constant evaluation: " + msg)

    def _bindings(self, ci, name):
        """top-level bindings of `name` in the class body, in order; refuses on conditional / odd bindings"""
        out = []
        for st in ci.node.body:
            if isinstance(st, (ast.FunctionDef, ast.AsyncFunctionDef)):
                if st.name == name:
                    out.append(st)
                continue
            if isinstance(st, ast.ClassDef):
                if st.name == name:
                    self._fail("%s.%s is a class" % (ci.qn, name))
                continue
            if isinstance(st, ast.Assign) and len(st.targets) == 1 and isinstance(st.targets[0], ast.Name):
                if st.targets[0].id == name:
                    out.append(st)
                continue
            if isinstance(st, ast.AnnAssign) and isinstance(st.target, ast.Name):
                if st.target.id == name and st.value is not None:
                    out.append(st)
                continue
            for n in ast.walk(st):
                if isinstance(n, ast.Name) and n.id == name and isinstance(n.ctx, (ast.Store, ast.Del)):
                    self._fail("%s.%s is bound by `%s`" % (ci.qn, name, stmt_text(st)))
                if isinstance(n, (ast.FunctionDef, ast.AsyncFunctionDef, ast.ClassDef)) and n.name == name:
                    self._fail("%s.%s is bound conditionally" % (ci.qn, name))
                if isinstance(n, ast.alias) and (n.asname or n.name.split(".")[0]) == name:
                    self._fail("%s.%s is an import" % (ci.qn, name))
        return out

    def value(self, clsqn, name, stack=()):
        key = (clsqn, name)
        if key in stack:
            self._fail("%s.%s depends on itself" % key)
        self.consulted.add(name)
        for q in self.prog.mro(clsqn):
            ci = self.prog.classes.get(q)
            if ci is None:
                if q in ("object", "builtins.object"):
                    continue
                self._fail("%s has the base %s outside the package" % (clsqn, q))
            for hook in ("__getattr__", "__getattribute__", "__init__", "__new__", "__init_subclass__", "__set_name__"):
                if self._bindings(ci, hook):
                    self._fail("%s defines %s" % (q, hook))
            if ci.node.decorator_list or ci.node.keywords:
                self._fail("%s has decorators / a metaclass" % q)
            b = self._bindings(ci, name)
            if not b:
                continue
            if len(b) > 1:
                self._fail("%s.%s is bound more than once" % (q, name))
            st = b[0]
            if isinstance(st, (ast.Assign, ast.AnnAssign)):
                return self._class_scope(ci, st.value, st, stack + (key,))
            return self._property(clsqn, ci, st, stack + (key,))
        self._fail("%s.%s is not defined" % (clsqn, name))

    def _class_scope(self, ci, e, before, stack):
        """an expression of the class body: names are earlier class-level bindings, else module constants"""
        def name(n):
            earlier = []
            for st in ci.node.body:
                if st is before:
                    break
                earlier.append(st)
            hits = [st for st in earlier if (isinstance(st, ast.Assign) and len(st.targets) == 1 and isinstance(st.targets[0], ast.Name) and st.targets[0].id == n.id)
                    or (isinstance(st, ast.AnnAssign) and isinstance(st.target, ast.Name) and st.target.id == n.id and st.value is not None)]
            if self._bindings(ci, n.id):
                if len(hits) != 1 or len(self._bindings(ci, n.id)) != 1:
                    self._fail("%s: class-level name %s is not bound exactly once before its use" % (ci.qn, n.id))
                return self._class_scope(ci, hits[0].value, hits[0], stack)
            return self._module_const(ci.module, n.id)
        return self._eval(e, name, None)

    def _module_const(self, m, n):
        vals, odd = [], False
        for top in m.tree.body:
            if isinstance(top, ast.Assign) and len(top.targets) == 1 and isinstance(top.targets[0], ast.Name):
                if top.targets[0].id == n:
                    vals.append(top.value)
            elif isinstance(top, ast.AnnAssign) and isinstance(top.target, ast.Name):
                if top.target.id == n and top.value is not None:
                    vals.append(top.value)
            elif isinstance(top, (ast.FunctionDef, ast.AsyncFunctionDef, ast.ClassDef)):
                odd = odd or top.name == n
            else:
                for x in walk_no_nested(top):
                    if isinstance(x, ast.Name) and x.id == n and isinstance(x.ctx, (ast.Store, ast.Del)):
                        odd = True
                    if isinstance(x, (ast.FunctionDef, ast.AsyncFunctionDef, ast.ClassDef)) and x.name == n:
                        odd = True
                    if isinstance(x, ast.alias) and (x.asname or x.name.split(".")[0]) == n:
                        odd = True
        for x in ast.walk(m.tree):
            if isinstance(x, ast.Global) and n in x.names:
                odd = True
        if odd or len(vals) != 1:
            self._fail("%s.%s is not a module-level constant bound exactly once" % (m.name, n))
        return self._eval(vals[0], lambda x: self._module_const(m, x.id), None)

    def _property(self, clsqn, ci, fn, stack):
        decs = [chain(d) for d in fn.decorator_list]
        if isinstance(fn, ast.AsyncFunctionDef) or len(decs) != 1 or \
                self.prog.resolve_in_module(ci.module, decs[0] or "?") not in ("property", "builtins.property", "functools.cached_property"):
            self._fail("%s.%s is a method, not a value or a plain property" % (ci.qn, fn.name))
        a = fn.args
        if len(a.args) != 1 or a.posonlyargs or a.kwonlyargs or a.vararg or a.kwarg:
            self._fail("%s.%s: unexpected parameters" % (ci.qn, fn.name))
        me = a.args[0].arg
        body = list(fn.body)
        if body and isinstance(body[0], ast.Expr) and isinstance(body[0].value, ast.Constant) and isinstance(body[0].value.value, str):
            body = body[1:]
        env = {}

        def name(n):
            if n.id in env:
                return env[n.id]
            if n.id == me:
                self._fail("%s.%s uses the instance as a value" % (ci.qn, fn.name))
            return self._module_const(ci.module, n.id)

        def attr(n):
            if isinstance(n.value, ast.Name) and n.value.id == me and me not in env:
                return self.value(clsqn, n.attr, stack)
            self._fail("%s.%s reads %s" % (ci.qn, fn.name, stmt_text(n)))

        for st in body[:-1]:
            if isinstance(st, ast.Assign) and len(st.targets) == 1 and isinstance(st.targets[0], ast.Name):
                env[st.targets[0].id] = self._eval(st.value, name, attr)
            else:
                self._fail("%s.%s: `%s` is more than a local assignment" % (ci.qn, fn.name, stmt_text(st)))
        if not body or not isinstance(body[-1], ast.Return) or body[-1].value is None:
            self._fail("%s.%s does not end in `return <value>`" % (ci.qn, fn.name))
        return self._eval(body[-1].value, name, attr)

    def _eval(self, e, name, attr):
        """numbers only; leaves resolved by the callbacks, arithmetic by norm.consteval"""
        def sub(x):
            if isinstance(x, ast.Constant):
                if isinstance(x.value, (int, float)) and not isinstance(x.value, bool):
                    return x
                self._fail("%r is not a number" % (x.value,))
            if isinstance(x, ast.Name):
                return ast.Constant(name(x))
            if isinstance(x, ast.Attribute):
                if attr is None:
                    self._fail("cannot read %s here" % stmt_text(x))
                return ast.Constant(attr(x))
            if isinstance(x, ast.Call):
                f = x.func.id if isinstance(x.func, ast.Name) else None
                if f not in self.CALLS or x.keywords or not x.args or any(isinstance(a_, ast.Starred) for a_ in x.args):
                    self._fail("call %s" % stmt_text(x))
                shadow = True
                try:
                    name(ast.Name(f, ast.Load()))
                except AnalysisError:
                    shadow = False
                if shadow:
                    self._fail("%s is not the builtin" % f)
                try:
                    return ast.Constant(self.CALLS[f](*[self._num(sub(a_)) for a_ in x.args]))
                except (TypeError, ValueError, OverflowError) as ex:
                    self._fail("%s: %s" % (stmt_text(x), ex))
            if isinstance(x, ast.IfExp):
                return sub(x.body) if self._num(sub(x.test), True) else sub(x.orelse)
            if isinstance(x, ast.BinOp):
                return ast.Constant(self._num(ast.BinOp(sub(x.left), x.op, sub(x.right))))
            if isinstance(x, ast.UnaryOp) and isinstance(x.op, (ast.USub, ast.UAdd)):
                return ast.Constant(self._num(ast.UnaryOp(x.op, sub(x.operand))))
            if isinstance(x, ast.Compare) and len(x.ops) == 1:
                return ast.Constant(self._num(ast.Compare(sub(x.left), x.ops, [sub(x.comparators[0])]), True))
            self._fail("unsupported expression %s" % stmt_text(x))
        return self._num(sub(e))

    def _num(self, x, boolean=False):
        from .. import norm as _norm
        try:
            v = x.value if isinstance(x, ast.Constant) else _norm.consteval(x)
        except (_norm.NormError, TypeError, ValueError, ZeroDivisionError, OverflowError) as ex:
            self._fail(str(ex))
        if isinstance(v, bool) and not boolean or not isinstance(v, (int, float)):
            self._fail("%r is not a number" % (v,))
        return v
