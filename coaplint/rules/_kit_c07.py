"""Helpers of the C07 rules (rules/c07.py).

1. `sem_equiv / sem_implies` -- equivalence / implication of two DNFs of comparison normal forms
   (the literals produced by c05.nf_conds) decided *semantically*: every linear form that occurs in an
   arithmetic literal is one integer variable whose line is cut into cells by the literals' thresholds, every
   other literal is one boolean; the two DNFs are evaluated in every cell.
2. `write_values`         -- per-name values of assignments including tuple destructuring.
3. `returned_elements`    -- what a helper returns (element-wise for tuples) for interprocedural def-use.

Nothing here looks at names of locals/helpers, statement positions or source text.
"""

import ast
import itertools
import math
from fractions import Fraction

from ..rulekit import *
from ..norm import Poly

# ---------------------------------------------------------------------------
# 1. semantic comparison of DNFs over comparison normal forms


def _lin(p):
    """p = a*form + c  ->  (form key, a, c); form is a primitive integer combination of monomials with a
    positive leading coefficient; (None, 0, c) for a constant."""
    terms = {k: v for k, v in p.t.items() if k != ()}
    c = p.t.get((), Fraction(0))
    if not terms:
        return None, Fraction(0), c
    keys = sorted(terms)
    den = 1
    for k in keys:
        den = den * terms[k].denominator // math.gcd(den, terms[k].denominator)
    ints = [int(terms[k] * den) for k in keys]
    g = 0
    for v in ints:
        g = math.gcd(g, abs(v))
    if ints[0] < 0:
        g = -g
    form = tuple((k, v // g) for k, v in zip(keys, ints))
    a = Fraction(g, den)
    return form, a, c


def _boolkey(l):
    k = l[0]
    if k in ("is", "isnot"):
        return ("is",) + tuple(sorted(map(str, l[1:]))), k == "is"
    if k in ("in", "notin"):
        return ("in",) + tuple(map(str, l[1:])), k == "in"
    if k in ("truth", "nottruth"):
        return ("truth", str(l[1])), k == "truth"
    if k in ("eq", "ne") and len(l) == 3:
        return ("eq",) + tuple(sorted(map(str, l[1:]))), k == "eq"
    raise AnalysisError("C07: literal %r is outside the vocabulary of the semantic comparison" % (l,))


def _arith(l):
    return l[0] in ("lt", "le", "eq", "ne") and len(l) == 2 and isinstance(l[1], Poly)


class _Space:
    def __init__(self, lits):
        self.forms = {}  # form -> set of thresholds
        self.bools = set()
        self.info = {}
        for l in lits:
            if l in self.info:
                continue
            if _arith(l):
                form, a, c = _lin(l[1])
                self.info[l] = ("a", form, a, c)
                if form is not None:
                    self.forms.setdefault(form, set()).add(-c / a)
            else:
                key, pol = _boolkey(l)
                self.info[l] = ("b", key, pol)
                self.bools.add(key)
        self.forms_l = sorted(self.forms)
        self.bools_l = sorted(self.bools)

    def samples(self, form):
        out = set()
        for th in self.forms[form]:
            f = math.floor(th)
            out.update((f - 1, f, f + 1, f + 2))
        return sorted(out)

    def size(self):
        n = 2 ** len(self.bools_l)
        for f in self.forms_l:
            n *= len(self.samples(f))
        return n

    def assignments(self):
        doms = [self.samples(f) for f in self.forms_l] + [(False, True)] * len(self.bools_l)
        nf = len(self.forms_l)
        for combo in itertools.product(*doms):
            yield dict(zip(self.forms_l, combo[:nf])), dict(zip(self.bools_l, combo[nf:]))

    def lit(self, l, fv, bv):
        inf = self.info[l]
        if inf[0] == "b":
            return bv[inf[1]] == inf[2]
        _, form, a, c = inf
        val = c if form is None else a * fv[form] + c
        k = l[0]
        if k == "lt":
            return val < 0
        if k == "le":
            return val <= 0
        if k == "eq":
            return val == 0
        return val != 0

    def dnf(self, D, fv, bv):
        return any(all(self.lit(l, fv, bv) for l in c) for c in D)

    def dependent(self):
        """are the linear forms linearly dependent (then some cells are infeasible)?"""
        monos = sorted({k for f in self.forms_l for k, _ in f})
        rows = [[Fraction(dict(f).get(m, 0)) for m in monos] for f in self.forms_l]
        rank = 0
        for col in range(len(monos)):
            piv = None
            for r in range(rank, len(rows)):
                if rows[r][col] != 0:
                    piv = r
                    break
            if piv is None:
                continue
            rows[rank], rows[piv] = rows[piv], rows[rank]
            for r in range(len(rows)):
                if r != rank and rows[r][col] != 0:
                    fct = rows[r][col] / rows[rank][col]
                    rows[r] = [x - fct * y for x, y in zip(rows[r], rows[rank])]
            rank += 1
        return rank < len(self.forms_l)

    def describe(self, fv, bv):
        parts = []
        for f, v in fv.items():
            parts.append("%s = %s" % (" + ".join("%s*%s" % (c, "*".join(a for a, _ in k)) for k, c in f), v))
        for k, v in bv.items():
            parts.append("%s%s" % ("" if v else "not ", " ".join(k)))
        return ", ".join(parts)


class Undecided(AnalysisError):
    pass


def _compare(D1, D2, assume, mode, limit=400000):
    D1 = [frozenset(c) for c in D1]
    D2 = [frozenset(c) for c in D2]
    assume = frozenset(assume)
    sp = _Space([l for c in D1 for l in c] + [l for c in D2 for l in c] + list(assume))
    if sp.size() > limit:
        raise Undecided("C07: the condition has too many cells to compare (%d)" % sp.size())
    for fv, bv in sp.assignments():
        if not all(sp.lit(l, fv, bv) for l in assume):
            continue
        v1, v2 = sp.dnf(D1, fv, bv), sp.dnf(D2, fv, bv)
        if (mode == "eq" and v1 != v2) or (mode == "imp" and v1 and not v2):
            if sp.dependent():
                raise Undecided("C07: the comparisons of the condition are over linearly dependent quantities; the semantic comparison cannot decide it")
            return False, sp.describe(fv, bv)
    return True, None


def sem_equiv(D1, D2, assume=()):
    """(equivalent?, counterexample text).  Sound for 'equivalent' in general; a counterexample is genuine
    when the linear forms are independent (otherwise Undecided is raised)."""
    return _compare(D1, D2, assume, "eq")


def sem_implies(D1, D2, assume=()):
    return _compare(D1, D2, assume, "imp")


def forms_of(D):
    out = set()
    for c in D:
        for l in c:
            if _arith(l):
                f, _a, _c = _lin(l[1])
                if f is not None:
                    out.add(f)
    return out


def rename_atoms(l, fn):
    """literal with every atom name x replaced by fn(x)"""
    if _arith(l):
        t = {}
        for k, v in l[1].t.items():
            nk = {}
            for a, pw in k:
                a2 = fn(a)
                nk[a2] = nk.get(a2, 0) + pw
            nk = tuple(sorted(nk.items()))
            t[nk] = t.get(nk, 0) + v
        return (l[0], Poly(t))
    return (l[0],) + tuple(fn(x) if isinstance(x, str) else x for x in l[1:])


# ---------------------------------------------------------------------------
# 2. values written to a local, element-wise through tuple destructuring


def _destructure(target, value, name, out, st):
    if isinstance(target, ast.Name):
        if target.id == name:
            out.append((st, value))
        return
    if isinstance(target, (ast.Tuple, ast.List)):
        if not any(isinstance(x, ast.Name) and x.id == name for x in ast.walk(target)):
            return
        if value is not None and isinstance(value, (ast.Tuple, ast.List)) and len(value.elts) == len(target.elts) \
                and not any(isinstance(x, ast.Starred) for x in list(value.elts) + list(target.elts)):
            for t, v in zip(target.elts, value.elts):
                _destructure(t, v, name, out, st)
        else:
            out.append((st, None))
        return
    if any(isinstance(x, ast.Name) and x.id == name and isinstance(x.ctx, ast.Store) for x in ast.walk(target)):
        out.append((st, None))


def write_values(fnode, name):
    """[(statement, value expression or None)] for every binding of local `name`; `a, b = x, y` binds a to x."""
    out = []
    for st in writes_to_name(fnode, name):
        if isinstance(st, ast.Assign):
            for t in st.targets:
                _destructure(t, st.value, name, out, st)
        elif isinstance(st, ast.AnnAssign):
            out.append((st, st.value))
        else:
            out.append((st, None))
    return out


# ---------------------------------------------------------------------------
# 3. what a helper returns


def returned_elements(fi, index=None):
    """Expressions a function can return (the index-th element when it returns tuples), or None when some
    return cannot be read that way.  A function falling off its end returns None (a Constant)."""
    outs = []
    cfg = cfg_of(fi)
    rets = [n for n in walk_no_nested(fi.node) if isinstance(n, ast.Return)]
    for r in rets:
        v = r.value if r.value is not None else ast.Constant(value=None)
        v = resolve_local(fi.node, v)
        if index is None:
            outs.append((r, v))
        elif isinstance(v, ast.Tuple) and index < len(v.elts) and not any(isinstance(x, ast.Starred) for x in v.elts):
            outs.append((r, v.elts[index]))
        else:
            return None
    if not rets or not cfg.must_pass(cfg.entry, [cfg.loc1(r) for r in rets]):
        if index is not None:
            return None
        outs.append((fi.node, ast.Constant(value=None)))
    return outs


# ---------------------------------------------------------------------------
# 4. the condition under which a node executes, over *paths* (not over dominating `if`s)


def _simplify_dnf(D, limit=4000):
    """merge c&x | c&~x -> c and drop absorbed conjunctions; literals are (test id, polarity)"""
    D = set(D)
    changed = True
    while changed:
        changed = False
        if len(D) > limit:
            raise AnalysisError("C07: path condition grows beyond its bound")
        D = {c for c in D if not any(o < c for o in D)}
        lst = sorted(D, key=lambda c: (len(c), sorted(c)))
        for i, c1 in enumerate(lst):
            for c2 in lst[i + 1:]:
                if len(c1) != len(c2):
                    continue
                diff = c1 ^ c2
                if len(diff) == 2:
                    (t1, p1), (t2, p2) = tuple(diff)
                    if t1 == t2 and p1 != p2:
                        D.discard(c1)
                        D.discard(c2)
                        D.add(c1 & c2)
                        changed = True
                        break
            if changed:
                break
    return D


def path_conditions(fi, node_id, start=None):
    """Alternatives [(test expr, polarity), ...] such that CFG node `node_id` is reached from `start` (default:
    function entry) within one pass (no back edge) exactly when one alternative holds at its tests.  Computed by
    propagating conditions along all paths and merging at joins, so early returns / continue / nested or
    sequential ifs / guard order give the same result as the equivalent if-else nest.  A decision that does not
    influence whether the node is reached disappears at the join of its two arms."""
    cfg = cfg_of(fi)
    start = cfg.entry if start is None else start
    fwd = cfg.reach({start}, skip_labels=("back",)) | {start}
    if node_id not in fwd:
        return []
    # nodes from which node_id is reachable without a back edge
    back = {node_id}
    todo = [node_id]
    while todo:
        n = todo.pop()
        for p, lab in cfg.pred[n]:
            if lab == "back" or p in back:
                continue
            back.add(p)
            todo.append(p)
    sub = fwd & back
    preds = {n: [p for p, lab in cfg.pred[n] if lab != "back" and p in sub and n != start] for n in sub}
    order = []
    state = {}

    def visit(n):
        stack = [(n, iter(preds[n]))]
        state[n] = 1
        while stack:
            m, it = stack[-1]
            adv = False
            for p in it:
                if state.get(p) is None:
                    state[p] = 1
                    stack.append((p, iter(preds[p])))
                    adv = True
                    break
                if state[p] == 1:
                    raise AnalysisError("C07: cycle without back edge in the CFG of %s" % fi.short)
            if not adv:
                state[m] = 2
                order.append(m)
                stack.pop()

    visit(node_id)
    tests = {}
    cond = {}
    for n in order:
        if n == start:
            D = {frozenset()}
        else:
            D = set()
            for p in preds[n]:
                D |= cond.get(p, set())
        nd = cfg.nodes[n]
        if nd.kind in ("T", "F") and isinstance(nd.ast, ast.expr) and n != start:
            tests[id(nd.ast)] = nd.ast
            lit = (id(nd.ast), nd.kind == "T")
            D = {c | {lit} for c in D if (lit[0], not lit[1]) not in c}
        cond[n] = _simplify_dnf(D)
    out = []
    for c in sorted(cond[node_id], key=lambda c: sorted((getattr(tests[t], "lineno", 0), getattr(tests[t], "col_offset", 0), p) for t, p in c)):
        lits = sorted(c, key=lambda tp: (getattr(tests[tp[0]], "lineno", 0), getattr(tests[tp[0]], "col_offset", 0)))
        out.append([(tests[t], p) for t, p in lits])
    return out


def reach_dnf(X, N, fi, node, start=None):
    """normal-form DNF (list of literal sets, c05 vocabulary) of the condition under which `node` (an AST node) is
    reached from CFG node `start`; X: c05.Expander, N: Normalizer"""
    from .c05 import nf_conds
    cfg = cfg_of(fi)
    out = []
    for nid in cfg.locate(node)[:1]:
        for conds in path_conditions(fi, nid, start):
            for c in X.expand_conds(conds):
                out.extend(nf_conds(N, c))
    return out


# ---------------------------------------------------------------------------
# 5. c05.Expander with the conditions of a definition completed


def _make_expander():
    from .c05 import Expander as _E, node_conditions

    class PathExpander(_E):
        """c05.Expander attaches to every reaching definition the branch outcomes that dominate it.  A definition
        in the body of `if a or b:` (or in the else-arm of `if a and b:`) is dominated by no single outcome, so
        the test of every enclosing if/while is added as a whole (it is split into alternatives by the normal
        form later)."""

        def _path_conditions(self, name, wn, between, nid):
            out = list(super()._path_conditions(name, wn, between, nid))
            seen = {(id(t), pol) for t, pol in out}
            st = self.cfg.nodes[wn].ast
            if st is not None:
                for t, pol in node_conditions(self.fi, st):
                    if (id(t), pol) not in seen:
                        seen.add((id(t), pol))
                        out.append((t, pol))
            return out

    return PathExpander


PathExpander = _make_expander()
