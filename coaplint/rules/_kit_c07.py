"""Helpers of the C07 rules (rules/c07.py).

1. `sem_equiv / sem_implies` -- equivalence / implication of two DNFs of comparison normal forms
   (the literals produced by c05.nf_conds) decided *semantically*: every linear form that occurs in an
   arithmetic literal is one integer variable whose line is cut into cells by the literals' thresholds, every
   other literal is one boolean; the two DNFs are evaluated in every cell.
2. `write_values`         -- per-name values of assignments including tuple destructuring.
3. `returned_elements`    -- what a helper returns (element-wise for tuples) for interprocedural def-use.

Nothing here looks at names of locals/helpers, statement positions or source text.
"""

import ast
import itertools
import math
from fractions import Fraction

from ..rulekit import *
from ..norm import Poly

# ---------------------------------------------------------------------------
# 1. semantic comparison of DNFs over comparison normal forms


def _lin(p):
    """p = a*form + c  ->  (form key, a, c); form is a primitive integer combination of monomials with a
    positive leading coefficient; (None, 0, c) for a constant."""
    terms = {k: v for k, v in p.t.items() if k != ()}
    c = p.t.get((), Fraction(0))
    if not terms:
        return None, Fraction(0), c
    keys = sorted(terms)
    den = 1
    for k in keys:
        den = den * terms[k].denominator // math.gcd(den, terms[k].denominator)
    ints = [int(terms[k] * den) for k in keys]
    g = 0
    for v in ints:
        g = math.gcd(g, abs(v))
    if ints[0] < 0:
        g = -g
    form = tuple((k, v // g) for k, v in zip(keys, ints))
    a = Fraction(g, den)
    return form, a, c


def _boolkey(l):
    k = l[0]
    if k in ("is", "isnot"):
        return ("is",) + tuple(sorted(map(str, l[1:]))), k == "is"
    if k in ("in", "notin"):
        return ("in",) + tuple(map(str, l[1:])), k == "in"
    if k in ("truth", "nottruth"):
        return ("truth", str(l[1])), k == "truth"
    if k in ("eq", "ne") and len(l) == 3:
        return ("eq",) + tuple(sorted(map(str, l[1:]))), k == "eq"
    raise AnalysisError("C07: literal %r is outside the vocabulary of the semantic comparison" % (l,))


def _arith(l):
    return l[0] in ("lt", "le", "eq", "ne") and len(l) == 2 and isinstance(l[1], Poly)


class _Space:
    def __init__(self, lits):
        self.forms = {}  # form -> set of thresholds
        self.bools = set()
        self.info = {}
        for l in lits:
            if l in self.info:
                continue
            if _arith(l):
                form, a, c = _lin(l[1])
                self.info[l] = ("a", form, a, c)
                if form is not None:
                    self.forms.setdefault(form, set()).add(-c / a)
            else:
                key, pol = _boolkey(l)
                self.info[l] = ("b", key, pol)
                self.bools.add(key)
        self.forms_l = sorted(self.forms)
        self.bools_l = sorted(self.bools)
        # `x is None` and comparisons of x with numbers are not independent: x is None or a number.  A linear
        # form that is just the quantity x gets None as a further value, taken exactly in the cells where the
        # boolean `x is None` is true (there `x == c` is false and `x != c` true, as in Python; an ordering
        # comparison would raise and is left undecided).  Without this `x is not None and x == 0` and `x == 0`
        # would be different conditions.
        self.none_link = {}
        for key in self.bools_l:
            if key[0] == "is" and len(key) == 3 and "None" in key[1:]:
                other = [x for x in key[1:] if x != "None"]
                form = ((((other[0], 1),), 1),) if len(other) == 1 else None
                if form in self.forms:
                    self.none_link[form] = key

    def samples(self, form):
        out = set()
        for th in self.forms[form]:
            f = math.floor(th)
            out.update((f - 1, f, f + 1, f + 2))
        return sorted(out) + ([None] if form in self.none_link else [])

    def size(self):
        n = 2 ** len(self.bools_l)
        for f in self.forms_l:
            n *= len(self.samples(f))
        return n

    def assignments(self):
        doms = [self.samples(f) for f in self.forms_l] + [(False, True)] * len(self.bools_l)
        nf = len(self.forms_l)
        for combo in itertools.product(*doms):
            fv, bv = dict(zip(self.forms_l, combo[:nf])), dict(zip(self.bools_l, combo[nf:]))
            if any((fv[f] is None) != bv[k] for f, k in self.none_link.items()):
                continue
            yield fv, bv

    def lit(self, l, fv, bv):
        inf = self.info[l]
        if inf[0] == "b":
            return bv[inf[1]] == inf[2]
        _, form, a, c = inf
        k = l[0]
        if form is not None and fv[form] is None:
            if k in ("eq", "ne"):
                return k == "ne"
            raise Undecided("C07: a condition orders %s although it may be None" % form[0][0][0][0])
        val = c if form is None else a * fv[form] + c
        if k == "lt":
            return val < 0
        if k == "le":
            return val <= 0
        if k == "eq":
            return val == 0
        return val != 0

    def dnf(self, D, fv, bv):
        return any(all(self.lit(l, fv, bv) for l in c) for c in D)

    def dependent(self):
        """are the linear forms linearly dependent (then some cells are infeasible)?"""
        monos = sorted({k for f in self.forms_l for k, _ in f})
        rows = [[Fraction(dict(f).get(m, 0)) for m in monos] for f in self.forms_l]
        rank = 0
        for col in range(len(monos)):
            piv = None
            for r in range(rank, len(rows)):
                if rows[r][col] != 0:
                    piv = r
                    break
            if piv is None:
                continue
            rows[rank], rows[piv] = rows[piv], rows[rank]
            for r in range(len(rows)):
                if r != rank and rows[r][col] != 0:
                    fct = rows[r][col] / rows[rank][col]
                    rows[r] = [x - fct * y for x, y in zip(rows[r], rows[rank])]
            rank += 1
        return rank < len(self.forms_l)

    def describe(self, fv, bv):
        parts = []
        for f, v in fv.items():
            parts.append("%s = %s" % (" + ".join("%s*%s" % (c, "*".join(a for a, _ in k)) for k, c in f), v))
        for k, v in bv.items():
            parts.append("%s%s" % ("" if v else "not ", " ".join(k)))
        return ", ".join(parts)


class Undecided(AnalysisError):
    pass


def _compare(D1, D2, assume, mode, limit=400000, under=None):
    """`assume`: a conjunction of literals, `under`: a DNF -- only the cells in which both hold are compared
    (a premise that is itself a disjunction, e.g. 'the entry was found under the first key or else under the
    second', cannot be written as a set of literals)."""
    D1 = [frozenset(c) for c in D1]
    D2 = [frozenset(c) for c in D2]
    assume = frozenset(assume)
    under = None if under is None else [frozenset(c) for c in under]
    sp = _Space([l for c in D1 for l in c] + [l for c in D2 for l in c] + list(assume) + [l for c in (under or ()) for l in c])
    if sp.size() > limit:
        raise Undecided("C07: the condition has too many cells to compare (%d)" % sp.size())
    for fv, bv in sp.assignments():
        if not all(sp.lit(l, fv, bv) for l in assume):
            continue
        if under is not None and not sp.dnf(under, fv, bv):
            continue
        v1, v2 = sp.dnf(D1, fv, bv), sp.dnf(D2, fv, bv)
        if (mode == "eq" and v1 != v2) or (mode == "imp" and v1 and not v2):
            if sp.dependent():
                raise Undecided("C07: the comparisons of the condition are over linearly dependent quantities; the semantic comparison cannot decide it")
            return False, sp.describe(fv, bv)
    return True, None


def sem_equiv(D1, D2, assume=(), under=None):
    """(equivalent?, counterexample text).  Sound for 'equivalent' in general; a counterexample is genuine
    when the linear forms are independent (otherwise Undecided is raised)."""
    return _compare(D1, D2, assume, "eq", under=under)


def sem_implies(D1, D2, assume=(), under=None):
    return _compare(D1, D2, assume, "imp", under=under)


def sem_satisfiable(conj):
    """is the conjunction of literals true in some cell?"""
    conj = frozenset(conj)
    sp = _Space(list(conj))
    return any(all(sp.lit(l, fv, bv) for l in conj) for fv, bv in sp.assignments())


def atoms_of(l):
    """names of the quantities a literal talks about"""
    out = set()
    for x in l[1:]:
        if isinstance(x, Poly):
            out |= set(x.atoms())
        elif isinstance(x, str):
            out.add(x)
    return out


def project_away(D, decisive):
    """Existential projection of a DNF: the condition `exists <values of the quantities in decisive>. D` over the
    remaining quantities.  For a DNF that is: every satisfiable conjunction without its literals that mention a
    projected quantity (a literal mentioning both kinds of quantity would make this an over-approximation; the
    callers refuse that)."""
    out = set()
    for c in D:
        c = frozenset(c)
        if not sem_satisfiable(c):
            continue
        out.add(frozenset(l for l in c if not (atoms_of(l) & decisive)))
    return out


def forms_of(D):
    out = set()
    for c in D:
        for l in c:
            if _arith(l):
                f, _a, _c = _lin(l[1])
                if f is not None:
                    out.add(f)
    return out


def rename_atoms(l, fn):
    """literal with every atom name x replaced by fn(x)"""
    if _arith(l):
        t = {}
        for k, v in l[1].t.items():
            nk = {}
            for a, pw in k:
                a2 = fn(a)
                nk[a2] = nk.get(a2, 0) + pw
            nk = tuple(sorted(nk.items()))
            t[nk] = t.get(nk, 0) + v
        return (l[0], Poly(t))
    return (l[0],) + tuple(fn(x) if isinstance(x, str) else x for x in l[1:])


# ---------------------------------------------------------------------------
# 2. values written to a local, element-wise through tuple destructuring


def _destructure(target, value, name, out, st):
    if isinstance(target, ast.Name):
        if target.id == name:
            out.append((st, value))
        return
    if isinstance(target, (ast.Tuple, ast.List)):
        if not any(isinstance(x, ast.Name) and x.id == name for x in ast.walk(target)):
            return
        if value is not None and isinstance(value, (ast.Tuple, ast.List)) and len(value.elts) == len(target.elts) \
                and not any(isinstance(x, ast.Starred) for x in list(value.elts) + list(target.elts)):
            for t, v in zip(target.elts, value.elts):
                _destructure(t, v, name, out, st)
        else:
            out.append((st, None))
        return
    if any(isinstance(x, ast.Name) and x.id == name and isinstance(x.ctx, ast.Store) for x in ast.walk(target)):
        out.append((st, None))


def write_values(fnode, name):
    """[(statement, value expression or None)] for every binding of local `name`; `a, b = x, y` binds a to x."""
    out = []
    for st in writes_to_name(fnode, name):
        if isinstance(st, ast.Assign):
            for t in st.targets:
                _destructure(t, st.value, name, out, st)
        elif isinstance(st, (ast.AnnAssign, ast.NamedExpr)):
            out.append((st, st.value))  # `name: T = v`, `(name := v)`
        else:
            out.append((st, None))
    return out


# ---------------------------------------------------------------------------
# 3. what a helper returns


def returned_elements(fi, index=None):
    """Expressions a function can return (the index-th element when it returns tuples), or None when some
    return cannot be read that way.  A function falling off its end returns None (a Constant)."""
    outs = []
    cfg = cfg_of(fi)
    rets = [n for n in walk_no_nested(fi.node) if isinstance(n, ast.Return)]
    for r in rets:
        v = r.value if r.value is not None else ast.Constant(value=None)
        v = resolve_local(fi.node, v)
        if index is None:
            outs.append((r, v))
        elif isinstance(v, ast.Tuple) and index < len(v.elts) and not any(isinstance(x, ast.Starred) for x in v.elts):
            outs.append((r, v.elts[index]))
        else:
            return None
    if not rets or not cfg.must_pass(cfg.entry, [cfg.loc1(r) for r in rets]):
        if index is not None:
            return None
        outs.append((fi.node, ast.Constant(value=None)))
    return outs


# ---------------------------------------------------------------------------
# 4. the condition under which a node executes, over *paths* (not over dominating `if`s)


def _simplify_dnf(D, limit=4000):
    """merge c&x | c&~x -> c and drop absorbed conjunctions; literals are (test id, polarity)"""
    D = set(D)
    changed = True
    while changed:
        changed = False
        if len(D) > limit:
            raise AnalysisError("C07: path condition grows beyond its bound")
        D = {c for c in D if not any(o < c for o in D)}
        lst = sorted(D, key=lambda c: (len(c), sorted(c)))
        for i, c1 in enumerate(lst):
            for c2 in lst[i + 1:]:
                if len(c1) != len(c2):
                    continue
                diff = c1 ^ c2
                if len(diff) == 2:
                    (t1, p1), (t2, p2) = tuple(diff)
                    if t1 == t2 and p1 != p2:
                        D.discard(c1)
                        D.discard(c2)
                        D.add(c1 & c2)
                        changed = True
                        break
            if changed:
                break
    return D


def path_conditions(fi, node_id, start=None, avoid=()):
    """Alternatives [(test expr, polarity), ...] such that CFG node `node_id` is reached from `start` (default:
    function entry) within one pass (no back edge) exactly when one alternative holds at its tests.  Computed by
    propagating conditions along all paths and merging at joins, so early returns / continue / nested or
    sequential ifs / guard order give the same result as the equivalent if-else nest.  A decision that does not
    influence whether the node is reached disappears at the join of its two arms.  Ways through a node of
    `avoid` do not count."""
    cfg = cfg_of(fi)
    start = cfg.entry if start is None else start
    avoid = set(avoid) - {start, node_id}
    fwd = cfg.reach({start}, avoid=avoid, skip_labels=("back",)) | {start}
    if node_id not in fwd:
        return []
    # nodes from which node_id is reachable without a back edge
    back = {node_id}
    todo = [node_id]
    while todo:
        n = todo.pop()
        for p, lab in cfg.pred[n]:
            if lab == "back" or p in back or p in avoid:
                continue
            back.add(p)
            todo.append(p)
    sub = fwd & back
    preds = {n: [p for p, lab in cfg.pred[n] if lab != "back" and p in sub and n != start] for n in sub}
    order = []
    state = {}

    def visit(n):
        stack = [(n, iter(preds[n]))]
        state[n] = 1
        while stack:
            m, it = stack[-1]
            adv = False
            for p in it:
                if state.get(p) is None:
                    state[p] = 1
                    stack.append((p, iter(preds[p])))
                    adv = True
                    break
                if state[p] == 1:
                    raise AnalysisError("C07: cycle without back edge in the CFG of %s" % fi.short)
            if not adv:
                state[m] = 2
                order.append(m)
                stack.pop()

    visit(node_id)
    tests = {}
    cond = {}
    for n in order:
        if n == start:
            D = {frozenset()}
        else:
            D = set()
            for p in preds[n]:
                D |= cond.get(p, set())
        nd = cfg.nodes[n]
        if nd.kind in ("T", "F") and isinstance(nd.ast, ast.expr) and n != start:
            tests[id(nd.ast)] = nd.ast
            lit = (id(nd.ast), nd.kind == "T")
            D = {c | {lit} for c in D if (lit[0], not lit[1]) not in c}
        cond[n] = _simplify_dnf(D)
    out = []
    for c in sorted(cond[node_id], key=lambda c: sorted((getattr(tests[t], "lineno", 0), getattr(tests[t], "col_offset", 0), p) for t, p in c)):
        lits = sorted(c, key=lambda tp: (getattr(tests[tp[0]], "lineno", 0), getattr(tests[tp[0]], "col_offset", 0)))
        out.append([(tests[t], p) for t, p in lits])
    return out


def reach_dnf(X, N, fi, node, start=None):
    """normal-form DNF (list of literal sets, c05 vocabulary) of the condition under which `node` (an AST node) is
    reached from CFG node `start`; X: c05.Expander, N: Normalizer"""
    from .c05 import nf_conds
    cfg = cfg_of(fi)
    out = []
    for nid in cfg.locate(node)[:1]:
        for conds in path_conditions(fi, nid, start):
            for c in X.expand_conds(conds):
                out.extend(nf_conds(N, c))
    return out


# ---------------------------------------------------------------------------
# 5. c05.Expander with the conditions of a definition completed


def _make_expander():
    from .c05 import Expander as _E, node_conditions

    class PathExpander(_E):
        """c05.Expander replaces a local by its reaching definitions, each with the condition under which it is the
        one that reaches the use.  c05 takes for that condition the branch outcomes that dominate the definition
        plus the outcomes that every way from the definition to the use passes -- a conjunction.  That loses the
        condition whenever it is a disjunction: a definition in the body of `if a or b:`, and -- more commonly --
        a default that survives unless `if a and b:` overwrites it (`flag = True` / `if a and b: flag = False`:
        the default reaches the use when `not a or not b`, and no single outcome lies on every way).  Here the
        condition is computed over paths: (the enclosing tests of the definition, as whole expressions) and
        (the DNF, merged at joins, of the ways from the definition to the use that pass no other definition of the
        same local)."""

        def _def_conditions(self, wn):
            out = []
            seen = set()
            for t, pol, _p in self.cfg.guards(wn):
                if (id(t), pol) not in seen:
                    seen.add((id(t), pol))
                    out.append((t, pol))
            st = self.cfg.nodes[wn].ast
            if st is not None:
                for t, pol in node_conditions(self.fi, st):
                    if (id(t), pol) not in seen:
                        seen.add((id(t), pol))
                        out.append((t, pol))
            return out

        def _path_conditions(self, name, wn, between, nid):  # kept for callers that want one conjunction
            out = list(super()._path_conditions(name, wn, between, nid))
            seen = {(id(t), pol) for t, pol in out}
            for t, pol in self._def_conditions(wn):
                if (id(t), pol) not in seen:
                    seen.add((id(t), pol))
                    out.append((t, pol))
            return out

        def _reach_alternatives(self, name, wn, between, nid):
            """[[(test, polarity), ...], ...]: the definition at wn is the one that reaches nid"""
            others = {n for n, _ in self.writes(name)} - {wn, nid}
            try:
                alts = path_conditions(self.fi, nid, wn, avoid=others)
            except AnalysisError:
                alts = None
            if not alts:  # only reachable round a loop, or not computable: fall back on the conjunction
                return [self._path_conditions(name, wn, between, nid)]
            base = self._def_conditions(wn)
            seen = {(id(t), pol) for t, pol in base}
            return [base + [(t, pol) for t, pol in a if (id(t), pol) not in seen] for a in alts]

        def _name(self, e, nid, depth):
            from .c05 import _retag
            if e.id in self.subst:
                return [(self.subst[e.id], ())]
            ws = self.writes(e.id)
            if not ws or e.id in self.opaque:
                return [(e, ())]
            defs, entry = self.reaching(e.id, nid)
            if entry or not defs:
                return [(e, ())]
            if not all(self._substitutable(e.id, wn, st, v, btw, nid) for wn, st, v, btw in defs):
                return [(e, ())]
            out = []
            for wn, st, v, btw in defs:
                key = (e.id, wn, nid)
                if key in self._active:
                    raise AnalysisError("loop-carried definition of %s in %s" % (e.id, self.fi.short))
                self._active.add(key)
                try:
                    if self.path_conds:
                        calts = []
                        for conds in (self._reach_alternatives(e.id, wn, btw, nid) if len(defs) > 1 else [self._def_conditions(wn)]):
                            calts.extend(self.expand_conds(conds, depth + 1))
                    else:
                        calts = [()]
                    vals = self.expand(v, wn, depth + 1)
                    stale = self._stale(e.id, st, v, btw, nid)
                    if stale:
                        vals = [(_retag(v2, stale, e.id), tuple((_retag(t, stale, e.id), pol) for t, pol in c2)) for v2, c2 in vals]
                finally:
                    self._active.discard(key)
                for c_ in calts:
                    for v2, c2 in vals:
                        out.append((v2, c_ + c2))
                self._tick(len(out))
            return out

    return PathExpander


PathExpander = _make_expander()


def constant_env(prog, fi, fnode=None):
    """(env, chain_env) for norm.Normalizer: named numeric constants a function reads -- module-level names
    (of its own module, or imported from another module of the package) bound exactly once at top level, and
    class attributes read as `self.X` / `cls.X` / `<Class>.X` that no subclass redefines and nothing assigns
    through an instance -- with a value the checker's own constant evaluator reduces to a number.  `2**23` and
    `_HALF_RANGE` (= `1 << 23`) are then the same polynomial constant."""
    fnode = fnode if fnode is not None else fi.node
    env, chain_env = {}, {}
    bound = {n.id for n in ast.walk(fnode) if isinstance(n, ast.Name) and isinstance(n.ctx, (ast.Store, ast.Del))}
    a = fnode.args
    bound |= {x.arg for x in a.posonlyargs + a.args + a.kwonlyargs}

    def numeric(e):
        try:
            v = norm.consteval(e)
        except (norm.NormError, TypeError, ValueError, ZeroDivisionError, OverflowError):
            return False
        return isinstance(v, (int, float)) and not isinstance(v, bool)

    def top_level(m, name):
        vals = []
        for st in m.tree.body:
            if isinstance(st, ast.Assign) and any(isinstance(t, ast.Name) and t.id == name for t in st.targets):
                vals.append(st.value)
            elif isinstance(st, (ast.AnnAssign, ast.AugAssign)) and isinstance(st.target, ast.Name) and st.target.id == name:
                vals.append(getattr(st, "value", None) if isinstance(st, ast.AnnAssign) else None)
        rebinds = any(isinstance(n, ast.Global) and name in n.names for n in ast.walk(m.tree))
        return vals[0] if len(vals) == 1 and vals[0] is not None and not rebinds else None

    owner = fi
    while owner is not None and owner.cls is None:
        owner = owner.parent
    for n in ast.walk(fnode):
        if isinstance(n, ast.Name) and isinstance(n.ctx, ast.Load) and n.id not in bound and n.id not in env:
            q = prog.resolve_in_module(fi.module, n.id)
            modname, _, cname = q.rpartition(".")
            m = prog.modules.get(modname)
            v = top_level(m, cname) if m is not None else None
            if v is not None and numeric(v):
                env[n.id] = v
        elif isinstance(n, ast.Attribute) and isinstance(n.ctx, ast.Load):
            c = chain(n)
            if c is None or c in chain_env or c.count(".") != 1:
                continue
            head, attr = c.split(".")
            clsqn = None
            if head in ("self", "cls") and owner is not None and head not in bound - {"self", "cls"}:
                clsqn = owner.cls.qn
            elif head not in bound:
                q = prog.resolve_in_module(fi.module, head)
                clsqn = q if q in prog.classes else None
            if clsqn is None:
                continue
            v, ci = prog.class_attr(clsqn, attr)
            if v is None or not numeric(v):
                continue
            if any(attr in prog.classes[q].attrs for q in prog.subclasses(ci.qn) if q != ci.qn and q in prog.classes):
                continue
            if field_writers(prog, attr):
                continue
            chain_env[c] = v
    return env, chain_env


def flag_locals(fi):
    """{name: [(statement, literal)]} for the locals all of whose bindings are `name = True | False | None`"""
    cand = {}
    for n in walk_no_nested(fi.node):
        if isinstance(n, ast.Assign) and len(n.targets) == 1 and isinstance(n.targets[0], ast.Name) and isinstance(n.value, ast.Constant) \
                and (n.value.value is None or isinstance(n.value.value, bool)):
            v = n.value.value
            lit = ("is", n.targets[0].id, "None") if v is None else (("truth" if v else "nottruth"), n.targets[0].id)
            cand.setdefault(n.targets[0].id, []).append((n, lit))
    a = fi.node.args
    params_ = {x.arg for x in a.posonlyargs + a.args + a.kwonlyargs} | ({a.vararg.arg} if a.vararg else set()) | ({a.kwarg.arg} if a.kwarg else set())
    return {k: v for k, v in cand.items() if k not in params_ and len(writes_to_name(fi.node, k)) == len(v)}


# ---------------------------------------------------------------------------
# 6. literal-consistent walks: "on every way the program can take while L holds, X happens before Y"


class ConsistentWalk:
    """Walks of the CFG on which the branch outcomes taken do not contradict each other or an initial set of
    literals.  Every branch pseudo node asserts the normal-form literals of its test (locals replaced by their
    reaching definitions *with* the conditions under which each definition is the reaching one, so a flag
    computed earlier and the tests it was computed from are the same facts); an outcome whose every alternative
    contradicts what the walk already knows is not taken.  Hence the verdict does not depend on how the tests
    are grouped: `if a: if b: X` / `if a and b: X` / `if not a: return ... if b: X` / `f = a and b; if f: X` /
    one merged `if a or c:` with an inner `if a:` all produce the same consistent walks.

    `keep(literal) -> literal | None` selects (and may rename) the literals that are facts for the whole walk
    (about immutable or walk-invariant quantities); every other test is a free choice (both outcomes taken).
    Pruning is only ever done on kept literals, so a walk that exists in some execution is never dropped."""

    LIMIT = 200000

    def __init__(self, X, N, fi, keep, decide=None):
        """decide(test expression) -> True / False / None: tests the rule can decide outright (e.g. `<a freshly
        constructed object> is None`), which the normal forms would otherwise keep as an opaque free choice"""
        self.X, self.N, self.fi, self.keep, self.decide = X, N, fi, keep, decide
        self.cfg = cfg_of(fi)
        self._asserted = {}
        # flag locals: every binding is `name = True / False / None`.  Where the expander cannot replace such a
        # local by its definitions (the definition reaches the test round a loop: `done = False` /
        # `while not done: ... done = True`), the walk itself carries the value: passing a binding forgets what
        # was known about the name and records the constant.
        self.flags = flag_locals(fi)
        self._writes = {}
        for name, binds in self.flags.items():
            for st, lit in binds:
                for nid in self.cfg.locate(st):
                    if self.cfg.nodes[nid].kind not in ("T", "F"):
                        self._writes.setdefault(nid, []).append((name, lit))

    def alternatives(self, conds_alts):
        """expanded conditions [((test, polarity), ...), ...] -> kept literal sets; an alternative with a test
        decided the other way is dropped"""
        from .c05 import nf_conds
        out = []
        for c in conds_alts:
            live = []
            for t, pol in c:
                k = self.decide(t) if self.decide is not None else None
                if k is None:
                    live.append((t, pol))
                elif k != pol:
                    live = None
                    break
            if live is None:
                continue
            for a in nf_conds(self.N, live):
                k = self.filter(a)
                if k not in out:
                    out.append(k)
        return out

    def filter(self, lits):
        out = set()
        for l in lits:
            k = self.keep(l)
            if k is not None:
                out.add(k)
        return frozenset(out)

    def asserted(self, pid):
        """alternatives (kept literals) of the outcome a T/F pseudo node stands for; [frozenset()] = no information"""
        if pid not in self._asserted:
            nd = self.cfg.nodes[pid]
            res = None
            if isinstance(nd.ast, ast.expr):
                try:
                    res = self.alternatives(self.X.expand_conds([(nd.ast, nd.kind == "T")]))
                except AnalysisError:
                    res = None
            if res is None or frozenset() in res:
                res = [frozenset()]
            self._asserted[pid] = res
        return self._asserted[pid]

    def add(self, lits, more):
        """lits & more, or None when contradictory"""
        from .c05 import simplify
        return simplify(set(lits) | set(more))

    def run(self, start, init, stop, watch=()):
        """All consistent walks that leave CFG node `start` knowing `init`, each followed until it enters a node of
        `stop`, the normal exit, the exception exit or a dead end.  Returns a set of
        (end node id | 'exit' | 'raise', literals known at the end, trail) where trail is the tuple of `watch`
        nodes passed on the way (the end node excluded)."""
        cfg = self.cfg
        stop, watch = set(stop), set(watch)
        init = self.add(frozenset(init), ())
        if init is None:
            return set()
        out = set()
        seen = set()
        todo = [(d, init, ()) for d, lab in cfg.succ[start] if lab != "exc"]
        steps = 0
        while todo:
            nid, lits, trail = todo.pop()
            key = (nid, lits, trail)
            if key in seen:
                continue
            seen.add(key)
            steps += 1
            if steps > self.LIMIT:
                raise AnalysisError("C07: consistent walk of %s exceeds its bound" % self.fi.short)
            if nid == cfg.exit:
                out.add(("exit", lits, trail))
                continue
            if nid == cfg.rexit:
                out.add(("raise", lits, trail))
                continue
            if nid in stop:
                out.add((nid, lits, trail))
                continue
            nd = cfg.nodes[nid]
            states = [lits]
            if nd.kind in ("T", "F"):
                states = []
                for a in self.asserted(nid):
                    s = self.add(lits, a)
                    if s is not None and s not in states:
                        states.append(s)
            if nid in self._writes:
                for name, lit in self._writes[nid]:
                    states = [frozenset(l for l in st_ if name not in atoms_of(l)) | {lit} for st_ in states]
            t2 = trail + (nid,) if nid in watch else trail
            succ = [(d, lab) for d, lab in cfg.succ[nid] if lab != "exc" or nd.kind == "raise"]
            if not succ and states:
                out.add(("raise" if nd.kind == "raise" else "exit", states[0], t2))
            for s in states:
                for d, _lab in succ:
                    todo.append((d, s, t2))
        return out


# ---------------------------------------------------------------------------
# 7. None-ness of values and "for which values does a function hand its argument on" (C07.i)

NONE, OBJ = "None", "obj"
BOTH = frozenset({NONE, OBJ})

_BUILTIN_CTORS = {"str", "bytes", "int", "float", "tuple", "list", "dict", "set", "frozenset", "repr", "bool", "object", "bytearray"}


def _refine(test, env):
    """(env if test holds, env if it does not) for tests on the None-ness of a name the environment knows"""
    pol = True
    while isinstance(test, ast.UnaryOp) and isinstance(test.op, ast.Not):
        test, pol = test.operand, not pol
    name, none_when_true = None, None
    if isinstance(test, ast.Name):
        name, none_when_true = test.id, False  # `if x:` -- objects here (exceptions, messages) are true
    elif isinstance(test, ast.Compare) and len(test.ops) == 1 and isinstance(test.ops[0], (ast.Is, ast.IsNot, ast.Eq, ast.NotEq)):
        a, b = test.left, test.comparators[0]
        if isinstance(a, ast.Constant) and a.value is None:
            a, b = b, a
        if isinstance(a, ast.Name) and isinstance(b, ast.Constant) and b.value is None:
            name, none_when_true = a.id, isinstance(test.ops[0], (ast.Is, ast.Eq))
    if name is None or name not in env:
        return env, env
    t, f = dict(env), dict(env)
    t[name] = env[name] & ({NONE} if none_when_true else {OBJ})
    f[name] = env[name] & ({OBJ} if none_when_true else {NONE})
    if not pol:
        t, f = f, t
    return t, f


def nullness(prog, fi, e, env=None, depth=5):
    """Which of {None, an object} the value of expression e (in function fi) can be; `env` gives the answer for
    names (parameters under discussion) and for expression texts (e.g. 'e.args[0]').  Anything not understood is
    BOTH, so the answer only ever errs towards 'may be either'."""
    env = env or {}
    if e is None or depth < 0:
        return BOTH
    key = " ".join(ast.unparse(e).split())
    if key in env:
        return frozenset(env[key])
    if isinstance(e, ast.Constant):
        return frozenset({NONE}) if e.value is None else frozenset({OBJ})
    if isinstance(e, (ast.JoinedStr, ast.Tuple, ast.List, ast.Dict, ast.Set, ast.ListComp, ast.DictComp, ast.SetComp, ast.GeneratorExp, ast.Lambda, ast.BinOp, ast.Compare)):
        return frozenset({OBJ})
    if isinstance(e, ast.NamedExpr):
        return nullness(prog, fi, e.value, env, depth)
    if isinstance(e, ast.Name):
        ws = write_values(fi.node, e.id)
        if not ws:
            return BOTH  # a parameter or a free name the caller said nothing about
        out = set()
        for _st, v in ws:
            out |= nullness(prog, fi, v, env, depth - 1) if v is not None and not (isinstance(v, ast.Name) and v.id == e.id) else BOTH
        return frozenset(out)
    if isinstance(e, ast.Call):
        c = chain(e.func)
        if c is not None:
            q = prog.resolve_in_module(fi.module, c)
            if q in prog.classes or c in _BUILTIN_CTORS:
                return frozenset({OBJ})
            if c.split(".")[-1][:1].isupper() and c.split(".")[-1].endswith(("Error", "Exception")) and "." not in c:
                return frozenset({OBJ})  # builtin exception classes (ConnectionResetError(...), ...)
        return BOTH
    if isinstance(e, ast.IfExp):
        t, f = _refine(e.test, env)
        return nullness(prog, fi, e.body, t, depth - 1) | nullness(prog, fi, e.orelse, f, depth - 1)
    if isinstance(e, ast.BoolOp):
        vals = [nullness(prog, fi, v, env, depth - 1) for v in e.values]
        if isinstance(e.op, ast.Or):
            # `a or b`: a when it is true (then it is not None), else b
            out = set()
            for v in vals[:-1]:
                out |= v - {NONE}
            return frozenset(out | vals[-1])
        return frozenset(set().union(*vals))
    return BOTH


def not_handed_on(fi, sites, given, subjects_none_ok=(), aliases=None):
    """For a function that is to hand something on at the call sites `sites`: {value of `given` (NONE / OBJ):
    description of a normal path that passes none of the sites}.  `given` is the parameter under discussion;
    paths on which one of `subjects_none_ok` (attribute chains) is None are not demanded to hand on.  Decided over
    the path model, so guard clauses, nesting, else-branches, De Morgan forms and hoisted tests are the same."""
    from ..paths import PathModel
    cfg = cfg_of(fi)
    subj = {s: [NONE, OBJ] for s in subjects_none_ok}
    subj[given] = [NONE, OBJ]
    pm = PathModel(fi, subjects=subj, aliases=dict(aliases or {}))
    site_n = set()
    for c in sites:
        site_n |= set(cfg.locate(c))
    lost = {}
    for p in pm.paths():
        if any(p.values.get(s) == NONE for s in subjects_none_ok):
            continue
        if p.end == "cut" or site_n & set(p.nodes):
            continue
        for v in ([p.values[given]] if given in p.values else [NONE, OBJ]):
            lost.setdefault(v, pm.describe(p))
    return lost
