"""C07 Observe client: notifications in freshness order, termination signalled once."""

import ast
import itertools

from ..rulekit import *
from ..norm import Normalizer, Poly, NormError
# expression-expansion helpers (reaching definitions + path conditions, literal
# normal forms, branch pseudo-node queries) are shared with the C05 rules
from .c05 import (Expander, cond_dnf, holds_at, alts_bool, node_conditions, _neg, _show, pseudo_asserting, pseudo_nodes, canon_chain,
                  enclosing_loops, _handler_types, _catches_exceptions)

R = Rules(
    "C07",
    explanation=(
        "Structural clauses of the observe client decided on the syntax trees of protocol.py, tokenmanager.py and "
        "numbers/constants.py.  The condition under which Request._run hands a notification to "
        "ClientObservation.callback is reconstructed from the dominating branch outcomes and the enclosing if "
        "statements, with the decision variable replaced by its reaching definitions (values as of the "
        "definition); after removing what holds for the whole observation loop its disjunctive normal form must "
        "equal RFC 7641 section 3.4 {V1<V2 & V2-V1<2^23} | {V1>V2 & V1-V2>2^23} | {T2 > T1 + 128 s} | {no Observe "
        "option} for some assignment of the program's values to V1, T1, T2, and those values must be what the "
        "RFC says (V2 the new notification's Observe value, T2 its arrival time, V1/T1 those of the last "
        "notification accepted, updated exactly under the freshness condition).  Path rules: nothing is "
        "delivered and no event is consumed after observation.error(); last/Observe-less/failed events reach "
        "an error() call; TokenManager.process_response forgets the token exactly when the request had no "
        "Observe:0 or the response has no Observe; ClientObservation.error() refuses a cancelled observation and "
        "ends in cancel(), which nulls both callback lists; BlockwiseRequest._run_observation forwards every "
        "completed notification, signals a normal end once, forwards exceptions and cancels the lower "
        "observation in its finally block.  Not decided: what the lossy async iterator delivers under "
        "arbitrary task scheduling."
    ),
    rule_text="condition reconstruction (dominating guards + reaching definitions) compared as DNF with the RFC 7641 formula; must-pass path rules on per-function CFGs",
)

RUN = "protocol.Request._run"
OBS = "self.observation"


class _Roles:
    pass


def _assign_target(cfg, node):
    st = cfg.nodes[cfg.loc1(node)].ast
    if isinstance(st, ast.Assign) and len(st.targets) == 1 and isinstance(st.targets[0], ast.Name) and st.value is node:
        return st.targets[0].id, st
    return None, st


def _roles(ctx):
    fi = ctx.prog.func(RUN)
    cfg = cfg_of(fi)
    r = _Roles()
    r.fi, r.cfg = fi, cfg
    pre, inl = [], []
    for n in walk_no_nested(fi.node):
        if isinstance(n, ast.Yield):
            nm, st = _assign_target(cfg, n)
            ctx.need(nm is not None, "Request._run: an event is received by a yield that is not `name = yield ...`")
            (inl if enclosing_loops(cfg, st, fi.node) else pre).append((nm, st))
    ctx.need(len(pre) == 1 and len(inl) == 1, "Request._run: expected one first-event yield and one in-loop yield (found %d / %d)" % (len(pre), len(inl)))
    (r.FE, r.fe_stmt), (r.NE, r.ne_stmt) = pre[0], inl[0]
    ctx.need(len(writes_to_name(fi.node, r.FE)) == 1 and len(writes_to_name(fi.node, r.NE)) == 1, "Request._run: event variables are rebound")
    r.loop = enclosing_loops(cfg, r.ne_stmt, fi.node)[-1]
    r.ne_nid = cfg.loc1(r.ne_stmt)
    r.cbs = [n for n, _ in find(OBS + ".callback($m)", fi.node)]
    r.errs = [n for n, _ in find(OBS + ".error($e)", fi.node)]
    r.X = Expander(fi)
    r.N = Normalizer()
    r.V2 = "%s.message.opt.observe" % r.NE
    r.noobs = ("is", r.V2, "None")
    r.hasobs = ("isnot", r.V2, "None")
    r.allowed = {("is", "%s.exception" % r.NE, "None"), ("nottruth", OBS + ".cancelled")}
    loop_alts = cond_dnf(r.X, r.N, fi, r.ne_stmt)
    r.ctx_lits = frozenset.intersection(*loop_alts) if loop_alts else frozenset()
    return r


def _in_loop(r, st):
    return any(l is r.loop for l in enclosing_loops(r.cfg, st, r.fi.node))


def _decision(r, node):
    """DNF of the conditions of `node` beyond what holds for the whole loop and
    beyond 'no transport error, not cancelled'."""
    alts = cond_dnf(r.X, r.N, r.fi, node)
    D = {frozenset(a - r.ctx_lits - r.allowed) for a in alts}
    return _absorb(D)


def _absorb(D):
    D = set(D)
    singles = [next(iter(c)) for c in D if len(c) == 1]
    out = set()
    for c in D:
        c2 = set(c)
        for p in singles:
            if len(c) > 1:
                try:
                    c2.discard(_neg(p))
                except KeyError:
                    pass
        out.add(frozenset(c2))
    return {c for c in out if not any(o < c for o in out)}


def _fresh(V1, V2, T1, T2, RS):
    V1, V2, T1, T2, RS = (Poly.atom(x) for x in (V1, V2, T1, T2, RS))
    K = Poly.const(2 ** 23)
    return {
        frozenset({("lt", V1 - V2), ("lt", V2 - V1 - K)}),
        frozenset({("lt", V2 - V1), ("lt", K - V1 + V2)}),
        frozenset({("lt", T1 + RS - T2)}),
    }


def _atoms(D):
    out = set()
    for c in D:
        for l in c:
            if l[0] in ("lt", "eq", "ne") and len(l) == 2:
                out |= l[1].atoms()
    return out


def _match_roles(r, D, with_noobs):
    """Assignment (V1, T1, T2, RESET) of the program's atoms under which D is
    the RFC 7641 section 3.4 condition, or None."""
    atoms = _atoms(D)
    resets = [a for a in atoms if a.endswith(".OBSERVATION_RESET_TIME")]
    cands = sorted(a for a in atoms if a != r.V2 and a not in resets)
    if len(resets) != 1 or len(cands) < 3 or len(cands) > 6:
        return None
    for V1, T1, T2 in itertools.permutations(cands, 3):
        ref = _fresh(V1, r.V2, T1, T2, resets[0])
        if with_noobs:
            ref = ref | {frozenset({r.noobs})}
        if D == ref:
            return V1, T1, T2, resets[0]
    return None


def _dshow(D):
    return " | ".join(sorted(_show(c) for c in D))


def _is_time_call(e):
    return isinstance(e, ast.Call) and chain(e.func) == "time.time" and not e.args and not e.keywords


def _value_of_write(w):
    if isinstance(w, ast.Assign) and len(w.targets) == 1 and isinstance(w.targets[0], ast.Name):
        return w.value
    if isinstance(w, ast.AnnAssign):
        return w.value
    return None


def _freshness(ctx, r):
    """(roles or None, decision DNF) of the first callback site."""
    ctx.floor("observation.callback sites in Request._run", len(r.cbs), 1)
    D = _decision(r, r.cbs[0])
    return _match_roles(r, D, True), D


@R.clause("C07.a", "a notification is delivered exactly when RFC 7641 section 3.4 calls it fresh (2^23 serial window, 128 s reset) or it carries no Observe option; V1/T1/V2/T2 are the values the RFC names")
def a(ctx):
    r = _roles(ctx)
    fi, cfg = r.fi, r.cfg
    ctx.floor("observation.callback sites in Request._run", len(r.cbs), 1)
    roles = None
    for cb in r.cbs:
        D = _decision(r, cb)
        m = _match_roles(r, D, True)
        roles = roles or m
        ctx.ob("the delivery condition is (V1<V2 & V2-V1<2^23) | (V1>V2 & V1-V2>2^23) | (T2 > T1 + RESET) | (no Observe option), nothing more and nothing less",
               m is not None, fi, cb, detail="delivery condition: %s" % _dshow(D))
    if roles is None:
        return
    V1, T1, T2, RS = roles
    ctx.note("roles: V1=%s T1=%s V2=%s T2=%s RESET=%s" % (V1, T1, r.V2, T2, RS))
    b1, bt1 = V1.split("@")[0], T1.split("@")[0]
    # T2: arrival time of this notification
    w2 = writes_to_name(fi.node, T2) if "@" not in T2 else []
    ok = bool(w2) and all(_is_time_call(_value_of_write(w)) and _in_loop(r, w) and cfg.dominates(r.ne_nid, cfg.loc1(w)) for w in w2)
    ctx.ob("T2 is the time at which the notification being judged arrived (time.time() taken after receiving it)", ok, fi, w2[0] if w2 else r.cbs[0],
           construct=stmt_text(w2[0]) if w2 else "T2 = %s" % T2)
    # V1 / T1: initialised from the first response, replaced by V2 / T2
    for base, what, pre_ok, in_ok in (
        (b1, "V1", lambda v: canon_chain(r.X, v, cfg.loc1(v)) == "%s.message.opt.observe" % r.FE, lambda v: canon_chain(r.X, v, cfg.loc1(v)) == r.V2),
        (bt1, "T1", _is_time_call, lambda v: isinstance(v, ast.Name) and v.id == T2),
    ):
        ws = writes_to_name(fi.node, base)
        pre = [w for w in ws if not _in_loop(r, w)]
        inl = [w for w in ws if _in_loop(r, w)]
        ctx.ob("%s is initialised when the first response arrives" % what, bool(pre), fi, r.fe_stmt, construct="%s = %s  [initialised]" % (what, base))
        ctx.ob("%s is replaced when a notification is accepted" % what, bool(inl), fi, r.ne_stmt, construct="%s = %s  [updated]" % (what, base))
        for w in pre:
            v = _value_of_write(w)
            ctx.ob("%s starts as the %s of the first response" % (what, "Observe value" if what == "V1" else "arrival time"), v is not None and pre_ok(v), fi, w)
        for w in inl:
            v = _value_of_write(w)
            ctx.ob("%s is replaced by %s of the notification just judged" % (what, "V2" if what == "V1" else "T2"), v is not None and in_ok(v), fi, w)
    ctx.ob("RESET is OBSERVATION_RESET_TIME of the request's transport tuning", RS == "self._pipe.request.transport_tuning.OBSERVATION_RESET_TIME", fi, r.cbs[0],
           detail="RESET = %s" % RS, construct="RESET = %s" % RS)
    ci = ctx.prog.cls("numbers.constants.TransportTuning")
    ctx.need("OBSERVATION_RESET_TIME" in ci.attrs, "TransportTuning.OBSERVATION_RESET_TIME missing")
    try:
        val = norm.consteval(ci.attrs["OBSERVATION_RESET_TIME"])
    except NormError:
        val = None
    ctx.ob("OBSERVATION_RESET_TIME == 128 s", val == 128, None, None, detail="value %r" % (val,), construct="TransportTuning.OBSERVATION_RESET_TIME = %s" % stmt_text(ci.attrs["OBSERVATION_RESET_TIME"]))


@R.clause("C07.b", "V1/T1 are updated exactly when the notification is fresh; the callback gets the notification's message, only for events without exception and only after the cancelled-check that follows the yield")
def b(ctx):
    r = _roles(ctx)
    fi, cfg = r.fi, r.cfg
    roles, _D = _freshness(ctx, r)
    ctx.need(roles is not None, "C07.b needs the freshness roles established by C07.a (delivery condition is not the RFC 7641 formula)")
    base_roles = tuple(x.split("@")[0] for x in roles)
    n = 0
    for base in base_roles[:2]:
        for w in writes_to_name(fi.node, base):
            if not _in_loop(r, w):
                continue
            n += 1
            Du = {frozenset(c - {r.hasobs}) for c in _decision(r, w)}
            mu = _match_roles(r, Du, False)
            ok = mu is not None and tuple(x.split("@")[0] for x in mu) == base_roles
            ctx.ob("the last-accepted value is replaced exactly when the notification is fresh by RFC 7641 section 3.4", ok, fi, w, detail="update condition: %s" % _dshow(Du))
    ctx.ob("both V1 and T1 are updated inside the observation loop", n >= 2, fi, r.ne_stmt, detail="%d update site(s)" % n, construct="updates of V1/T1")
    cancelled_ok = pseudo_asserting(r.X, r.N, cfg, lambda a: ("nottruth", OBS + ".cancelled") in a)
    for cb in r.cbs:
        cn = cfg.loc1(cb)
        ctx.ob("the callback receives the message of the event just received", len(cb.args) == 1 and canon_chain(r.X, cb.args[0], cn) == "%s.message" % r.NE, fi, cb,
               construct="%s  [argument]" % stmt_text(cb))
        ctx.ob("the callback runs only for events that carry no exception", holds_at(r.X, r.N, fi, cb, ("is", "%s.exception" % r.NE, "None")), fi, cb,
               construct="%s  [exception]" % stmt_text(cb))
        ctx.ob("between receiving an event and delivering it the observation is checked for cancellation",
               bool(cancelled_ok) and cn not in cfg.reach({r.ne_nid}, avoid=cancelled_ok), fi, cb, construct="%s  [cancelled]" % stmt_text(cb))


def _arg_class(prog, fi, call):
    if len(call.args) == 1 and isinstance(call.args[0], ast.Call):
        c = chain(call.args[0].func)
        return prog.resolve_in_module(fi.module, c) if c else None
    return None


@R.clause("C07.c", "after observation.error() nothing is delivered and no event is consumed; first response last -> NotObservable; transport failure -> its exception; last / Observe-less notification -> ObservationCancelled")
def c(ctx):
    r = _roles(ctx)
    fi, cfg, prog = r.fi, r.cfg, ctx.prog
    err_n = {cfg.loc1(e): e for e in r.errs}
    cb_n = {cfg.loc1(x) for x in r.cbs}
    yield_n = {cfg.loc1(r.ne_stmt), cfg.loc1(r.fe_stmt)}
    for nid, e in err_n.items():
        after = cfg.reach({nid}, skip_labels=("exc",))
        ctx.ob("after observation.error() no callback and no second error() follows", not (after & (set(err_n) | cb_n)), fi, e)
        ctx.ob("after observation.error() the runner ends without waiting for another event", not (after & yield_n) and cfg.exit in after, fi, e, construct="%s  [ends]" % stmt_text(e))
    by_class = {}
    for nid, e in err_n.items():
        by_class.setdefault(_arg_class(prog, fi, e), set()).add(nid)
    notobs = by_class.get("aiocoap.error.NotObservable", set())
    cancelled = by_class.get("aiocoap.error.ObservationCancelled", set())
    exc_sites = {nid for nid, e in err_n.items() if len(e.args) == 1 and canon_chain(r.X, e.args[0], nid) == "%s.exception" % r.NE}

    def ends_in(lit, sites, what, floor_what, only=None):
        """From every branch outcome asserting `lit` (not already behind an
        error() call) all paths on which `lit` stays true reach one of `sites`
        before the runner ends or waits for the next event."""
        ps = pseudo_asserting(r.X, r.N, cfg, lambda a: lit in a)
        contra = pseudo_asserting(r.X, r.N, cfg, lambda a: _neg(lit) in a)
        ps = {p for p in ps if not any(cfg.dominates(en, p) for en in err_n) and (only is None or only(p))}
        ctx.floor(floor_what, len(ps), 1)
        for p in sorted(ps):
            seen = cfg.reach({p}, avoid=set(sites) | contra, skip_labels=("exc",))
            ok = bool(sites) and cfg.exit not in seen and not (seen & yield_n)
            ctx.ob(what, ok, fi, cfg.nodes[p].ast, construct="%s  [%s]" % (stmt_text(cfg.nodes[p].ast), "T" if cfg.nodes[p].kind == "T" else "F"))

    # only the part of the function where an observation exists
    hasobs = pseudo_asserting(r.X, r.N, cfg, lambda a: ("isnot", OBS, "None") in a)
    ctx.floor("branches on 'an observation was requested'", len(hasobs), 1)

    def reach_obs(p):
        return any(cfg.dominates(h, p) for h in hasobs)

    ends_in(("truth", "%s.is_last" % r.FE), notobs, "a first response that is also the last one ends the observation with NotObservable", "branches on 'first event is last'", reach_obs)
    noexc = pseudo_asserting(r.X, r.N, cfg, lambda a: ("is", "%s.exception" % r.NE, "None") in a)

    def is_message(p):  # the event is known to carry a message, not an exception
        return any(cfg.dominates(q, p) for q in noexc)

    ends_in(("truth", "%s.is_last" % r.NE), cancelled, "the last message of the exchange ends the observation with ObservationCancelled", "branches on 'event is last'", is_message)
    ends_in(r.noobs, cancelled, "a notification without Observe option ends the observation with ObservationCancelled", "branches on 'notification has no Observe option'", is_message)
    ends_in(("isnot", "%s.exception" % r.NE, "None"), exc_sites, "a transport failure ends the observation with the failure's exception", "branches on 'event carries an exception'")
    for cls in ("error.NotObservable", "error.ObservationCancelled"):
        ci = prog.cls(cls)
        ctx.ob("%s is an aiocoap Error" % cls, prog.is_subclass(ci.qn, "aiocoap.error.Error"), None, None, construct="class %s" % cls)
    # hand-confirmed instance counts (checked last so that a missing site is first reported where it matters)
    ctx.floor("observation.error sites in Request._run", len(r.errs), 4)
    ctx.floor("observation.callback sites in Request._run", len(r.cbs), 1)


@R.clause("C07.d", "TokenManager.process_response forgets the token exactly when the request had no Observe:0 or the response has no Observe option, and reports is_last for exactly those responses")
def d(ctx):
    fi = ctx.prog.func("tokenmanager.TokenManager.process_response")
    p = params(fi)
    ctx.need(len(p) == 1 and not writes_to_name(fi.node, p[0]), "process_response signature changed")
    resp = p[0]
    cfg = cfg_of(fi)
    X, N = Expander(fi), Normalizer()
    reqs = []
    for n in walk_no_nested(fi.node):
        if isinstance(n, ast.Assign) and len(n.targets) == 1 and isinstance(n.targets[0], ast.Name):
            v = n.value
            if (isinstance(v, ast.Subscript) and chain(v.value) == "self.outgoing_requests") or match("self.outgoing_requests.get($*a)", v) is not None:
                reqs.append(n.targets[0].id)
    ctx.need(len(set(reqs)) == 1, "process_response: the matched request is not bound to one local")
    req = reqs[0]
    X = Expander(fi, opaque={req})
    robs = Poly.atom("%s.request.opt.observe" % req)
    want_final = {frozenset({("ne", robs)}), frozenset({("is", "%s.opt.observe" % resp, "None")})}
    want_keep = {frozenset({("eq", robs), ("isnot", "%s.opt.observe" % resp, "None")})}
    adds = [(n, bb) for n, bb in find("%s.add_response($*a, $**k)" % req, fi.node)]
    ctx.floor("add_response sites in process_response", len(adds), 1)
    base = None
    for call, bb in adds:
        alts = cond_dnf(X, N, fi, call)
        base = frozenset.intersection(*alts) if alts else frozenset()
        last = [k.value for k in bb["k"] if k.arg == "is_last"]
        if not last and len(bb["a"]) >= 2:
            last = [bb["a"][1]]
        ctx.need(len(last) == 1, "process_response: add_response without an is_last argument")
        ctx.ob("the response handed on is the one received", bool(bb["a"]) and chain(bb["a"][0]) == resp, fi, call, construct="%s  [message]" % stmt_text(call))
        tv = alts_bool(X, N, last[0], cfg.loc1(call), node_conditions(fi, call))
        T = _absorb({frozenset(l - base) for l, t in tv if t})
        F = _absorb({frozenset(l - base) for l, t in tv if not t})
        ctx.ob("is_last is reported exactly when the request had no Observe:0 or the response carries no Observe option", T == want_final and F == want_keep, fi, call,
               detail="is_last true: %s; false: %s" % (_dshow(T), _dshow(F)), construct="%s  [is_last]" % stmt_text(call))
    pops = [n for k, n in stores_to(fi.node, "self.outgoing_requests") if k in ("pop", "delitem", "del", "clear", "popitem")]
    ctx.floor("removals from outgoing_requests in process_response", len(pops), 1)
    union = set()
    for pop in pops:
        Dp = _absorb({frozenset(a - base) for a in cond_dnf(X, N, fi, pop)})
        union |= Dp
        ctx.ob("the token is forgotten only when the request had no Observe:0 or the response carries no Observe option", all(any(w <= c for w in want_final) for c in Dp) and bool(Dp), fi, pop,
               detail="removal condition: %s" % _dshow(Dp))
    ctx.ob("the token is forgotten whenever the request had no Observe:0 or the response carries no Observe option", _absorb(union) == want_final, fi, pops[0],
           detail="removal condition: %s" % _dshow(_absorb(union)), construct="removal from outgoing_requests  [complete]")


def _iterated_field(fi):
    """(field, loop) for `for c in self.<field>: c(<param>)` in a one-parameter method."""
    p = params(fi)
    out = []
    for n in walk_no_nested(fi.node):
        if isinstance(n, ast.For) and isinstance(n.target, ast.Name) and (chain(n.iter) or "").startswith("self."):
            calls = [c for c in ast.walk(n) if isinstance(c, ast.Call) and isinstance(c.func, ast.Name) and c.func.id == n.target.id]
            if calls:
                out.append((chain(n.iter), n, calls, p))
    return out


@R.clause("C07.e", "ClientObservation.error() raises on a cancelled observation, passes the exception to every errback and ends in cancel(); cancel() nulls both callback lists and sets cancelled")
def e(ctx):
    prog = ctx.prog
    f_cb, f_err, f_can = (prog.func("protocol.ClientObservation." + n) for n in ("callback", "error", "cancel"))
    lists = {}
    for fi, what in ((f_cb, "callback"), (f_err, "error")):
        its = _iterated_field(fi)
        ctx.need(len(its) == 1, "ClientObservation.%s does not iterate over exactly one list of callables" % what)
        field, loop, calls, p = its[0]
        ctx.need(len(p) == 1, "ClientObservation.%s signature changed" % what)
        lists[what] = (field, loop)
        ctx.ob("every registered %s receives the %s passed in" % ("callback" if what == "callback" else "errback", "response" if what == "callback" else "exception"),
               all(len(c.args) == 1 and isinstance(c.args[0], ast.Name) and c.args[0].id == p[0] and not writes_to_name(fi.node, p[0]) for c in calls), fi, loop,
               construct="for ... in %s" % field)
    # cancel()
    ccfg = cfg_of(f_can)
    nulled = set()
    flags = set()
    for n in walk_no_nested(f_can.node):
        if isinstance(n, ast.Assign) and isinstance(n.value, ast.Constant):
            for t in n.targets:
                c = chain(t)
                if c and c.startswith("self.") and ccfg.must_pass(ccfg.entry, {ccfg.loc1(n)}):
                    if n.value.value is None:
                        nulled.add(c)
                    elif n.value.value is True:
                        flags.add(c)
    for what in ("callback", "error"):
        field = lists[what][0]
        ctx.ob("cancel() replaces the list of %ss by None on every path" % ("callback" if what == "callback" else "errback"), field in nulled, f_can, f_can.node,
               construct="ClientObservation.cancel [%s]" % field)
    ctx.ob("cancel() sets the cancelled flag that Request._run tests", "self.cancelled" in flags, f_can, f_can.node, construct="ClientObservation.cancel [cancelled]")
    # error()
    fi = f_err
    cfg = cfg_of(fi)
    X, N = Expander(fi), Normalizer()
    dead_lits = {("is", f, "None") for f in nulled} | {("truth", f) for f in flags}
    alive_lits = {_neg(l) for l in dead_lits}
    deadp = pseudo_asserting(X, N, cfg, lambda a: bool(a & dead_lits))
    ctx.floor("branches of error() on 'already cancelled'", len(deadp), 1)
    for p in sorted(deadp):
        region = cfg.reach({p}, skip_labels=("exc",))
        raises = [n for n in region if cfg.nodes[n].kind == "raise"]
        ctx.ob("error() on an already cancelled observation raises", cfg.exit not in region and bool(raises), fi, cfg.nodes[p].ast)
    field, loop = lists["error"]
    alts = cond_dnf(X, N, fi, loop)
    ctx.ob("errbacks are only invoked on an observation that is not yet cancelled", bool(alts) and all(a & alive_lits for a in alts), fi, loop, construct="for ... in %s  [alive]" % field)
    cancels = {cfg.loc1(n) for n, _ in find("self.cancel()", fi.node)}
    ctx.ob("every normal path through error() ends the observation via cancel()", bool(cancels) and cfg.must_pass(cfg.entry, cancels), fi, fi.node, construct="ClientObservation.error [cancel]")
    ln = cfg.loc1(loop)
    ctx.ob("the errbacks are invoked before cancel() drops them", bool(cancels) and not any(ln in cfg.reach({c_}, skip_labels=("exc",)) for c_ in cancels), fi, loop,
           construct="for ... in %s  [order]" % field)


@R.clause("C07.f", "_run_observation: every completed notification goes to callback inside the async for; a normal end is followed by exactly one error(ObservationCancelled); an Exception goes to error(e); the finally block cancels the lower observation unless it already is")
def f(ctx):
    prog = ctx.prog
    fi = prog.func("protocol.BlockwiseRequest._run_observation")
    p = params(fi)
    ctx.need(len(p) == 5, "_run_observation signature changed")
    orig, lower = p[0], p[1]
    cfg = cfg_of(fi)
    loops = [n for n in walk_no_nested(fi.node) if isinstance(n, ast.AsyncFor) and chain(n.iter) == lower]
    ctx.floor("async for over the lower observation", len(loops), 1)
    ctx.need(len(loops) == 1 and isinstance(loops[0].target, ast.Name), "_run_observation: unexpected iteration over the lower observation")
    loop = loops[0]
    item = loop.target.id
    tries = [t for t in walk_no_nested(fi.node) if isinstance(t, ast.Try) and any(contains(s, loop) for s in t.body)]
    ctx.need(len(tries) >= 1, "_run_observation: the async for is not inside a try statement")
    tr = tries[-1]
    cbs = [n for n, _ in find("$o.callback($m)", fi.node)]
    errs = [n for n, _ in find("$o.error($e)", fi.node)]
    ctx.ob("completed notifications are handed to the application's observation inside the async for", any(contains(s, cb) for cb in cbs for s in loop.body), fi, loop,
           construct="async for ... in %s  [forward]" % lower)
    cb_n = {cfg.loc1(n) for n in cbs}
    err_n = {cfg.loc1(n): n for n in errs}
    for cb in cbs:
        inside = any(contains(s, cb) for s in loop.body)
        v = resolve_local(fi.node, cb.args[0]) if len(cb.args) == 1 else None
        call = v.value if isinstance(v, ast.Await) else None
        m = match("$c._complete_by_requesting_block2($pr, $rq, $nt, $lg)", call) if call is not None else None
        ok = inside and m is not None and chain(m["rq"]) == orig and chain(m["nt"]) == item
        ctx.ob("inside the async for each notification is completed by _complete_by_requesting_block2(original request, notification) and handed to callback", ok, fi, cb)
    forF = [n.id for n in cfg.nodes if n.kind == "F" and n.ast is loop]
    ctx.need(len(forF) == 1, "_run_observation: loop exit not found")
    oc = {nid for nid, e in err_n.items() if _arg_class(prog, fi, e) == "aiocoap.error.ObservationCancelled"}
    ctx.ob("a normal end of the iteration is followed by error(ObservationCancelled())", bool(oc) and cfg.must_pass(forF[0], oc), fi, loop, construct="async for ... in %s  [end]" % lower)
    after = cfg.reach({forF[0]}, skip_labels=("exc",))
    ctx.ob("after the end of the iteration nothing more is delivered", not (after & cb_n), fi, loop, construct="async for ... in %s  [no delivery]" % lower)
    for nid in sorted(oc):
        ctx.ob("the end is signalled exactly once (no second error() on a non-exceptional path)", not (cfg.reach({nid}, skip_labels=("exc",)) & set(err_n)), fi, err_n[nid])
    # handlers
    covered = False
    for h in tr.handlers:
        types = _handler_types(prog, fi, h)
        if not _catches_exceptions(prog, types):
            continue
        hn = [i for i in cfg.locate(h) if cfg.nodes[i].kind == "handler"]
        ctx.need(hn, "_run_observation: handler has no CFG node")
        sites = {nid for nid, e in err_n.items() if h.name and len(e.args) == 1 and isinstance(e.args[0], ast.Name) and e.args[0].id == h.name and contains(h, e)}
        ctx.ob("an exception caught while forwarding notifications is handed to error(e)", bool(sites) and cfg.must_pass(hn[0], sites), fi, h, construct="except %s" % ", ".join(types))
        if any(t in ("Exception", "BaseException") for t in types):
            covered = True
            break
    ctx.ob("every Exception escaping the forwarding loop is caught", covered, fi, tr, construct="try around async for ... in %s" % lower)
    # finally
    ctx.ob("the forwarding loop has a finally block", bool(tr.finalbody), fi, tr, construct="try around async for ... in %s  [finally]" % lower)
    cancels = [n for n, _ in find("%s.cancel()" % lower, fi.node) if any(contains(s, n) for s in tr.finalbody)]
    cancel_n = set()
    for n in cancels:
        cancel_n |= {i for i in cfg.locate(n) if cfg.nodes[i].kind == "stmt"}
    already = {q.id for q in pseudo_nodes(cfg) if chain(q.ast) == "%s.cancelled" % lower and q.kind == "T"}
    joins = [n.id for n in cfg.nodes if n.kind == "join" and n.label.startswith("finally")]
    ctx.floor("copies of the finally block", len(joins), 2)
    ok = bool(cancel_n)
    for j in joins:
        ok = ok and cfg.must_pass(j, cancel_n | already) and cfg.must_pass(j, cancel_n | already, to=cfg.rexit, skip_labels=())
    ctx.ob("on every way out the lower observation is cancelled unless it already is", ok, fi, tr, construct="finally of _run_observation  [cancel]")
    for cn in sorted(cancel_n):
        g = [(chain(t), pol) for t, pol, _ in cfg.guards(cn)]
        ctx.ob("the lower observation is not cancelled a second time", ("%s.cancelled" % lower, False) in g, fi, cfg.nodes[cn].ast, construct="%s  [once]" % stmt_text(cfg.nodes[cn].ast))
        break
    ctx.floor("callback sites in _run_observation", len(cbs), 1)
    ctx.floor("error sites in _run_observation", len(errs), 2)


# ---------------------------------------------------------------------------

@R.clause("C07.g", "lossy `async for` mailbox: producers replace a consumed future before completing it; the consumer re-arms only if the future it awaited is still current; end-of-observation errors end the iteration")
def g_lossy_iterator(ctx):
    """Single-slot mailbox discipline of ClientObservation._Iterator (added after an independently written
    breaking change dropped the `f is self._future` test): if the consumer re-armed unconditionally after its
    await, an item or error that a producer had already queued in a replacement future would be discarded, so
    the freshest notification / the terminating error would never be delivered."""
    IT = "protocol.ClientObservation._Iterator."
    for name, setter in (("push", "set_result"), ("push_err", "set_exception")):
        fi = ctx.prog.func(IT + name)
        arg = params(fi)[0]
        cfg = cfg_of(fi)
        sets = [c for c in calls_in(fi.node) if isinstance(c.func, ast.Attribute) and c.func.attr == setter and chain(c.func.value) == "self._future"]
        ctx.ob("%s completes the mailbox future with its argument" % name, len(sets) == 1 and sets[0].args and isinstance(sets[0].args[0], ast.Name) and sets[0].args[0].id == arg, fi, sets[0] if sets else fi.node,
               construct="_Iterator.%s completion" % name)
        fresh = [cfg.loc1(n) for k, n in stores_to(fi.node, "self._future", nested=False) if k == "assign" and isinstance(n.value, ast.Call) and isinstance(n.value.func, ast.Attribute) and n.value.func.attr == "create_future"]
        done_t = [n.id for n in cfg.nodes if n.kind == "T" and match("self._future.done()", n.ast) is not None]
        for c in sets:
            nid = cfg.loc1(c)
            ok = bool(done_t) and bool(fresh) and all(not cfg.exists_path(t, nid, avoid=set(fresh)) for t in done_t) and cfg.must_pass(cfg.entry, [nid])
            ctx.ob("%s never completes an already completed future: a consumed/unfetched one is replaced first" % name, ok, fi, c)
    fi = ctx.prog.func(IT + "__anext__")
    cfg = cfg_of(fi)
    awaits = [n for n in walk_no_nested(fi.node) if isinstance(n, ast.Await)]
    aw = [a for a in awaits if chain(a.value) == "self._future" or (isinstance(a.value, ast.Name) and any(isinstance(w, ast.Assign) and chain(w.value) == "self._future" for w in writes_to_name(fi.node, a.value.id)))]
    ctx.ob("__anext__ waits for the mailbox future", len(aw) == 1, fi, aw[0] if aw else fi.node, construct="_Iterator.__anext__ await")
    if aw:
        an = cfg.loc1(aw[0])
        rearm = [(k, n) for k, n in stores_to(fi.node, "self._future", nested=False) if k == "assign" and an in cfg.dominators(cfg.loc1(n)) or (k == "assign" and cfg.exists_path(an, cfg.loc1(n)))]
        for k, n in rearm:
            nid = cfg.loc1(n)
            ok = False
            for e, pol in guard_exprs(cfg, nid):
                b = match("$f is self._future", e)
                if b is not None and pol and isinstance(b["f"], ast.Name):
                    ws = writes_to_name(fi.node, b["f"].id)
                    if len(ws) == 1 and isinstance(ws[0], ast.Assign) and chain(ws[0].value) == "self._future" and cfg.dominates(cfg.loc1(ws[0]), an) and cfg.loc1(ws[0]) != an:
                        ok = True
            ctx.ob("after its await the consumer replaces the mailbox future only if it is still the one it awaited (a newer one already holds the next item or error)", ok, fi, n)
        rets = [r for r in walk_no_nested(fi.node) if isinstance(r, ast.Return)]
        okr = bool(rets) and all(isinstance(r.value, ast.Name) and any(isinstance(w, ast.Assign) and w.value is aw[0] for w in writes_to_name(fi.node, r.value.id)) or r.value is aw[0] for r in rets)
        ctx.ob("__anext__ returns what the awaited future delivered", okr, fi, rets[0] if rets else fi.node, construct="_Iterator.__anext__ result")
    hs = [n for n in cfg.nodes if n.kind == "handler"]
    okh = False
    for h in hs:
        t = h.ast.type
        names = {chain(x).split(".")[-1] for x in (t.elts if isinstance(t, ast.Tuple) else [t]) if t is not None and chain(x)} if t is not None else set()
        raised = [cfg.nodes[x].ast for x in cfg.reach({h.id}, skip_labels=("exc",)) if cfg.nodes[x].kind == "raise"]
        if {"NotObservable", "ObservationCancelled"} <= names and raised and all(r.exc is not None and (chain(r.exc.func if isinstance(r.exc, ast.Call) else r.exc) or "") == "StopAsyncIteration" for r in raised):
            okh = True
            ctx.ob("only the end-of-observation signals end the iteration; other errors (NetworkError ...) are raised to the consumer", names == {"NotObservable", "ObservationCancelled"}, fi, h.ast, construct="_Iterator.__anext__ handler (%s)" % ", ".join(sorted(names)))
    ctx.ob("NotObservable / ObservationCancelled end the `async for` (StopAsyncIteration)", okh, fi, fi.node, construct="_Iterator.__anext__ end of iteration")
    ai = ctx.prog.func("protocol.ClientObservation.__aiter__")
    regs_cb = [c for c, b in find("self.register_callback($it.push, $**kw)", ai.node)]
    regs_eb = [c for c, b in find("self.register_errback($it.push_err, $**kw)", ai.node)]
    ctx.ob("the iterator is fed by the observation's callbacks (push) and errbacks (push_err)", len(regs_cb) == 1 and len(regs_eb) == 1, ai, ai.node, construct="ClientObservation.__aiter__ wiring")


@R.clause("C07.h", "a transport failure ends the observation with a network error: the error is fanned out to every outstanding request of that remote, each through its own stopper (shared with C02.e / C02.j)")
def h_shared(ctx):
    from . import c02
    c02.e(ctx)
    c02.j_forward(ctx)


F_PRO = "aiocoap/protocol.py"
F_TM = "aiocoap/tokenmanager.py"
F_CON = "aiocoap/numbers/constants.py"

R.seed("C07.a", F_PRO, "(v1 < v2 and v2 - v1 < 2**23)", "(v1 < v2 and v2 - v1 < 2**24)", "window twice as large")
R.seed("C07.a", F_PRO, "or (v1 > v2 and v1 - v2 > 2**23)", "or (v1 > v2 and v1 - v2 < 2**23)", "wrap-around arm accepts old notifications")
R.seed("C07.a", F_PRO, "(v1 < v2 and v2 - v1 < 2**23)", "(v1 > v2 and v2 - v1 < 2**23)", "comparison swapped in one conjunct")
R.seed("C07.a", F_PRO, "                    or (\n                        t2\n                        > t1\n                        + self._pipe.request.transport_tuning.OBSERVATION_RESET_TIME\n                    )\n", "", "time disjunct dropped")
R.seed("C07.a", F_PRO, "                # the terminal message is always the last\n                is_recent = True", "                # the terminal message is always the last\n                is_recent = False", "final response without Observe never delivered")
R.seed("C07.a", F_CON, "    OBSERVATION_RESET_TIME = 128\n", "    OBSERVATION_RESET_TIME = 256\n")
R.seed("C07.a", F_PRO, "        v1 = first_event.message.opt.observe\n", "        v1 = 0\n", "baseline is not the first response")
R.seed("C07.a", F_PRO, "                    t1 = t2\n                    v1 = v2\n", "                    t1 = t2\n                    v1 = v2 + 1\n")
R.seed("C07.a", F_PRO, "                v2 = next_event.message.opt.observe\n                t2 = time.time()\n", "                v2 = next_event.message.opt.observe\n                t2 = t1\n", "arrival time not taken")
R.seed("C07.b", F_PRO, "                if is_recent:\n                    t1 = t2\n                    v1 = v2\n", "                t1 = t2\n                v1 = v2\n", "v1/t1 updated unconditionally")
R.seed("C07.b", F_PRO, "                if is_recent:\n                    t1 = t2\n                    v1 = v2\n", "                t1 = t2\n                if is_recent:\n                    v1 = v2\n", "t1 updated for stale notifications")
R.seed("C07.a", F_PRO, "            if is_recent:\n                self.observation.callback(next_event.message)\n", "            self.observation.callback(next_event.message)\n", "callback outside the guard")
R.seed("C07.b", F_PRO, "            if self.observation.cancelled:\n                self._stop_interest()\n                return\n", "", "delivery into a cancelled observation")
R.seed("C07.b", F_PRO, "                self.observation.callback(next_event.message)\n", "                self.observation.callback(first_event.message)\n", "stale message delivered")
R.seed("C07.c", F_PRO, "            if next_event.is_last:\n                self.observation.error(error.ObservationCancelled())\n                return\n", "            if next_event.is_last:\n                self.observation.error(error.ObservationCancelled())\n", "second error() for the last notification")
R.seed("C07.c", F_PRO, "            self.observation.error(error.NotObservable())\n            return\n", "            return\n", "NotObservable never signalled")
R.seed("C07.c", F_PRO, "                self.observation.error(next_event.exception)\n                if not next_event.is_last:", "                if not next_event.is_last:", "transport failure not signalled")
R.seed("C07.c", F_PRO, "                        next_event.exception,\n                    )\n                return\n", "                        next_event.exception,\n                    )\n                continue\n", "keeps consuming events after error()")
R.seed("C07.c", F_PRO, "            if next_event.is_last:\n                self.observation.error(error.ObservationCancelled())\n                return\n", "            if next_event.is_last:\n                return\n", "end of the observation not signalled")
R.seed("C07.d", F_TM, "request.request.opt.observe == 0 and response.opt.observe is not None", "request.request.opt.observe is not None and response.opt.observe is not None", "Observe:1 (deregister) keeps the token")
R.seed("C07.d", F_TM, "request.request.opt.observe == 0 and response.opt.observe is not None", "request.request.opt.observe == 0 or response.opt.observe is not None")
R.seed("C07.d", F_TM, "        if final:\n            self.outgoing_requests.pop(key)\n", "        self.outgoing_requests.pop(key)\n", "token forgotten after the first notification")
R.seed("C07.d", F_TM, "request.add_response(response, is_last=final)", "request.add_response(response, is_last=False)")
R.seed("C07.e", F_PRO, "        self.errbacks = None\n        self.callbacks = None\n", "        self.errbacks = None\n", "callbacks survive cancel()")
R.seed("C07.e", F_PRO, "            c(exception)\n\n        self.cancel()\n", "            c(exception)\n\n", "error() does not end the observation")
R.seed("C07.e", F_PRO, "        if self.errbacks is None:\n            raise RuntimeError(\n                \"Error raised in an already cancelled ClientObservation\"\n            ) from exception\n", "        if self.errbacks is None:\n            return\n", "second error() silently accepted")
R.seed("C07.e", F_PRO, "        for c in self.errbacks:\n            c(exception)\n\n        self.cancel()\n", "        self.cancel()\n        for c in self.errbacks:\n            c(exception)\n", "errbacks dropped before they are called")
R.seed("C07.f", F_PRO, "            weak_observation().error(error.ObservationCancelled())\n        except asyncio.CancelledError:", "            weak_observation().error(error.ObservationCancelled())\n            weak_observation().error(error.ObservationCancelled())\n        except asyncio.CancelledError:", "second error() after the loop")
R.seed("C07.f", F_PRO, "            weak_observation().error(error.ObservationCancelled())\n        except asyncio.CancelledError:", "            pass\n        except asyncio.CancelledError:", "end never signalled")
R.seed("C07.f", F_PRO, "        except Exception as e:\n            weak_observation().error(e)\n        finally:", "        except Exception as e:\n            log.error(\"%r\", e)\n        finally:", "exception swallowed")
R.seed("C07.f", F_PRO, "            if not lower_observation.cancelled:\n                lower_observation.cancel()\n", "            pass\n", "lower observation leaks")
R.seed("C07.f", F_PRO, "                weak_observation().callback(full_notification)\n", "                pass\n", "notifications not forwarded")
R.seed("C07.f", F_PRO, "                    protocol, original_request, block1_notification, log\n                )\n                log.debug(\"Reporting completed notification\")", "                    protocol, block1_notification, block1_notification, log\n                )\n                log.debug(\"Reporting completed notification\")", "remaining blocks requested with the wrong request")

R.seed("C07.g", F_PRO, "                if f is self._future:\n                    self._future = asyncio.get_running_loop().create_future()", "                self._future = asyncio.get_running_loop().create_future()", "consumer discards an item/error already queued in a replacement future")
R.seed("C07.g", F_PRO, "        def push(self, item):\n            if self._future.done():", "        def push(self, item):\n            if False:", "second notification raises InvalidStateError in the callback")
R.seed("C07.g", F_PRO, "            except (error.NotObservable, error.ObservationCancelled):\n                # only exit cleanly", "            except (error.NotObservable, error.ObservationCancelled, error.NetworkError):\n                # only exit cleanly", "network errors end the iteration silently")
R.seed("C07.g", F_PRO, "        self.register_errback(it.push_err, _suppress_deprecation=True)\n        return it", "        return it", "errors never reach the iterator")

R.seed("C07.h", "aiocoap/tokenmanager.py", "                    lambda request=request, exception=exception: request.add_exception(\n                        exception\n                    )", "                    lambda: request.add_exception(\n                        exception\n                    )", "the observation never ends with the NetworkError; a later unrelated request gets it")
