"""C07 Observe client: notifications in freshness order, termination signalled once."""

import ast
import copy
import itertools

from ..rulekit import *
from ..norm import Normalizer, Poly, NormError
# expression-expansion helpers (reaching definitions + path conditions, literal
# normal forms, branch pseudo-node queries) are shared with the C05 rules
from .c05 import (entails, alts_bool, _neg, _show, pseudo_asserting, pseudo_nodes, canon, canon_chain,
                  enclosing_loops, _handler_types, _catches_exceptions)
from ..model import FuncInfo
from ._kit_c07 import (sem_equiv, sem_implies, sem_satisfiable, atoms_of, project_away, forms_of, rename_atoms, write_values, returned_elements, reach_dnf, path_conditions, Undecided, ConsistentWalk, flag_locals, constant_env, ConstNormalizer,
                       PathExpander as Expander)

R = Rules(
    "C07",
    explanation=(
        "Structural clauses of the observe client decided on the syntax trees of protocol.py, tokenmanager.py and "
        "numbers/constants.py.  The condition under which Request._run hands a notification to "
        "ClientObservation.callback is reconstructed over all paths from the receipt of the event to every callback "
        "site (conditions propagated along the CFG and merged at joins, so early returns, continue, nested or "
        "sequential ifs and flags are the same thing), with every decision variable replaced by its reaching "
        "definitions (values as of the definition); under what holds for the whole observation loop the union over "
        "the callback sites must be *equivalent* to RFC 7641 section 3.4 {V1<V2 & V2-V1<2^23} | {V1>V2 & V1-V2>2^23} | "
        "{T2 > T1 + 128 s} | {no Observe option} for some assignment of the program's values to V1, T1, T2 "
        "(equivalence decided by evaluating both sides in every cell that the comparisons' thresholds cut out of "
        "the integer line of each linear form, and for every value of the remaining boolean atoms), and those values must be what the "
        "RFC says (V2 the new notification's Observe value, T2 its arrival time, V1/T1 those of the last "
        "notification accepted, updated exactly under the freshness condition).  The endings are decided over the "
        "literal-consistent walks of one round of the runner (branch outcomes that contradict each other, the "
        "property of the event under discussion or the constant a flag local was just given are not taken, so the "
        "grouping of the tests is immaterial): nothing is delivered and no event is consumed after "
        "observation.error(); every walk of a last / Observe-less / failed event enters an error() call whose "
        "argument is, on that walk, NotObservable / ObservationCancelled / the event's exception.  "
        "TokenManager.process_response forgets the token exactly when the request had no "
        "Observe:0 or the response has no Observe, compared semantically in the cells where a request was found "
        "(the reachability condition of the hand-over with the Observe options projected away -- a disjunction "
        "when the key is chosen among candidates), and the entry removed is the one matched; "
        "ClientObservation.error() refuses a cancelled observation and "
        "ends in cancel(), which nulls both callback lists; BlockwiseRequest._run_observation forwards every "
        "completed notification, signals a normal end once, forwards exceptions and cancels the lower "
        "observation in its finally block.  Over coap+tcp / coaps+tcp the end of a connection reaches the token "
        "manager's error fan-out as a joint invariant of three places (C07.i): the pool's relay hands (error, connection) "
        "on for a set of None-nesses of the error decided over its path model, connection_lost reports every end "
        "(None after an orderly close included) with a value inside that set, and where the peer's Release / Abort "
        "surfaces every way out reports it or closes the transport and so leaves it to connection_lost.  "
        "Not decided: what the lossy async iterator delivers under arbitrary task scheduling."
    ),
    rule_text="condition reconstruction (path conditions + reaching definitions) compared semantically with the RFC 7641 formula; must-pass path rules on per-function CFGs",
)

RUN = "protocol.Request._run"
OBS = "self.observation"


class _Roles:
    pass


def _normalizer(prog, fi):
    """normal forms in which the named numeric constants the function reads (module level, class level) are their values"""
    expr_env = {}
    env, chain_env = constant_env(prog, fi, expr_env=expr_env)
    return ConstNormalizer(env=env, chain_env=chain_env, expr_env=expr_env)


def _assign_target(cfg, node):
    st = cfg.nodes[cfg.loc1(node)].ast
    if isinstance(st, ast.Assign) and len(st.targets) == 1 and isinstance(st.targets[0], ast.Name) and st.value is node:
        return st.targets[0].id, st
    return None, st


def _event_fields(ctx):
    """Field names of the events a Pipe sends into the runner (Pipe.Event is a namedtuple)."""
    ci = ctx.prog.cls("pipe.Pipe")
    e = ci.attrs.get("Event")
    ctx.need(isinstance(e, ast.Call) and (chain(e.func) or "").split(".")[-1] == "namedtuple" and len(e.args) >= 2,
             "pipe.Pipe.Event is not defined by namedtuple(name, fields)")
    try:
        v = norm.consteval(e.args[1])
    except NormError:
        v = None
    if isinstance(v, str):
        v = tuple(v.replace(",", " ").split())
    ctx.need(isinstance(v, tuple) and {"message", "exception", "is_last"} <= set(v), "pipe.Pipe.Event has no message / exception / is_last fields")
    return list(v)


class _EventView(ast.NodeTransformer):
    """`m, e, l = (yield ...)` / `m, e, l = event`  ->  one event variable; reads of m / e / l (and of
    event[i]) become event.message / event.exception / event.is_last.  Exact, because the event is an
    immutable namedtuple and the unpacked locals are bound nowhere else.  When the same locals receive several
    events (`message, exception, is_last = yield ...` both before and inside the loop) every read is attributed to
    the one unpacking whose binding reaches it (reaching definitions on the CFG); a read that two of them reach is
    refused."""

    def __init__(self, fields, fnode, fresh, fi=None):
        self.fields, self.fnode, self.fresh, self.fi = fields, fnode, fresh, fi
        self.view = {}  # local bound by one unpacking -> (event name, field)
        self.use = {}  # id(Name node that reads a local bound by several unpackings) -> (event name, field)
        self.events = set()
        self.bad = None

    def _names(self, t):
        if isinstance(t, (ast.Tuple, ast.List)) and len(t.elts) == len(self.fields) and all(isinstance(x, ast.Name) for x in t.elts):
            return [x.id for x in t.elts]
        return None

    def collect(self):
        self.drop = set()
        unpackings = []  # (statement, event name, local names)
        retarget = []
        plain = {}  # name that receives whole events -> [(statement, target)]
        whole = {}  # such a name when several yields assign it -> [(statement, fresh event name)]
        for st in walk_no_nested(self.fnode):
            if isinstance(st, ast.Assign) and len(st.targets) == 1 and isinstance(st.value, ast.Yield):
                t = st.targets[0]
                if isinstance(t, ast.Name):
                    plain.setdefault(t.id, []).append((st, t))
                    continue
                ns = self._names(t)
                if ns is None:
                    self.bad = "an event is received into %s" % stmt_text(t)
                    return
                ev = self.fresh()
                self.events.add(ev)
                unpackings.append((st, ev, ns))
                retarget.append((st, ev, t))
        for name, sts in plain.items():
            if len(sts) == 1:
                self.events.add(name)
            elif len(writes_to_name(self.fnode, name)) == len(sts):
                # one name for the events of several yields (`event = yield ...` before and inside the loop): one
                # variable per yield, each read attributed below to the binding that reaches it
                whole[name] = []
                for st, t in sts:
                    ev = self.fresh()
                    self.events.add(ev)
                    whole[name].append((st, ev))
                    retarget.append((st, ev, t))
            else:
                self.events.add(name)  # rebound otherwise: refused by the caller
        for st in walk_no_nested(self.fnode):
            if isinstance(st, ast.Assign) and len(st.targets) == 1 and isinstance(st.value, ast.Name) and st.value.id in self.events \
                    and len(writes_to_name(self.fnode, st.value.id)) == 1:
                ns = self._names(st.targets[0])
                if ns is not None:
                    unpackings.append((st, st.value.id, ns))
                    self.drop.add(id(st))
        binds = {}
        for st, ev, ns in unpackings:
            if len(set(ns)) != len(ns):
                self.bad = "an event is unpacked into %s" % ", ".join(ns)
                return
            for n, f in zip(ns, self.fields):
                binds.setdefault(n, []).append((st, ev, f))
        for n, bs in binds.items():
            if len(writes_to_name(self.fnode, n)) != len(bs):
                self.bad = "the local %s unpacked from an event is also bound otherwise" % n
                return
            if len(bs) == 1:
                self.view[n] = bs[0][1:]
        multi = {n for n, bs in binds.items() if len(bs) > 1} | set(whole)
        for name, lst in whole.items():
            binds[name] = [(st, ev, None) for st, ev in lst]
        if multi:
            if self.fi is None:
                self.bad = "the local %s unpacked from an event is bound more than once" % sorted(multi)[0]
                return
            from .c05 import Expander as _ReachingDefs
            tmp = FuncInfo(self.fi.qn, self.fnode, self.fi.module, self.fi.cls, self.fi.parent)
            rd = _ReachingDefs(tmp)
            for u in walk_no_nested(self.fnode):
                if isinstance(u, ast.Name) and isinstance(u.ctx, ast.Load) and u.id in multi:
                    defs, entry = rd.reaching(u.id, rd.cfg.loc1(u))
                    sts = {id(st) for _wn, st, _v, _b in defs}
                    hit = [b for b in binds[u.id] if id(b[0]) in sts]
                    if entry or len(sts) != 1 or len(hit) != 1:
                        self.bad = "a read of %s (unpacked from several events) is not reached by exactly one of the unpackings" % u.id
                        return
                    self.use[id(u)] = hit[0][1:]
        for st, ev, t in retarget:
            st.targets = [ast.copy_location(ast.Name(id=ev, ctx=ast.Store()), t)]

    def visit_Assign(self, st):
        if id(st) in self.drop:
            return ast.copy_location(ast.Pass(), st)
        return self.generic_visit(st)

    def visit_Name(self, n):
        if isinstance(n.ctx, ast.Load) and (id(n) in self.use or n.id in self.view):
            ev, f = self.use[id(n)] if id(n) in self.use else self.view[n.id]
            if f is None:  # the event itself under its per-yield name
                return ast.copy_location(ast.Name(id=ev, ctx=ast.Load()), n)
            return ast.copy_location(ast.Attribute(value=ast.Name(id=ev, ctx=ast.Load()), attr=f, ctx=ast.Load()), n)
        return n

    def visit_Subscript(self, n):
        self.generic_visit(n)
        if isinstance(n.ctx, ast.Load) and isinstance(n.value, ast.Name) and n.value.id in self.events and isinstance(n.slice, ast.Constant) \
                and isinstance(n.slice.value, int) and 0 <= n.slice.value < len(self.fields):
            return ast.copy_location(ast.Attribute(value=n.value, attr=self.fields[n.slice.value], ctx=ast.Load()), n)
        return n


class _Rename(ast.NodeTransformer):
    def __init__(self, mapping):
        self.mapping = mapping

    def visit_Name(self, n):
        if n.id in self.mapping:
            return ast.copy_location(ast.Name(id=self.mapping[n.id], ctx=n.ctx), n)
        return n


def _tail_statements(body):
    """(block, index) of the statements after which the function is left whatever they do: the last statement of
    the body and, through `if` statements in that position, of their arms"""
    out = []
    if not body:
        return out
    last = body[-1]
    out.append((body, len(body) - 1))
    if isinstance(last, ast.If):
        out += _tail_statements(last.body) + _tail_statements(last.orelse)
    return out


def _splice_subgenerators(ctx, fi, fn, depth=0):
    """`yield from self._rest(a, b)` in tail position of the runner, `_rest` being a generator method that is not
    overridden: the same generator as the runner continued with the body of `_rest` (its parameters bound to the
    arguments, its locals renamed apart).  In tail position the sub-generator's `return` ends the runner as well, and
    every event sent to the runner is received by the sub-generator's yields (PEP 380), so the splice is exact.
    Anything else (a `yield from` followed by more code, a delegate that cannot be resolved) is left as it is and
    refused later for want of the in-loop yield."""
    if depth > 3:
        return fn
    for block, i in _tail_statements(fn.body):
        st = block[i]
        v = st.value if isinstance(st, (ast.Expr, ast.Return)) else None
        if not isinstance(v, ast.YieldFrom) or not isinstance(v.value, ast.Call):
            continue
        call = v.value
        g = _callee(ctx.prog, fi, call)
        if g is None or g.is_async or not any(isinstance(n, (ast.Yield, ast.YieldFrom)) for n in walk_no_nested(g.node)):
            continue
        if g.cls is None or any(g.name in ctx.prog.classes[q].methods for q in ctx.prog.subclasses(g.cls.qn) if q != g.cls.qn and q in ctx.prog.classes):
            continue  # dynamically dispatched
        if any(isinstance(a_, ast.Starred) for a_ in call.args) or any(k.arg is None for k in call.keywords):
            continue
        ga = g.node.args
        if ga.vararg or ga.kwarg or ga.kwonlyargs:
            continue
        ps = [x.arg for x in ga.posonlyargs + ga.args]
        if not (ps and ps[0] == "self" and isinstance(call.func, ast.Attribute) and chain(call.func.value) == "self"):
            continue
        ps = ps[1:]
        bound = dict(zip(ps, call.args))
        for k in call.keywords:
            bound[k.arg] = k.value
        defaults = dict(zip(reversed(ps), reversed(ga.defaults)))
        if len(call.args) > len(ps) or any(p_ not in bound and p_ not in defaults for p_ in ps) or set(bound) - set(ps):
            continue
        body = copy.deepcopy(g.node.body)
        holder = ast.Module(body=body, type_ignores=[])
        local = {n.id for n in ast.walk(holder) if isinstance(n, ast.Name) and isinstance(n.ctx, (ast.Store, ast.Del))} | set(ps)
        taken = {n.id for n in ast.walk(fn) if isinstance(n, ast.Name)}
        mapping = {}
        for name in sorted(local):
            new = name
            while new in taken:
                new += "_"
            taken.add(new)
            if new != name:
                mapping[name] = new
        holder = _Rename(mapping).visit(holder)
        binds = [ast.copy_location(ast.Assign(targets=[ast.Name(id=mapping.get(p_, p_), ctx=ast.Store())], value=copy.deepcopy(bound.get(p_, defaults.get(p_))), lineno=st.lineno), st) for p_ in ps]
        block[i:i + 1] = binds + holder.body
        ast.fix_missing_locations(fn)
        return _splice_subgenerators(ctx, fi, fn, depth + 1)
    return fn


def _canonical_run(ctx):
    """Request._run with every event seen through one variable per yield."""
    fi = ctx.prog.func(RUN)
    cache = ctx.prog.__dict__.setdefault("_c07_run", {})
    if "fi" in cache:
        return cache["fi"]
    fields = _event_fields(ctx)
    fn = copy.deepcopy(fi.node)
    if any(isinstance(n, ast.YieldFrom) for n in walk_no_nested(fn)):
        fn = _splice_subgenerators(ctx, fi, fn)
        fi = FuncInfo(fi.qn, fn, fi.module, fi.cls, fi.parent)
    taken = {n.id for n in ast.walk(fn) if isinstance(n, ast.Name)}
    counter = [0]

    def fresh():
        while True:
            counter[0] += 1
            nm = "event%d" % counter[0]
            if nm not in taken:
                taken.add(nm)
                return nm

    ev = _EventView(fields, fn, fresh, fi)
    ev.collect()
    ctx.need(ev.bad is None, "Request._run: %s" % ev.bad)
    if ev.view or ev.use or ev.drop:
        fn = ev.visit(fn)
        ast.fix_missing_locations(fn)
        fi = FuncInfo(fi.qn, fn, fi.module, fi.cls, fi.parent)
    cache["fi"] = fi
    return fi


def _obs_calls(r, attr):
    """calls <the request's observation>.<attr>(x), the receiver resolved through locals"""
    out = []
    for c in calls_in(r.fi.node):
        if isinstance(c.func, ast.Attribute) and c.func.attr == attr and len(c.args) == 1 and not c.keywords:
            if canon_chain(r.X, c.func.value, r.cfg.loc1(c)) == OBS:
                out.append(c)
    return out


def _untag(a):
    return a.split("@")[0]


def _roles(ctx):
    cache = ctx.prog.__dict__.setdefault("_c07_run", {})
    if "roles" not in cache:
        cache["roles"] = _roles_uncached(ctx)
    return cache["roles"]


def _roles_uncached(ctx):
    fi = _canonical_run(ctx)
    cfg = cfg_of(fi)
    r = _Roles()
    r.prog = ctx.prog
    r.fi, r.cfg = fi, cfg
    pre, inl = [], []
    for n in walk_no_nested(fi.node):
        if isinstance(n, ast.Yield):
            nm, st = _assign_target(cfg, n)
            ctx.need(nm is not None, "Request._run: an event is received by a yield that is not `name = yield ...`")
            (inl if enclosing_loops(cfg, st, fi.node) else pre).append((nm, st))
    ctx.need(len(pre) == 1 and len(inl) == 1, "Request._run: expected one first-event yield and one in-loop yield (found %d / %d)" % (len(pre), len(inl)))
    (r.FE, r.fe_stmt), (r.NE, r.ne_stmt) = pre[0], inl[0]
    ctx.need(len(writes_to_name(fi.node, r.FE)) == 1 and len(writes_to_name(fi.node, r.NE)) == 1, "Request._run: event variables are rebound")
    r.loop = enclosing_loops(cfg, r.ne_stmt, fi.node)[-1]
    r.ne_nid = cfg.loc1(r.ne_stmt)
    r.X = Expander(fi)
    r.N = _normalizer(ctx.prog, fi)
    r.cbs = _obs_calls(r, "callback")
    r.errs = _obs_calls(r, "error")
    r.V2 = "%s.message.opt.observe" % r.NE
    r.noobs = ("is", r.V2, "None")
    r.hasobs = ("isnot", r.V2, "None")
    r.allowed = {("is", "%s.exception" % r.NE, "None"), ("nottruth", OBS + ".cancelled")}
    r.objects = _object_or_none(ctx, r)
    loop_alts = [frozenset(_canon_lit(r, l) for l in a_) for a_ in reach_dnf(r.X, r.N, fi, r.ne_stmt)]
    r.ctx_lits = frozenset.intersection(*loop_alts) if loop_alts else frozenset()
    # what may be assumed when a condition inside the loop is judged: what holds for the whole loop, and
    # 'no transport error, not cancelled' (C07.b demands both at every delivery)
    r.assume = frozenset(r.ctx_lits) | frozenset(r.allowed)
    return r


def _object_or_none(ctx, r):
    """Quantities that are either None or an object that is true in a boolean context, so that `if x:` and
    `if x is not None:` are the same test: the message / exception of an event (exceptions are true unless a class
    goes out of its way; Message defines neither __bool__ nor __len__ -- checked) and the request's observation
    (same check)."""
    out = set()
    for ev in (r.FE, r.NE):
        out.add("%s.exception" % ev)
    plain = lambda cls: not ({"__bool__", "__len__"} & set(ctx.prog.cls(cls).methods))
    if plain("message.Message"):
        out |= {"%s.message" % ev for ev in (r.FE, r.NE)}
    if plain("protocol.ClientObservation"):
        out.add(OBS)
    return out


def _canon_lit(r, l):
    """one spelling per fact: truthiness of an object-or-None quantity is its `is not None`; values as of an
    earlier definition in the same round (`v1@flag`) are the quantity itself"""
    l = rename_atoms(l, _untag)
    if l[0] in ("truth", "nottruth") and l[1] in r.objects:
        return ("isnot" if l[0] == "truth" else "is", l[1], "None")
    return l


def _in_loop(r, st):
    return any(l is r.loop for l in enclosing_loops(r.cfg, st, r.fi.node))


def _alts(r, node):
    """Alternatives (conjunctions of normal-form literals) under which `node` executes; a value a local
    had when a flag was computed (`v1@flag`) is the same quantity as the local (`v1`)."""
    return [frozenset(_canon_lit(r, l) for l in a) for a in reach_dnf(r.X, r.N, r.fi, node, r.ne_nid)]


def _holds(r, node, lit):
    alts = _alts(r, node)
    return bool(alts) and all(entails(a_, lit) for a_ in alts)


def _residue(r, alts, extra=()):
    """the alternatives without what is assumed anyway, absorbed (for messages only)"""
    drop = set(r.assume) | set(extra)
    D = {frozenset(a - drop) for a in alts}
    return {c for c in D if not any(o < c for o in D)}


def _fresh(V1, V2, T1, T2, RS):
    V1, V2, T1, T2, RS = (Poly.atom(x) for x in (V1, V2, T1, T2, RS))
    K = Poly.const(2 ** 23)
    return {
        frozenset({("lt", V1 - V2), ("lt", V2 - V1 - K)}),
        frozenset({("lt", V2 - V1), ("lt", K - V1 + V2)}),
        frozenset({("lt", T1 + RS - T2)}),
    }


def _atoms(D):
    out = set()
    for c in D:
        for l in c:
            if l[0] in ("lt", "eq", "ne") and len(l) == 2:
                out |= l[1].atoms()
    return out


def _match_roles(r, alts, with_noobs, extra=()):
    """Assignment (V1, T1, T2, RESET) of the program's quantities under which the condition `alts` is
    *equivalent* (not: equal in shape) to the RFC 7641 section 3.4 condition, or None.  The comparison is
    semantic (_kit_c07.sem_equiv): nested / sequential tests, early returns, redundant complements
    (`v1 < v2 ... elif v1 > v2`) and reordered operands all denote the same set of (V1, V2, T1, T2)."""
    assume = frozenset(r.assume) | frozenset(extra)
    D = [frozenset(a) for a in alts]
    body = [c - assume for c in D]
    atoms = _atoms(body)
    resets = sorted(a for a in atoms if a.endswith(".OBSERVATION_RESET_TIME"))
    cands = sorted(a for a in atoms if a != r.V2 and a not in resets)
    if len(resets) != 1 or len(cands) < 3 or len(cands) > 6:
        return None
    have = forms_of(body)
    undecided = None
    for V1, T1, T2 in itertools.permutations(cands, 3):
        ref = _fresh(V1, r.V2, T1, T2, resets[0])
        if not forms_of(ref) <= have:
            continue  # the program's condition does not even depend on these differences
        if with_noobs:
            ref = ref | {frozenset({r.noobs})}
        try:
            ok, _cex = sem_equiv(D, ref, assume)
        except Undecided as e:
            undecided = e
            continue
        if ok:
            return V1, T1, T2, resets[0]
    if undecided is not None:
        raise undecided
    return None


def _dshow(D):
    return " | ".join(sorted(_show(c) for c in D))


def _is_time_call(r, e):
    if not (isinstance(e, ast.Call) and not e.args and not e.keywords):
        return False
    c = chain(e.func)
    return c is not None and r.prog.resolve_in_module(r.fi.module, c) == "time.time"


def _is_quantity(r, v, nid, atom):
    """does expression v (at CFG node nid, locals resolved) denote the quantity `atom`?"""
    if v is None:
        return False
    c = canon(r.X, v, nid)
    try:
        return r.N.poly(c if c is not None else v) == Poly.atom(atom)
    except NormError:
        return False


def _delivery(ctx, r):
    """(roles or None, all alternatives under which some callback site runs)"""
    ctx.floor("observation.callback sites in Request._run", len(r.cbs), 1)
    alts = [a for cb in r.cbs for a in _alts(r, cb)]
    return _match_roles(r, alts, True), alts


@R.clause("C07.a", "a notification is delivered exactly when RFC 7641 section 3.4 calls it fresh (2^23 serial window, 128 s reset) or it carries no Observe option; V1/T1/V2/T2 are the values the RFC names")
def a(ctx):
    r = _roles(ctx)
    fi, cfg = r.fi, r.cfg
    roles, alts = _delivery(ctx, r)
    # The obligation is over the union of all delivery sites (one site behind a flag, or one site per case):
    # the disjunction of their conditions must be the RFC formula, and no event may be delivered twice.
    ctx.ob("the delivery condition is (V1<V2 & V2-V1<2^23) | (V1>V2 & V1-V2>2^23) | (T2 > T1 + RESET) | (no Observe option), nothing more and nothing less",
           roles is not None, fi, r.cbs[0], detail="delivery condition: %s" % _dshow(_residue(r, alts)))
    cb_n = {cfg.loc1(cb) for cb in r.cbs}
    for cb in r.cbs:
        after = cfg.reach({cfg.loc1(cb)}, avoid={r.ne_nid}, skip_labels=("exc",))
        ctx.ob("a notification is delivered at most once", not (after & cb_n), fi, cb, construct="%s  [once]" % stmt_text(cb))
    if roles is None:
        return
    V1, T1, T2, RS = roles
    ctx.note("roles: V1=%s T1=%s V2=%s T2=%s RESET=%s" % (V1, T1, r.V2, T2, RS))
    # T2: arrival time of this notification -- a local set from the clock after the event was received, or the clock read in the condition itself
    w2 = write_values(fi.node, T2) if T2.isidentifier() else []
    if w2:
        ok = all(v is not None and _is_time_call(r, v) and _in_loop(r, st) and cfg.dominates(r.ne_nid, cfg.loc1(st)) for st, v in w2)
    else:
        try:
            ok = _is_time_call(r, ast.parse(T2, mode="eval").body)
        except SyntaxError:
            ok = False
    ctx.ob("T2 is the time at which the notification being judged arrived (time.time() taken after receiving it)", ok, fi, w2[0][0] if w2 else r.cbs[0],
           construct=stmt_text(w2[0][0]) if w2 else "T2 = %s" % T2)
    ctx.need(V1.isidentifier() and T1.isidentifier(), "Request._run: the last accepted Observe value / arrival time are not kept in locals (V1=%s, T1=%s)" % (V1, T1))
    # V1 / T1: initialised from the first response, replaced by V2 / T2
    for base, what, pre_ok, in_ok in (
        (V1, "V1", lambda v, n: canon_chain(r.X, v, n) == "%s.message.opt.observe" % r.FE, lambda v, n: canon_chain(r.X, v, n) == r.V2),
        (T1, "T1", lambda v, n: _is_time_call(r, v), lambda v, n: _is_quantity(r, v, n, T2)),
    ):
        ws = write_values(fi.node, base)
        pre = [(st, v) for st, v in ws if not _in_loop(r, st)]
        inl = [(st, v) for st, v in ws if _in_loop(r, st)]
        ctx.ob("%s is initialised when the first response arrives" % what, bool(pre), fi, r.fe_stmt, construct="%s = %s  [initialised]" % (what, base))
        ctx.ob("%s is replaced when a notification is accepted" % what, bool(inl), fi, r.ne_stmt, construct="%s = %s  [updated]" % (what, base))
        for st, v in pre:
            ctx.ob("%s starts as the %s of the first response" % (what, "Observe value" if what == "V1" else "arrival time"), v is not None and pre_ok(v, cfg.loc1(st)), fi, st,
                   construct="%s  [%s]" % (stmt_text(st), what))
        for st, v in inl:
            ctx.ob("%s is replaced by %s of the notification just judged" % (what, "V2" if what == "V1" else "T2"), v is not None and in_ok(v, cfg.loc1(st)), fi, st,
                   construct="%s  [%s]" % (stmt_text(st), what))
    ctx.ob("RESET is OBSERVATION_RESET_TIME of the request's transport tuning", RS == "self._pipe.request.transport_tuning.OBSERVATION_RESET_TIME", fi, r.cbs[0],
           detail="RESET = %s" % RS, construct="RESET = %s" % RS)
    _reset_time(ctx)


TUNING = "numbers.constants.TransportTuning"


def _reset_time(ctx):
    """RESET is what `<a request's transport tuning>.OBSERVATION_RESET_TIME` evaluates to, not how it is written: the
    attribute is looked up the way Python does on an instance of TransportTuning and of every subclass the
    package defines (Message falls back to TransportTuning(); Reliable / Unreliable are offered to applications)
    -- a class-level number, an expression over other class-level / module-level constants, or a property
    derived from other parameters (which are themselves evaluated on that class, so an override of a parameter
    in a subclass reaches the derived value).  The RFC's 128 s is the reference; the evaluator
    (kit.InstanceConstants) refuses what it cannot interpret, and so does this rule when anything in the package
    stores to one of the consulted parameters through an instance (the value would then depend on the run)."""
    from ._kit_c07 import InstanceConstants
    prog = ctx.prog
    ci = prog.cls(TUNING)
    ic = InstanceConstants(prog)
    for q in sorted(prog.subclasses(ci.qn), key=lambda q: (q != ci.qn, q)):
        val = ic.value(q, "OBSERVATION_RESET_TIME")
        qi = prog.classes[q]
        where = None
        for o in prog.mro(q):
            oi = prog.classes.get(o)
            hit = [st for st in (oi.node.body if oi is not None else []) if (isinstance(st, (ast.FunctionDef, ast.AsyncFunctionDef)) and st.name == "OBSERVATION_RESET_TIME")
                   or (isinstance(st, ast.Assign) and any(isinstance(t, ast.Name) and t.id == "OBSERVATION_RESET_TIME" for t in st.targets))
                   or (isinstance(st, ast.AnnAssign) and isinstance(st.target, ast.Name) and st.target.id == "OBSERVATION_RESET_TIME")]
            if hit:
                where = hit[0]
                break
        shown = stmt_text(where).splitlines()[0] if where is not None else "?"
        ctx.ob("OBSERVATION_RESET_TIME == 128 s", val == 128, None, None, detail="value %r on an instance of %s" % (val, qi.qn.split(".")[-1]),
               construct="%s.OBSERVATION_RESET_TIME: %s" % (qi.qn.split(".")[-1], shown))
    for name in sorted(ic.consulted):
        w = field_writers(prog, name)
        for fn in sorted(w):
            hits = w[fn]
            ctx.need(not hits, "%s stores to .%s of some object; the value of OBSERVATION_RESET_TIME on a transport tuning is then not a constant the rule can evaluate" % (fn, name))
        for wfi in prog.funcs.values():
            for c in walk_with_lambdas(wfi.node):
                if isinstance(c, ast.Call) and isinstance(c.func, ast.Name) and c.func.id == "setattr" and len(c.args) == 3:
                    nm = c.args[1]
                    ctx.need(not (isinstance(nm, ast.Constant) and nm.value == name), "%s sets .%s through setattr" % (wfi.short, name))


@R.clause("C07.b", "V1/T1 are updated exactly when the notification is fresh; the callback gets the notification's message, only for events without exception and only after the cancelled-check that follows the yield")
def b(ctx):
    r = _roles(ctx)
    fi, cfg = r.fi, r.cfg
    roles, _alts_cb = _delivery(ctx, r)
    ctx.need(roles is not None, "C07.b needs the freshness roles established by C07.a (delivery condition is not the RFC 7641 formula)")
    V1, T1, T2, RS = roles
    want = _fresh(V1, r.V2, T1, T2, RS)
    n = 0
    for base in (V1, T1):
        sites = [st for st, _v in write_values(fi.node, base) if _in_loop(r, st)]
        if not sites:
            continue
        n += 1
        # union over all update sites of this quantity: it is replaced on exactly the fresh notifications
        U = [a_ for st in sites for a_ in _alts(r, st)]
        ok, cex = sem_equiv(U, want, r.assume | {r.hasobs})
        ctx.ob("the last-accepted value is replaced exactly when the notification is fresh by RFC 7641 section 3.4", ok, fi, sites[0],
               detail="update condition: %s%s" % (_dshow(_residue(r, U, {r.hasobs})), "; differs for %s" % cex if cex else ""),
               construct="%s  [%s]" % (stmt_text(sites[0]), "V1" if base == V1 else "T1"))
    ctx.ob("both V1 and T1 are updated inside the observation loop", n >= 2, fi, r.ne_stmt, detail="%d of 2 quantities updated" % n, construct="updates of V1/T1")
    cancelled_ok = pseudo_asserting(r.X, r.N, cfg, lambda a: ("nottruth", OBS + ".cancelled") in a)
    for cb in r.cbs:
        cn = cfg.loc1(cb)
        ctx.ob("the callback receives the message of the event just received", len(cb.args) == 1 and canon_chain(r.X, cb.args[0], cn) == "%s.message" % r.NE, fi, cb,
               construct="%s  [argument]" % stmt_text(cb))
        ctx.ob("the callback runs only for events that carry no exception", _holds(r, cb, ("is", "%s.exception" % r.NE, "None")), fi, cb,
               construct="%s  [exception]" % stmt_text(cb))
        ctx.ob("between receiving an event and delivering it the observation is checked for cancellation",
               bool(cancelled_ok) and cn not in cfg.reach({r.ne_nid}, avoid=cancelled_ok), fi, cb, construct="%s  [cancelled]" % stmt_text(cb))


def _arg_class(prog, fi, call, X=None):
    """qualified class of the object constructed for the call's only argument (`f(E())` or `e = E(); f(e)`)"""
    if len(call.args) != 1:
        return None
    v = call.args[0]
    if not isinstance(v, ast.Call):
        v = resolve_local(fi.node, v)
    if isinstance(v, ast.Call):
        c = chain(v.func)
        return prog.resolve_in_module(fi.module, c) if c else None
    return None


def _error_ctor(prog, fi, call):
    """is `call` the construction of an aiocoap exception (a fresh object; nothing else happens)?"""
    c = chain(call.func)
    q = prog.resolve_in_module(fi.module, c) if c else None
    return bool(q) and q in prog.classes and prog.is_subclass(q, "BaseException")


def _stable_keep(r, flags=()):
    """The literals that stay true for a whole round of the runner (from the receipt of an event to the receipt
    of the next one or the runner's end): those about the fields of the received events (immutable named tuples;
    the Observe option of a received message is not written by the runner), about whether an observation was
    requested, and about its `cancelled` flag (the obligations are about rounds in which the observation is not
    cancelled when the event arrives; they end at the error() call that cancels it).  Literals over values as of
    an earlier definition (`x@flag`) and over anything else are free choices."""
    consts = {"None", "True", "False"}
    roots = {r.FE, r.NE}

    def keep(l):
        if any("@" in a_ for a_ in atoms_of(l)):
            return None
        l = _canon_lit(r, l)
        for a_ in atoms_of(l):
            if a_ in consts or a_.lstrip("-").isdigit():
                continue
            if a_ in (OBS, OBS + ".cancelled") or a_ in flags:
                continue
            parts = a_.split(".")
            if parts[0] in roots and len(parts) > 1 and all(x.isidentifier() for x in parts):
                continue
            return None
        return l

    return keep


@R.clause("C07.c", "after observation.error() nothing is delivered and no event is consumed; first response last -> NotObservable; transport failure -> its exception; last / Observe-less notification -> ObservationCancelled")
def c(ctx):
    """Decided over the literal-consistent walks of one round of the runner (_kit_c07.ConsistentWalk), not over
    which `if` statements exist: 'an event with property L ends the observation with error(E)' means that every
    walk from the receipt of the event on which L is not contradicted enters an error() site whose argument is E
    on that walk, before the runner returns or waits for the next event.  The grouping of the tests (guard
    clauses, one merged condition with an inner if/elif, nesting under `is_last`, flags, helpers, one error site
    whose argument is chosen by a conditional expression) does not change the set of walks."""
    from .c05 import pure_or_predicate
    r = _roles(ctx)
    fi, cfg, prog = r.fi, r.cfg, ctx.prog
    err_n = {cfg.loc1(e): e for e in r.errs}
    cb_n = {cfg.loc1(x) for x in r.cbs}
    fe_n, ne_n = cfg.loc1(r.fe_stmt), r.ne_nid
    yield_n = {ne_n, fe_n}
    # values may be looked through the construction of an error object (`e = error.X(); obs.error(e)`,
    # `obs.error(error.X() if first else error.Y())`)
    X = Expander(fi, pure=lambda call: pure_or_predicate(call) or _error_ctor(prog, fi, call))

    def decide(t):
        """`<freshly constructed exception> is None` is false, the object itself is true"""
        pol = True
        while isinstance(t, ast.UnaryOp) and isinstance(t.op, ast.Not):
            t, pol = t.operand, not pol
        if isinstance(t, ast.Call) and _error_ctor(prog, fi, t):
            return pol
        if isinstance(t, ast.Compare) and len(t.ops) == 1 and isinstance(t.ops[0], (ast.Is, ast.IsNot, ast.Eq, ast.NotEq)):
            a_, b_ = t.left, t.comparators[0]
            if isinstance(a_, ast.Constant) and a_.value is None:
                a_, b_ = b_, a_
            if isinstance(b_, ast.Constant) and b_.value is None and isinstance(a_, ast.Call) and _error_ctor(prog, fi, a_):
                return pol == isinstance(t.ops[0], (ast.IsNot, ast.NotEq))
        return None

    W = ConsistentWalk(X, r.N, fi, _stable_keep(r, flag_locals(fi)), decide)
    NOTOBS, CANCELLED, EXC = "aiocoap.error.NotObservable", "aiocoap.error.ObservationCancelled", "<the event's exception>"

    def signals(nid, lits):
        """what the error() site nid signals on a walk that knows `lits`: the set of classes / EXC / None (unknown)"""
        e = err_n[nid]
        out = set()
        try:
            alts = X.expand(e.args[0], nid)
        except AnalysisError:
            return {None}
        for v, conds in alts:
            if not any(W.add(lits, a_) is not None for a_ in W.alternatives([conds])):
                continue
            if chain(v) == "%s.exception" % r.NE:
                out.add(EXC)
            elif isinstance(v, ast.Call) and chain(v.func):
                out.add(prog.resolve_in_module(fi.module, chain(v.func)))
            else:
                out.add(_arg_class(prog, fi, e))
        return out

    def show(lits, init):
        return _show(frozenset(lits) - frozenset(init)) or "{}"

    # 1. after error(): nothing is delivered, nothing more is signalled, no further event is awaited
    bad_follow, bad_wait = {}, {}
    for start in (fe_n, ne_n):
        for end, lits, trail in W.run(start, (), stop=yield_n, watch=set(err_n) | cb_n):
            errs_at = [i for i, n in enumerate(trail) if n in err_n]
            if not errs_at:
                continue
            first = trail[errs_at[0]]
            if len(trail) > errs_at[0] + 1:
                bad_follow.setdefault(first, show(lits, ()))
            if end in yield_n:
                bad_wait.setdefault(first, show(lits, ()))
    for nid, e in err_n.items():
        ctx.ob("after observation.error() no callback and no second error() follows", nid not in bad_follow, fi, e,
               detail="on the way %s" % bad_follow[nid] if nid in bad_follow else None)
        ctx.ob("after observation.error() the runner ends without waiting for another event", nid not in bad_wait and cfg.exit in cfg.reach({nid}, skip_labels=("exc",)), fi, e,
               detail="on the way %s" % bad_wait[nid] if nid in bad_wait else None, construct="%s  [ends]" % stmt_text(e))

    # 2. which events end the observation, and how
    alive = ("nottruth", OBS + ".cancelled")
    noexc, hasexc = ("is", "%s.exception" % r.NE, "None"), ("isnot", "%s.exception" % r.NE, "None")

    def ends_with(start, stmt, init, kind, what, tag):
        walks = W.run(start, init, stop=set(err_n) | yield_n)
        ctx.need(bool(walks), "Request._run: no way through the runner for an event with %s" % _show(frozenset(init)))
        bad = None
        for end, lits, _trail in sorted(walks, key=lambda w: (str(w[0]), sorted(map(str, w[1])))):
            if end in err_n:
                got = signals(end, lits)
                if got == {kind}:
                    continue
                bad = "%s signals %s on the way %s" % (stmt_text(err_n[end]), ", ".join(sorted(str(g).split(".")[-1] for g in got)) or "nothing", show(lits, init))
            else:
                bad = "%s without error() on the way %s" % ({"exit": "returns", "raise": "raises"}.get(end, "waits for the next event"), show(lits, init))
            break
        ctx.ob(what, bad is None, fi, stmt, detail=bad, construct="%s  [%s]" % (stmt_text(stmt), tag))

    ends_with(fe_n, r.fe_stmt, {("isnot", OBS, "None"), ("truth", "%s.is_last" % r.FE)}, NOTOBS,
              "a first response that is also the last one ends the observation with NotObservable", "last -> NotObservable")
    ends_with(ne_n, r.ne_stmt, {alive, noexc, ("truth", "%s.is_last" % r.NE)}, CANCELLED,
              "the last message of the exchange ends the observation with ObservationCancelled", "last -> ObservationCancelled")
    ends_with(ne_n, r.ne_stmt, {alive, noexc, r.noobs}, CANCELLED,
              "a notification without Observe option ends the observation with ObservationCancelled", "no Observe -> ObservationCancelled")
    ends_with(ne_n, r.ne_stmt, {alive, hasexc}, EXC,
              "a transport failure ends the observation with the failure's exception", "exception -> error(exception)")
    # the other direction: a further event is awaited only after a message that was not the last one and carried an Observe option
    for lit, what in ((noexc, "carried a message"), (("nottruth", "%s.is_last" % r.NE), "was not the last one"), (r.hasobs, "carried an Observe option")):
        again = [w for w in W.run(ne_n, {_neg(lit)}, stop=yield_n) if w[0] in yield_n]
        ctx.ob("the runner waits for a further event only after an event that %s" % what, not again, fi, r.ne_stmt,
               detail="waits again on the way %s" % show(again[0][1], ()) if again else None, construct="%s  [next only if it %s]" % (stmt_text(r.ne_stmt), what))
    for cls in ("error.NotObservable", "error.ObservationCancelled"):
        ci = prog.cls(cls)
        ctx.ob("%s is an aiocoap Error" % cls, prog.is_subclass(ci.qn, "aiocoap.error.Error"), None, None, construct="class %s" % cls)
    # instance counts (checked last so that a missing site is first reported where it matters).  One error() site is
    # enough for the rule to be meaningful: which ending it signals is decided per walk above, so a single site whose
    # argument is chosen earlier is as good as one site per ending.
    ctx.floor("observation.error sites in Request._run", len(r.errs), 1)
    ctx.floor("observation.callback sites in Request._run", len(r.cbs), 1)


TABLE = "self.outgoing_requests"


def _callee(prog, fi, call):
    """FuncInfo of a call to a method of the same class (`self.m(..)`) or a function of the same module, else None"""
    f = call.func
    if isinstance(f, ast.Attribute) and isinstance(f.value, ast.Name) and f.value.id in ("self", "cls"):
        owner = fi
        while owner is not None and owner.cls is None:
            owner = owner.parent
        return prog.lookup_method(owner.cls.qn, f.attr) if owner is not None else None
    if isinstance(f, ast.Name):
        q = prog.resolve_in_module(fi.module, f.id)
        return prog.funcs.get(q)
    return None


def _taken_from_table(prog, fi, e, depth=3):
    """Is the value of expression e (in function fi) an entry of self.outgoing_requests -- `T[k]`, `T.get(k[, None])`,
    `T.pop(k[, None])` -- or None, possibly bound through locals, tuple unpacking and the return value of a helper?"""
    if depth < 0 or e is None:
        return False
    if isinstance(e, ast.Constant):
        return e.value is None
    if isinstance(e, ast.Subscript):
        return chain(e.value) == TABLE
    if isinstance(e, ast.Call) and isinstance(e.func, ast.Attribute) and e.func.attr in ("get", "pop") and chain(e.func.value) == TABLE:
        return len(e.args) == 1 or (len(e.args) == 2 and isinstance(e.args[1], ast.Constant) and e.args[1].value is None)
    if isinstance(e, ast.IfExp):
        return _taken_from_table(prog, fi, e.body, depth) and _taken_from_table(prog, fi, e.orelse, depth)
    if isinstance(e, ast.Name):
        return _local_from_table(prog, fi, e.id, depth - 1)
    if isinstance(e, ast.Call):
        g = _callee(prog, fi, e)
        rets = returned_elements(g) if g is not None else None
        return bool(rets) and all(_taken_from_table(prog, g, v, depth - 1) for _r, v in rets)
    return False


def _local_from_table(prog, fi, name, depth=3):
    ws = write_values(fi.node, name)
    if not ws or depth < 0:
        return False
    for st, v in ws:
        if v is not None:
            if not _taken_from_table(prog, fi, v, depth):
                return False
            continue
        # `.., name, .. = helper(...)`: the element of the returned tuples at the position of `name`
        if not (isinstance(st, ast.Assign) and len(st.targets) == 1 and isinstance(st.targets[0], (ast.Tuple, ast.List)) and isinstance(st.value, ast.Call)):
            return False
        idx = [i for i, t in enumerate(st.targets[0].elts) if isinstance(t, ast.Name) and t.id == name]
        g = _callee(prog, fi, st.value)
        rets = returned_elements(g, idx[0]) if g is not None and len(idx) == 1 else None
        if not rets or not all(_taken_from_table(prog, g, v, depth - 1) for _r, v in rets):
            return False
    return True


@R.clause("C07.d", "TokenManager.process_response forgets the token exactly when the request had no Observe:0 or the response has no Observe option, and reports is_last for exactly those responses")
def d(ctx):
    fi = ctx.prog.func("tokenmanager.TokenManager.process_response")
    p = params(fi)
    ctx.need(len(p) == 1 and not writes_to_name(fi.node, p[0]), "process_response signature changed")
    resp = p[0]
    cfg = cfg_of(fi)
    N = _normalizer(ctx.prog, fi)
    # the matched request: the one object every add_response goes to; it must come out of outgoing_requests
    adds = [c for c in calls_in(fi.node) if isinstance(c.func, ast.Attribute) and c.func.attr == "add_response"]
    ctx.floor("add_response sites in process_response", len(adds), 1)
    recvs = {c.func.value.id if isinstance(c.func.value, ast.Name) else None for c in adds}
    ctx.need(len(recvs) == 1 and None not in recvs, "process_response: the response is not handed to one local object")
    req = recvs.pop()
    ctx.need(_local_from_table(ctx.prog, fi, req), "process_response: the object the response is handed to is not (visibly) an entry of outgoing_requests")
    X = Expander(fi, opaque={req})
    robs = Poly.atom("%s.request.opt.observe" % req)
    respobs = "%s.opt.observe" % resp
    want_final = {frozenset({("ne", robs)}), frozenset({("is", respobs, "None")})}
    want_keep = {frozenset({("eq", robs), ("isnot", respobs, "None")})}
    site_alts = {id(c): reach_dnf(X, N, fi, c) for c in adds}
    every = [a_ for c in adds for a_ in site_alts[id(c)]]
    decisive = {"%s.request.opt.observe" % req, respobs}

    def mentions(l):
        return bool(atoms_of(l) & decisive)

    def shown(D):  # the part of a condition that talks about the Observe options (for messages)
        return _dshow({frozenset(l for l in c if mentions(l)) for c in D})

    mixed = [l for c in every for l in c if mentions(l) and atoms_of(l) - decisive - {"None", "True", "False"}]
    ctx.need(not mixed, "process_response: a test relates an Observe option to something else (%s); the rule cannot separate 'a request was found' from the Observe options" % (_show(frozenset(mixed[:1])) if mixed else ""))
    # "A request was found": the condition of reaching a hand-over site, with the Observe options projected away.
    # It is a *disjunction* as soon as the key is chosen among several candidates (found under the first key | not
    # under the first but under the fall-back key | ...), however that choice is spelled (re-assignment, conditional
    # expression, nested membership tests, .get() chains); every comparison below is made in the cells where it
    # holds, because is_last / the removal are only defined for a matched response.
    found = project_away(every, decisive)
    ok_all, cex_all = sem_equiv(every, found) if every else (False, None)
    ctx.ob("every matched response is handed on, whatever the Observe options are", ok_all, fi, adds[0],
           detail="handed on only when: %s%s" % (shown(every), "; differs for %s" % cex_all if cex_all else ""), construct="%s  [always]" % stmt_text(adds[0]))
    T, F = [], []
    add_n = {cfg.loc1(c) for c in adds}
    for call in adds:
        last = [k.value for k in call.keywords if k.arg == "is_last"]
        if not last and len(call.args) >= 2:
            last = [call.args[1]]
        ctx.need(len(last) == 1, "process_response: add_response without an is_last argument")
        first = call.args[0] if call.args else next((k.value for k in call.keywords if k.arg == "response"), None)
        ctx.ob("the response handed on is the one received", first is not None and canon_chain(X, first, cfg.loc1(call)) == resp, fi, call, construct="%s  [message]" % stmt_text(call))
        ctx.ob("the response is handed on once", not (cfg.reach({cfg.loc1(call)}, skip_labels=("exc",)) & add_n), fi, call, construct="%s  [once]" % stmt_text(call))
        for conds in path_conditions(fi, cfg.loc1(call)):
            tv = alts_bool(X, N, last[0], cfg.loc1(call), conds)
            T += [l for l, t in tv if t]
            F += [l for l, t in tv if not t]
    # over all hand-over sites together (one site with a computed flag, or one site per case with a literal):
    okT, cexT = sem_equiv(T, want_final, under=found)
    okF, cexF = sem_equiv(F, want_keep, under=found)
    ctx.ob("is_last is reported exactly when the request had no Observe:0 or the response carries no Observe option", okT and okF, fi, adds[0],
           detail="is_last true: %s; false: %s%s" % (shown(T), shown(F), "; differs for %s" % (cexT or cexF) if (cexT or cexF) else ""),
           construct="%s  [is_last]" % stmt_text(adds[0]))
    REMOVE = ("pop", "delitem", "del", "clear", "popitem", "__delitem__")
    stores = stores_to(fi.node, TABLE)
    pops = [n for k, n in stores if k in REMOVE or (k.startswith("ref:") and k[4:] in REMOVE)]
    # an entry that is put (back) into the table here makes "removed" a statement about the net effect of several
    # writes, which this rule does not compute: refuse rather than judge the removals alone
    inserts = [n for k, n in stores if k in ("assign", "setitem", "setdefault", "update", "__setitem__") or k.startswith("ref:") and k[4:] in ("setdefault", "update", "__setitem__")]
    ctx.need(not inserts, "process_response: outgoing_requests is also written (%s); the rule only understands removals there" % (stmt_text(inserts[0]) if inserts else ""))
    if not pops:
        # nothing is ever removed here -- unless a method that was not expanded does it, which this rule cannot follow
        hidden = [c for c in calls_in(fi.node) if _callee(ctx.prog, fi, c) is not None and
                  any(k in REMOVE for k, _n in stores_to(_callee(ctx.prog, fi, c).node, TABLE))]
        ctx.need(not hidden, "process_response: outgoing_requests entries are removed inside %s, which could not be expanded" % (stmt_text(hidden[0]) if hidden else ""))
        ctx.ob("the token is forgotten whenever the request had no Observe:0 or the response carries no Observe option", False, fi, adds[0],
               detail="no removal from outgoing_requests in process_response", construct="removal from outgoing_requests  [complete]")
        return
    union = []
    for pop in pops:
        Dp = reach_dnf(X, N, fi, pop)
        union += Dp
        ok, cex = sem_implies(Dp, want_final, under=found)
        ctx.ob("the token is forgotten only when the request had no Observe:0 or the response carries no Observe option", ok and bool(Dp), fi, pop,
               detail="removal condition: %s" % shown(Dp))
    ok, cex = sem_equiv(union, want_final, under=found)
    ctx.ob("the token is forgotten whenever the request had no Observe:0 or the response carries no Observe option", ok, fi, pops[0],
           detail="removal condition: %s%s" % (shown(union), "; differs for %s" % cex if cex else ""), construct="removal from outgoing_requests  [complete]")
    _removed_key(ctx, fi, cfg, X, N, req, pops, found)


def _table_key(e):
    """key expression of a read / removal of one outgoing_requests entry: `T[k]`, `T.get(k[, d])`, `T.pop(k[, d])`,
    `del T[k]`, `T.__delitem__(k)`; None for anything else"""
    if isinstance(e, ast.Delete):
        return _table_key(e.targets[0]) if len(e.targets) == 1 else None
    if isinstance(e, ast.Subscript) and not isinstance(e.slice, ast.Slice):
        return e.slice
    if isinstance(e, ast.Call) and isinstance(e.func, ast.Attribute) and e.func.attr in ("get", "pop", "__getitem__", "__delitem__") and e.args and not e.keywords:
        return e.args[0]
    return None


def _removed_key(ctx, fi, cfg, X, N, req, pops, found):
    """The entry that is removed is the entry the response was matched to.  Decided only where both keys are in
    plain sight (the matched request is bound once, directly from a table access; the removal names its key): for
    every pair of values the two key expressions can take that are not the same expression, the conditions of
    that pair must be contradictory wherever a request was found.  Other shapes (lookup in a helper that was not
    expanded, several lookups) are left alone -- this obligation only ever adds a finding."""
    from .c05 import nf_conds
    ws = write_values(fi.node, req)
    if len(ws) != 1 or ws[0][1] is None:
        return
    st, v = ws[0]
    v = v.value if isinstance(v, ast.Await) else v
    kl = _table_key(v)
    if kl is None:
        return
    ln = cfg.loc1(st)

    def values(e, nid):
        try:
            return [(dump(v2), a_) for v2, c2 in X.expand(e, nid) for a_ in nf_conds(N, c2)]
        except AnalysisError:
            return None

    lv = values(kl, ln)
    for pop in pops:
        kp = _table_key(pop)
        if kp is None or lv is None:
            continue
        pv = values(kp, cfg.loc1(pop))
        if pv is None:
            continue
        ok = True
        for d1, a1 in lv:
            for d2, a2 in pv:
                if d1 != d2 and any(sem_satisfiable(a1 | a2 | f_) for f_ in (found or [frozenset()])):
                    ok = False
        ctx.ob("the entry that is forgotten is the one the response was matched to", ok, fi, pop, construct="%s  [key]" % stmt_text(pop))


def _iter_source(fnode, e):
    """the attribute chain a `for` iterates over, looking through a local and through a copy of the collection
    (`list(x)`, `tuple(x)`, `x[:]`, `x.copy()`): the same elements in the same order"""
    e = resolve_local(fnode, e)
    if isinstance(e, ast.Call) and isinstance(e.func, ast.Name) and e.func.id in ("list", "tuple") and len(e.args) == 1 and not e.keywords:
        return _iter_source(fnode, e.args[0])
    if isinstance(e, ast.Call) and isinstance(e.func, ast.Attribute) and e.func.attr == "copy" and not e.args and not e.keywords:
        return _iter_source(fnode, e.func.value)
    if isinstance(e, ast.Subscript) and isinstance(e.slice, ast.Slice) and e.slice.lower is None and e.slice.upper is None and e.slice.step is None:
        return _iter_source(fnode, e.value)
    return chain(e)


def _iterated_field(fi):
    """(field, loop, calls, params) for `for c in self.<field>: c(<param>)` in a one-parameter method."""
    p = params(fi)
    out = []
    for n in walk_no_nested(fi.node):
        if isinstance(n, ast.For) and isinstance(n.target, ast.Name):
            src = _iter_source(fi.node, n.iter) or ""
            if not src.startswith("self."):
                continue
            calls = [c for c in ast.walk(n) if isinstance(c, ast.Call) and isinstance(c.func, ast.Name) and c.func.id == n.target.id]
            if calls:
                out.append((src, n, calls, p))
    return out


def _attr_assignments(fnode):
    """(statement, attribute chain, value) for every assignment to an attribute chain, element-wise through
    tuple targets and repeated for every target of a chained assignment"""
    out = []

    def rec(st, t, v):
        if isinstance(t, (ast.Tuple, ast.List)):
            if isinstance(v, (ast.Tuple, ast.List)) and len(v.elts) == len(t.elts):
                for t2, v2 in zip(t.elts, v.elts):
                    rec(st, t2, v2)
            else:
                for t2 in t.elts:
                    rec(st, t2, None)
        elif isinstance(t, ast.Attribute) and chain(t):
            out.append((st, chain(t), v))

    for n in walk_no_nested(fnode):
        if isinstance(n, ast.Assign):
            for t in n.targets:
                rec(n, t, n.value)
        elif isinstance(n, ast.AnnAssign) and n.value is not None:
            rec(n, n.target, n.value)
    return out


@R.clause("C07.e", "ClientObservation.error() raises on a cancelled observation, passes the exception to every errback and ends in cancel(); cancel() nulls both callback lists and sets cancelled")
def e(ctx):
    prog = ctx.prog
    f_cb, f_err, f_can = (prog.func("protocol.ClientObservation." + n) for n in ("callback", "error", "cancel"))
    lists = {}
    for fi, what in ((f_cb, "callback"), (f_err, "error")):
        its = _iterated_field(fi)
        ctx.need(len(its) == 1, "ClientObservation.%s does not iterate over exactly one list of callables" % what)
        field, loop, calls, p = its[0]
        ctx.need(len(p) == 1, "ClientObservation.%s signature changed" % what)
        lists[what] = (field, loop)
        ctx.ob("every registered %s receives the %s passed in" % ("callback" if what == "callback" else "errback", "response" if what == "callback" else "exception"),
               all(len(c.args) == 1 and isinstance(c.args[0], ast.Name) and c.args[0].id == p[0] and not writes_to_name(fi.node, p[0]) for c in calls), fi, loop,
               construct="for ... in %s" % field)
    # cancel()
    ccfg = cfg_of(f_can)
    nulled = set()
    flags = set()
    for n, c, v in _attr_assignments(f_can.node):
        v = resolve_local(f_can.node, v) if v is not None else None
        if isinstance(v, ast.Constant) and c.startswith("self.") and ccfg.must_pass(ccfg.entry, {ccfg.loc1(n)}):
            if v.value is None:
                nulled.add(c)
            elif v.value is True:
                flags.add(c)
    # a later assignment of something else would undo it
    for n, c, v in _attr_assignments(f_can.node):
        v = resolve_local(f_can.node, v) if v is not None else None
        if c in nulled and not (isinstance(v, ast.Constant) and v.value is None):
            nulled.discard(c)
        if c in flags and not (isinstance(v, ast.Constant) and v.value is True):
            flags.discard(c)
    for what in ("callback", "error"):
        field = lists[what][0]
        ctx.ob("cancel() replaces the list of %ss by None on every path" % ("callback" if what == "callback" else "errback"), field in nulled, f_can, f_can.node,
               construct="ClientObservation.cancel [%s]" % field)
    ctx.ob("cancel() sets the cancelled flag that Request._run tests", "self.cancelled" in flags, f_can, f_can.node, construct="ClientObservation.cancel [cancelled]")
    # error()
    fi = f_err
    cfg = cfg_of(fi)
    X, N = Expander(fi), _normalizer(prog, fi)
    dead_lits = {("is", f, "None") for f in nulled} | {("truth", f) for f in flags}
    alive_lits = {_neg(l) for l in dead_lits}
    deadp = pseudo_asserting(X, N, cfg, lambda a: bool(a & dead_lits))
    ctx.floor("branches of error() on 'already cancelled'", len(deadp), 1)
    for p in sorted(deadp):
        region = cfg.reach({p}, skip_labels=("exc",))
        raises = [n for n in region if cfg.nodes[n].kind == "raise"]
        ctx.ob("error() on an already cancelled observation raises", cfg.exit not in region and bool(raises), fi, cfg.nodes[p].ast)
    field, loop = lists["error"]
    alts = reach_dnf(X, N, fi, loop)
    ctx.ob("errbacks are only invoked on an observation that is not yet cancelled", bool(alts) and all(a & alive_lits for a in alts), fi, loop, construct="for ... in %s  [alive]" % field)
    cancels = {cfg.loc1(n) for n, _ in find("self.cancel()", fi.node)}
    ctx.ob("every normal path through error() ends the observation via cancel()", bool(cancels) and cfg.must_pass(cfg.entry, cancels), fi, fi.node, construct="ClientObservation.error [cancel]")
    ln = cfg.loc1(loop)
    ctx.ob("the errbacks are invoked before cancel() drops them", bool(cancels) and not any(ln in cfg.reach({c_}, skip_labels=("exc",)) for c_ in cancels), fi, loop,
           construct="for ... in %s  [order]" % field)


def _bind_call(prog, fi, call, method):
    """arguments of a call `<cls or self>.<method>(...)` in the order of the method's parameters (positional and
    keyword spellings alike), or None"""
    if not (isinstance(call, ast.Call) and isinstance(call.func, ast.Attribute) and call.func.attr == method):
        return None
    owner = fi
    while owner is not None and owner.cls is None:
        owner = owner.parent
    g = prog.lookup_method(owner.cls.qn, method) if owner is not None else None
    if g is None or any(isinstance(a_, ast.Starred) for a_ in call.args) or any(k.arg is None for k in call.keywords):
        return None
    ps = params(g)
    out = dict(zip(ps, call.args))
    for k in call.keywords:
        if k.arg in out or k.arg not in ps:
            return None
        out[k.arg] = k.value
    if len(call.args) > len(ps):
        return None
    res = []
    for p_ in ps:
        if p_ not in out:
            break
        res.append(out[p_])
    return res


@R.clause("C07.f", "_run_observation: every completed notification goes to callback inside the async for; a normal end is followed by exactly one error(ObservationCancelled); an Exception goes to error(e); the finally block cancels the lower observation unless it already is")
def f(ctx):
    prog = ctx.prog
    fi = prog.func("protocol.BlockwiseRequest._run_observation")
    p = params(fi)
    ctx.need(len(p) == 5, "_run_observation signature changed")
    orig, lower = p[0], p[1]
    cfg = cfg_of(fi)
    loops = [n for n in walk_no_nested(fi.node) if isinstance(n, ast.AsyncFor) and chain(n.iter) == lower]
    ctx.floor("async for over the lower observation", len(loops), 1)
    ctx.need(len(loops) == 1 and isinstance(loops[0].target, ast.Name), "_run_observation: unexpected iteration over the lower observation")
    loop = loops[0]
    item = loop.target.id
    tries = [t for t in walk_no_nested(fi.node) if isinstance(t, ast.Try) and any(contains(s, loop) for s in t.body)]
    ctx.need(len(tries) >= 1, "_run_observation: the async for is not inside a try statement")
    tr = tries[-1]
    cbs = [n for n, _ in find("$o.callback($m)", fi.node)]
    errs = [n for n, _ in find("$o.error($e)", fi.node)]
    ctx.ob("completed notifications are handed to the application's observation inside the async for", any(contains(s, cb) for cb in cbs for s in loop.body), fi, loop,
           construct="async for ... in %s  [forward]" % lower)
    cb_n = {cfg.loc1(n) for n in cbs}
    err_n = {cfg.loc1(n): n for n in errs}
    for cb in cbs:
        inside = any(contains(s, cb) for s in loop.body)
        v = resolve_local(fi.node, cb.args[0]) if len(cb.args) == 1 else None
        call = v.value if isinstance(v, ast.Await) else None
        bound = _bind_call(prog, fi, call, "_complete_by_requesting_block2") if call is not None else None
        ok = inside and bound is not None and len(bound) >= 3 and chain(resolve_local(fi.node, bound[1])) == orig and chain(resolve_local(fi.node, bound[2])) == item
        ctx.ob("inside the async for each notification is completed by _complete_by_requesting_block2(original request, notification) and handed to callback", ok, fi, cb)
    forF = [n.id for n in cfg.nodes if n.kind == "F" and n.ast is loop]
    ctx.need(len(forF) == 1, "_run_observation: loop exit not found")
    oc = {nid for nid, e in err_n.items() if _arg_class(prog, fi, e) == "aiocoap.error.ObservationCancelled"}
    ctx.ob("a normal end of the iteration is followed by error(ObservationCancelled())", bool(oc) and cfg.must_pass(forF[0], oc), fi, loop, construct="async for ... in %s  [end]" % lower)
    after = cfg.reach({forF[0]}, skip_labels=("exc",))
    ctx.ob("after the end of the iteration nothing more is delivered", not (after & cb_n), fi, loop, construct="async for ... in %s  [no delivery]" % lower)
    for nid in sorted(oc):
        ctx.ob("the end is signalled exactly once (no second error() on a non-exceptional path)", not (cfg.reach({nid}, skip_labels=("exc",)) & set(err_n)), fi, err_n[nid])
    # handlers
    covered = False
    for h in tr.handlers:
        types = _handler_types(prog, fi, h)
        if not _catches_exceptions(prog, types):
            continue
        hn = [i for i in cfg.locate(h) if cfg.nodes[i].kind == "handler"]
        ctx.need(hn, "_run_observation: handler has no CFG node")
        sites = {nid for nid, e in err_n.items() if h.name and len(e.args) == 1 and isinstance(e.args[0], ast.Name) and e.args[0].id == h.name and contains(h, e)}
        ctx.ob("an exception caught while forwarding notifications is handed to error(e)", bool(sites) and cfg.must_pass(hn[0], sites), fi, h, construct="except %s" % ", ".join(types))
        if any(t in ("Exception", "BaseException") for t in types):
            covered = True
            break
    ctx.ob("every Exception escaping the forwarding loop is caught", covered, fi, tr, construct="try around async for ... in %s" % lower)
    # finally
    ctx.ob("the forwarding loop has a finally block", bool(tr.finalbody), fi, tr, construct="try around async for ... in %s  [finally]" % lower)
    cancels = [n for n, _ in find("%s.cancel()" % lower, fi.node) if any(contains(s, n) for s in tr.finalbody)]
    cancel_n = set()
    for n in cancels:
        cancel_n |= {i for i in cfg.locate(n) if cfg.nodes[i].kind == "stmt"}
    already = {q.id for q in pseudo_nodes(cfg) if chain(q.ast) == "%s.cancelled" % lower and q.kind == "T"}
    joins = [n.id for n in cfg.nodes if n.kind == "join" and n.label.startswith("finally")]
    ctx.floor("copies of the finally block", len(joins), 2)
    ok = bool(cancel_n)
    for j in joins:
        ok = ok and cfg.must_pass(j, cancel_n | already) and cfg.must_pass(j, cancel_n | already, to=cfg.rexit, skip_labels=())
    ctx.ob("on every way out the lower observation is cancelled unless it already is", ok, fi, tr, construct="finally of _run_observation  [cancel]")
    for cn in sorted(cancel_n):
        g = [(chain(t), pol) for t, pol, _ in cfg.guards(cn)]
        ctx.ob("the lower observation is not cancelled a second time", ("%s.cancelled" % lower, False) in g, fi, cfg.nodes[cn].ast, construct="%s  [once]" % stmt_text(cfg.nodes[cn].ast))
        break
    ctx.floor("callback sites in _run_observation", len(cbs), 1)
    ctx.floor("error sites in _run_observation", len(errs), 2)


# ---------------------------------------------------------------------------

FUT = "self._future"


def _fut_stores(fi):
    """statements that rebind the mailbox future"""
    return [n for k, n in stores_to(fi.node, FUT, nested=False) if k == "assign"]


def _is_mailbox(fi, cfg, e, nid):
    """Does expression e, evaluated at CFG node nid, denote the *current* mailbox future (True / False / None: cannot
    tell)?  `self._future` itself, or
    a local every binding of which took `self._future` (or was bound together with it: `f = self._future = ...`)
    with no rebinding of `self._future` on any way from that binding to nid."""
    if chain(e) == FUT:
        return True
    if isinstance(e, ast.Call):
        return False  # whatever a call returns here, it is not held in the mailbox
    if not isinstance(e, ast.Name):
        return None
    ws = write_values(fi.node, e.id)
    if not ws:
        return None
    stores = {cfg.loc1(s) for s in _fut_stores(fi)}
    binds = {cfg.loc1(st) for st, _v in ws}
    for st, v in ws:
        sn = cfg.loc1(st)
        together = isinstance(st, ast.Assign) and any(chain(t) == FUT for t in st.targets)
        if not (together or (v is not None and chain(v) == FUT)):
            # a freshly created object that is not stored in the mailbox is certainly not the mailbox future
            return False if isinstance(v, ast.Call) else None
        # along the ways on which this binding is the one that reaches nid (no other binding in between) the mailbox
        # future must not be rebound
        others = binds - {sn}
        for s_ in stores - binds:
            if cfg.exists_path(sn, s_, avoid=others) and (s_ == nid or cfg.exists_path(s_, nid, avoid=others)):
                return False
    return True


def _snapshot_of_mailbox(fi, cfg, name, before):
    """local `name` holds the mailbox future as it was before CFG node `before` (bound once, from self._future, on
    the way to `before`)"""
    ws = write_values(fi.node, name)
    return len(ws) == 1 and ws[0][1] is not None and chain(ws[0][1]) == FUT and cfg.dominates(cfg.loc1(ws[0][0]), before) and cfg.loc1(ws[0][0]) != before


def _handler_classes(prog, fi, h):
    """qualified classes a handler catches; a class-level or module-level tuple of classes is looked through"""
    if h.type is None:
        return ["BaseException"]
    out = []
    todo = [h.type]
    depth = 0
    while todo and depth < 40:
        depth += 1
        t = todo.pop(0)
        if isinstance(t, ast.Tuple):
            todo = list(t.elts) + todo
            continue
        c = chain(t)
        if c is None:
            out.append("?")
            continue
        parts = c.split(".")
        if len(parts) == 2 and parts[0] in ("self", "cls"):
            owner = fi
            while owner is not None and owner.cls is None:
                owner = owner.parent
            v = prog.class_attr(owner.cls.qn, parts[1])[0] if owner is not None else None
            if v is not None:
                todo.insert(0, v)
                continue
        if len(parts) == 1:
            try:
                v = prog.module_const(fi.module.name[len("aiocoap."):] if fi.module.name.startswith("aiocoap.") else fi.module.name, parts[0])
            except AnalysisError:
                v = None
            if isinstance(v, ast.Tuple):
                todo.insert(0, v)
                continue
        out.append(prog.resolve_in_module(fi.module, c))
    return out


@R.clause("C07.g", "lossy `async for` mailbox: producers replace a consumed future before completing it; the consumer re-arms only if the future it awaited is still current; end-of-observation errors end the iteration")
def g_lossy_iterator(ctx):
    """Single-slot mailbox discipline of ClientObservation._Iterator (added after an independently written
    breaking change dropped the `f is self._future` test): if the consumer re-armed unconditionally after its
    await, an item or error that a producer had already queued in a replacement future would be discarded, so
    the freshest notification / the terminating error would never be delivered."""
    IT = "protocol.ClientObservation._Iterator."
    prog = ctx.prog
    for name, setter in (("push", "set_result"), ("push_err", "set_exception")):
        fi = prog.func(IT + name)
        ps = params(fi)
        ctx.need(len(ps) == 1, "_Iterator.%s signature changed" % name)
        arg = ps[0]
        cfg = cfg_of(fi)
        cand = [c for c in calls_in(fi.node) if isinstance(c.func, ast.Attribute) and c.func.attr == setter]
        verdicts = [(c, _is_mailbox(fi, cfg, c.func.value, cfg.loc1(c))) for c in cand]
        ctx.need(not any(v is None for _c, v in verdicts), "_Iterator.%s completes a future of which the rule cannot tell whether it is the mailbox future" % name)
        sets = [c for c, v in verdicts if v]
        for c, v in verdicts:
            if not v:
                ctx.ob("%s completes the mailbox future (the one __anext__ awaits), not another or an outdated one" % name, False, fi, c)
        set_n = {cfg.loc1(c) for c in sets}
        # on every path exactly one completion, with the argument
        ok = bool(sets) and all(len(c.args) == 1 and not c.keywords and isinstance(resolve_local(fi.node, c.args[0]), ast.Name) and resolve_local(fi.node, c.args[0]).id == arg for c in sets) \
            and not writes_to_name(fi.node, arg) and cfg.must_pass(cfg.entry, set_n) and not any(cfg.reach({n}, skip_labels=("exc",)) & set_n for n in set_n)
        ctx.ob("%s completes the mailbox future with its argument" % name, ok, fi, sets[0] if sets else fi.node, construct="_Iterator.%s completion" % name)
        fresh = {cfg.loc1(n) for n in _fut_stores(fi) if isinstance(n.value, ast.Call) and isinstance(n.value.func, ast.Attribute) and n.value.func.attr == "create_future"}
        done_t = [n.id for n in cfg.nodes if n.kind == "T" and isinstance(n.ast, ast.Call) and isinstance(n.ast.func, ast.Attribute) and n.ast.func.attr == "done" and not n.ast.args
                  and _is_mailbox(fi, cfg, n.ast.func.value, cfg.loc1(n.ast))]
        for c in sets:
            nid = cfg.loc1(c)
            # a completed mailbox future (outcome `done()` is true) never reaches the completion without being replaced by a new one
            ok = bool(done_t) and bool(fresh) and all(not cfg.exists_path(t, nid, avoid=set(fresh)) for t in done_t)
            # ... and nothing reaches the completion without that test
            ok = ok and not cfg.exists_path(cfg.entry, nid, avoid={x for t in done_t for x, _l in cfg.pred[t]})
            ctx.ob("%s never completes an already completed future: a consumed/unfetched one is replaced first" % name, ok, fi, c)
    fi = prog.func(IT + "__anext__")
    cfg = cfg_of(fi)
    awaits = [n for n in walk_no_nested(fi.node) if isinstance(n, ast.Await)]
    aw = [a_ for a_ in awaits if chain(a_.value) == FUT or (isinstance(a_.value, ast.Name) and _snapshot_of_mailbox(fi, cfg, a_.value.id, cfg.loc1(a_)))]
    ctx.ob("__anext__ waits for the mailbox future", len(aw) == 1, fi, aw[0] if aw else fi.node, construct="_Iterator.__anext__ await")
    N = _normalizer(prog, fi)
    if aw:
        an = cfg.loc1(aw[0])
        rearm = [n for n in _fut_stores(fi) if cfg.exists_path(an, cfg.loc1(n))]
        for n in rearm:
            nid = cfg.loc1(n)
            ok = False
            for e, pol in guard_exprs(cfg, nid):
                # `snapshot is self._future` holds (any spelling: mirrored, `is not` + else / early return, ==)
                try:
                    k = N.cmp(e)
                except NormError:
                    continue
                if not pol:
                    k = N.negate(k)
                if k[0] in ("is", "eq") and len(k) == 3 and FUT in k[1:]:
                    other = [x for x in k[1:] if x != FUT]
                    if len(other) == 1 and other[0].isidentifier() and _snapshot_of_mailbox(fi, cfg, other[0], an):
                        ok = True
            ctx.ob("after its await the consumer replaces the mailbox future only if it is still the one it awaited (a newer one already holds the next item or error)", ok, fi, n)
        rets = [r for r in walk_no_nested(fi.node) if isinstance(r, ast.Return)]

        def delivered(v):
            if v is aw[0]:
                return True
            if isinstance(v, ast.Name):
                ws = write_values(fi.node, v.id)
                return bool(ws) and all(val is aw[0] or (val is not None and val is not v and isinstance(val, ast.Name) and delivered(val)) for _st, val in ws)
            return False

        okr = bool(rets) and all(delivered(r.value) for r in rets)
        ctx.ob("__anext__ returns what the awaited future delivered", okr, fi, rets[0] if rets else fi.node, construct="_Iterator.__anext__ result")
    # handlers around the await whose every way out is `raise StopAsyncIteration`
    ENDS = {"aiocoap.error.NotObservable", "aiocoap.error.ObservationCancelled"}
    stop_classes = set()
    pin = None
    for tr in [t for t in walk_no_nested(fi.node) if isinstance(t, ast.Try) and aw and any(contains(s_, aw[0]) for s_ in t.body)]:
        for h in tr.handlers:
            hn = [i for i in cfg.locate(h) if cfg.nodes[i].kind == "handler"]
            if not hn:
                continue
            region = cfg.reach({hn[0]}, skip_labels=("exc",))
            raised = [cfg.nodes[x].ast for x in region if cfg.nodes[x].kind == "raise"]
            stops = raised and cfg.exit not in region and all(
                r.exc is not None and (chain(r.exc.func if isinstance(r.exc, ast.Call) else r.exc) or "") == "StopAsyncIteration" for r in raised)
            if stops:
                stop_classes |= set(_handler_classes(prog, fi, h))
                pin = pin or h
    if pin is not None:
        ctx.ob("only the end-of-observation signals end the iteration; other errors (NetworkError ...) are raised to the consumer", stop_classes <= ENDS, fi, pin,
               construct="_Iterator.__anext__ handler (%s)" % ", ".join(sorted(x.split(".")[-1] for x in stop_classes)))
    ctx.ob("NotObservable / ObservationCancelled end the `async for` (StopAsyncIteration)", ENDS <= stop_classes, fi, fi.node, construct="_Iterator.__anext__ end of iteration")
    ai = prog.func("protocol.ClientObservation.__aiter__")
    its = {}
    for attr, meth in (("register_callback", "push"), ("register_errback", "push_err")):
        regs = [c for c in calls_in(ai.node) if isinstance(c.func, ast.Attribute) and c.func.attr == attr and chain(c.func.value) == "self" and c.args]
        good = []
        for c in regs:
            v = resolve_local(ai.node, c.args[0])
            if isinstance(v, ast.Attribute) and v.attr == meth and isinstance(v.value, ast.Name):
                good.append(v.value.id)
        its[attr] = good
    rets = [r for r in walk_no_nested(ai.node) if isinstance(r, ast.Return)]
    same = len(its["register_callback"]) == 1 and its["register_callback"] == its["register_errback"] and bool(rets) \
        and all(isinstance(r.value, ast.Name) and r.value.id == its["register_callback"][0] for r in rets)
    ctx.ob("the iterator is fed by the observation's callbacks (push) and errbacks (push_err)", same, ai, ai.node, construct="ClientObservation.__aiter__ wiring")


@R.clause("C07.h", "a transport failure ends the observation with a network error: the error is fanned out to every outstanding request of that remote, each through its own stopper (shared with C02.e / C02.j)")
def h_shared(ctx):
    from . import c02
    c02.e(ctx)
    c02.j_forward(ctx)


# ---------------------------------------------------------------------------
# C07.j  a token is never handed out a second time

TOKEN_SOURCE = "tokenmanager.TokenManager.next_token"


@R.clause("C07.j", "notifications that arrive after the end of an observation are rejected like unknown responses only if their token is not given to a later request: everything next_token hands out is minted from its own counter state; no value that is or was a token (a drawn token, <message>.token, a key of the request tables) is returned by it or stored in a field it draws from")
def j_token_provenance(ctx):
    """An invariant over ALL writers of the state the token source reads, not over the source's text: whatever
    fields the returned values are computed from (today: the counter), every store into them anywhere in the
    package -- assignment, subscript store, filling method, method value bound by functools.partial, through an
    alias, in a closure or lambda -- must store a value that carries no token.  Counter arithmetic, random seeds,
    itertools.count objects and the like carry none and are accepted whatever their spelling (how the counter
    advances is C02.d's business); a free list / cache / table of used tokens does, however it is filled."""
    from ._kit_c07 import TokenProvenance
    prog = ctx.prog
    fi = prog.func(TOKEN_SOURCE)
    tp = TokenProvenance(prog, fi)
    ctx.floor("places where a drawn token is stored (msg.token = self.next_token())", len(tp.mint_sites), 1)
    ctx.need(bool(tp.token_attrs), "no attribute receives the tokens drawn from next_token; the rule cannot tell which values are tokens")
    ctx.note("token attributes: %s; fields holding tokens: %s" % (sorted(tp.token_attrs), sorted(tp.tainted_fields)))
    rets = returned_elements(fi)
    ctx.need(rets is not None and all(isinstance(r, ast.Return) for r, _v in rets), "next_token: some way through it returns nothing")
    drawn_from = set()
    for r, v in rets:
        w = tp.tainted(fi, v)
        ctx.ob("the token handed out is newly minted, not one that is or was in use", w is None, fi, r, detail=w)
        drawn_from |= tp.fields_read(fi, v)
    ctx.need(bool(drawn_from), "next_token: the token is computed from no state of the token manager; the rule does not know this kind of source")
    ctx.note("next_token draws from: %s" % sorted(drawn_from))
    n = 0
    for F in sorted(drawn_from):
        for fn, hits in sorted(field_writers(prog, F).items()):
            wfi = prog.funcs["aiocoap." + fn]
            for kind, node in hits:
                n += 1
                w = tp.any_tainted(wfi, tp.stored_values(wfi, kind, node))
                ctx.ob("nothing that is or was a token is put where next_token draws its tokens from", w is None, wfi, node,
                       detail=w, construct="%s  [feeds %s]" % (stmt_text(node), F))
    # the same store spelled setattr(obj, "<field>", value): not a store in the engine's vocabulary
    for wfi in prog.funcs.values():
        for c in walk_with_lambdas(wfi.node):
            if isinstance(c, ast.Call) and isinstance(c.func, ast.Name) and c.func.id == "setattr" and len(c.args) == 3 and not c.keywords:
                nm = c.args[1]
                if isinstance(nm, ast.Constant) and isinstance(nm.value, str):
                    if nm.value in drawn_from:
                        n += 1
                        w = tp.any_tainted(wfi, [c.args[2]])
                        ctx.ob("nothing that is or was a token is put where next_token draws its tokens from", w is None, wfi, c,
                               detail=w, construct="%s  [feeds %s]" % (stmt_text(c), nm.value))
                else:
                    ctx.need(wfi.module is not fi.module, "%s sets an attribute whose name is computed (%s); it may be state next_token draws from" % (wfi.short, stmt_text(c)))
    ctx.floor("writers of the state next_token draws from", n, 1)


@R.clause("C07.k", "a token stays the observation's alone for as long as it runs: tokens come from a 64-bit counter that only next_token advances, by one, rendered injectively within 8 bytes, so no request issued while the observation lives can be filed under its (token, remote) and take its notifications (shared with C02.d)")
def k_shared(ctx):
    """C07.j decides that nothing which is or was a token flows back into the source; that alone does not keep
    the source from repeating itself.  `outgoing_requests[key] = request` overwrites, and nothing in request()
    looks whether the key is taken, so the only thing between a years-long observation and a later request
    filed under its key is the period of the token source: the necessary condition is C02.d's (2**64 distinct
    tokens before a repeat, decided by running next_token in the checker's evaluator, whatever its spelling),
    and it is reused here rather than restated."""
    from . import c02
    c02.d(ctx)


# ---------------------------------------------------------------------------
# C07.i  the end of a CoAP-over-TCP/TLS connection reaches the token manager's error fan-out

TCP_MOD = "transports.tcp"
CLOSE_EXC = "transports.rfc8323common.CloseConnection"
SINK = "tokenmanager.TokenManager.dispatch_error"


def _owner_class(fi):
    while fi is not None and fi.cls is None:
        fi = fi.parent
    return fi.cls if fi is not None else None


def _bind_args(call, ps):
    """{parameter: argument expression} of a call to a function with (non-self) parameters ps, or None"""
    if any(isinstance(a_, ast.Starred) for a_ in call.args) or any(k.arg is None for k in call.keywords) or len(call.args) > len(ps):
        return None
    out = dict(zip(ps, call.args))
    for k in call.keywords:
        if k.arg in out or k.arg not in ps:
            return None
        out[k.arg] = k.value
    return out


def _tcp_relays(ctx, mfuncs):
    """The methods of the transport module through which a connection's end is reported to the token manager:
    those that call <a field of self>.dispatch_error(exception, remote).  -> [(function, connection parameter,
    other parameter, token manager field, forwarding calls)]"""
    prog = ctx.prog
    sink = prog.func(SINK)
    sp = params(sink)
    ctx.need(len(sp) == 2, "TokenManager.dispatch_error(self, exception, remote) signature changed")
    out, seen = [], 0
    for fi in mfuncs:
        if fi.cls is None:
            continue
        cand = []
        for c in calls_in(fi.node):
            if isinstance(c.func, ast.Attribute) and c.func.attr == sink.name:
                rc = chain(resolve_local(fi.node, c.func.value)) or ""
                if rc.startswith("self.") and rc.count(".") == 1:
                    cand.append((c, rc))
        if not cand:
            continue
        seen += 1
        ps = params(fi)
        ctx.need(len(ps) == 2 and not any(writes_to_name(fi.node, p_) for p_ in ps),
                 "%s reports to the token manager but is not a plain (connection, error) relay: parameters %s" % (fi.short, ps))
        fields = {rc for _c, rc in cand}
        ctx.need(len(fields) == 1, "%s reports to several objects (%s)" % (fi.short, ", ".join(sorted(fields))))
        good, conn = [], set()
        for c, _rc in cand:
            b = _bind_args(c, sp)
            r_ = resolve_local(fi.node, b[sp[1]]) if b is not None and sp[1] in b else None
            if isinstance(r_, ast.Name) and r_.id in ps and b is not None and sp[0] in b:
                good.append(c)
                conn.add(r_.id)
        ctx.ob("the connection whose end is reported is named as the remote of the error", bool(good) and len(conn) == 1, fi, cand[0][0], construct="%s  [remote]" % stmt_text(cand[0][0]))
        if good and len(conn) == 1:
            cp = conn.pop()
            out.append((fi, cp, [p_ for p_ in ps if p_ != cp][0], fields.pop(), good))
    ctx.floor("methods of transports.tcp that report a connection's end to the token manager", seen, 1)
    return out


@R.clause("C07.i", "coap+tcp / coaps+tcp: however a connection ends (Release / Abort from the peer, orderly close, reset), the token manager's dispatch_error is told for that connection, so that the observations on it end with a network error")
def i_tcp_end(ctx):
    """The invariant is a joint one of three places and is stated as such.  (1) The relay (_TCPPooling._dispatch_error
    today) hands (error, connection) to TokenManager.dispatch_error for the set FWD of None-nesses of its error
    argument (decided over the path model, under 'a token manager is attached').  (2) connection_lost -- which asyncio
    calls exactly once for every connection, with None after an orderly end (EOF from the peer, or our own close())
    and with the exception otherwise -- calls the relay on every path with values inside FWD.  (3) Where the
    peer's Release / Abort surfaces (the handler of CloseConnection), every way out of the handler either calls
    the relay itself with a value inside FWD, or closes the transport *and* (2) holds, because then the report
    is left to connection_lost.  Either site may change as long as the chain stays closed: dropping the explicit
    report is fine while clean closes are reported; ignoring clean closes in the relay is fine only if nobody
    relies on them, and connection_lost always does for an EOF without Release.  What the token manager does
    with the report is C07.h; what the runner does with the resulting event is C07.c."""
    from ._kit_c07 import nullness, not_handed_on, NONE, OBJ, BOTH
    prog = ctx.prog
    mod = prog.module(TCP_MOD)
    ccq = prog.cls(CLOSE_EXC).qn
    mfuncs = sorted((fi for fi in prog.funcs.values() if fi.module is mod), key=lambda f_: f_.qn)
    relays = _tcp_relays(ctx, mfuncs)
    if not relays:
        return  # reported above: the relay does not name the connection
    relay_names = {r_[0].name for r_ in relays}
    lost = {}  # relay function -> {None-ness: witness path}
    for pfi, cp, ep, field, good in relays:
        al = {}
        for n in walk_no_nested(pfi.node):
            if isinstance(n, ast.Assign) and len(n.targets) == 1 and isinstance(n.targets[0], ast.Name) and chain(n.value) == field \
                    and len(writes_to_name(pfi.node, n.targets[0].id)) == 1:
                al[n.targets[0].id] = field
        lost[pfi.qn] = not_handed_on(pfi, good, ep, (field,), al)
        ctx.ob("with a token manager attached, an error reported for a connection is handed to its dispatch_error on every path", OBJ not in lost[pfi.qn], pfi, good[0],
               detail="not handed on when %s" % lost[pfi.qn].get(OBJ) if OBJ in lost[pfi.qn] else None, construct="%s  [every error]" % stmt_text(good[0]))

    def dropped(vals):
        """None-nesses among vals that some relay does not hand on"""
        return sorted({v for v in vals for l_ in lost.values() if v in l_})

    def relay_sites(g):
        """[(call, None-ness evaluator of the error argument)] for the calls <pool>.<relay>(self, x) in g"""
        out = []
        for c in calls_in(g.node):
            if not (isinstance(c.func, ast.Attribute) and c.func.attr in relay_names):
                continue
            for pfi, cp, ep, _f, _g in relays:
                if pfi.name != c.func.attr:
                    continue
                b = _bind_args(c, params(pfi))
                if b is not None and cp in b and ep in b and chain(resolve_local(g.node, b[cp])) == "self":
                    out.append((c, b[ep]))
                    break
        return out

    # (2) connection_lost
    cl_ok = True
    lost_fns = [fi for fi in mfuncs if fi.cls is not None and fi.name == "connection_lost"]
    ctx.floor("connection_lost callbacks in transports.tcp", len(lost_fns), 1)
    for fi in lost_fns:
        ps = params(fi)
        ctx.need(len(ps) == 1 and not writes_to_name(fi.node, ps[0]), "%s: connection_lost(self, exc) signature changed" % fi.short)
        cfg = cfg_of(fi)
        sites = relay_sites(fi)
        nodes = {n for c, _a in sites for n in cfg.locate(c)}
        every = bool(sites) and cfg.must_pass(cfg.entry, nodes)
        ctx.ob("connection_lost reports the end of the connection to the pool on every path", every, fi, sites[0][0] if sites else fi.node, construct="%s  [reports]" % fi.short)
        cl_ok = cl_ok and every
        for v, what in ((NONE, "an orderly end (connection_lost(None): EOF from the peer, or after our own close())"), (OBJ, "a failed connection (connection_lost(exception))")):
            bad = set()
            for c, arg in sites:
                bad |= set(dropped(nullness(prog, fi, arg, {ps[0]: frozenset({v})})))
            wit = next((l_[b_] for b_ in sorted(bad) for l_ in lost.values() if b_ in l_), None)
            ctx.ob("%s reaches the token manager" % what, not bad, fi, sites[0][0] if sites else fi.node,
                   detail="the relay does not hand on an error argument that is %s: %s" % (" / ".join(sorted(bad)), wit) if bad else None,
                   construct="%s  [%s]" % (fi.short, "orderly end" if v == NONE else "failure"))
            cl_ok = cl_ok and not bad
    # the transport really is given up on EOF: eof_received must not ask asyncio to keep it half-open
    for fi in mfuncs:
        if fi.cls is not None and fi.name == "eof_received":
            rets = returned_elements(fi) or []
            ok = bool(rets) and all(isinstance(v, ast.Constant) and not v.value for _r, v in rets)
            ctx.ob("eof_received lets asyncio close the transport (a true result would keep it half-open and connection_lost would never come)", ok, fi, fi.node, construct="%s  [result]" % fi.short)

    # (3) the peer's Release / Abort: where CloseConnection is caught
    args0 = set()  # None-ness of CloseConnection(...).args[0] over all raise sites
    raisers = set()
    for fi in prog.funcs.values():
        for n in walk_no_nested(fi.node):
            if isinstance(n, ast.Raise) and n.exc is not None:
                f_ = n.exc.func if isinstance(n.exc, ast.Call) else n.exc
                if chain(f_) and prog.resolve_in_module(fi.module, chain(f_)) == ccq:
                    raisers.add(fi.name)
                    if isinstance(n.exc, ast.Call) and n.exc.args and not isinstance(n.exc.args[0], ast.Starred):
                        args0 |= nullness(prog, fi, n.exc.args[0])
                    else:
                        args0 |= BOTH
    ctx.floor("functions raising CloseConnection", len(raisers), 1)
    if "__init__" in prog.classes[ccq].methods or "__new__" in prog.classes[ccq].methods:
        args0 = set(BOTH)
    handlers, escaping = [], {}
    may = set(raisers)
    changed = True
    while changed:
        changed = False
        handlers = []
        for g in mfuncs:
            cfg = None
            for c in calls_in(g.node):
                nm = c.func.attr if isinstance(c.func, ast.Attribute) else (c.func.id if isinstance(c.func, ast.Name) else None)
                if nm not in may:
                    continue
                cfg = cfg or cfg_of(g)
                caught = None
                for nid in cfg.locate(c):
                    for h, lab in cfg.succ[nid]:
                        if lab == "exc" and cfg.nodes[h].kind == "handler" and caught is None:
                            types = _handler_classes(prog, g, cfg.nodes[h].ast)
                            if any(t == ccq or t in prog.mro(ccq) for t in types):
                                caught = h
                if caught is not None:
                    if not any(x[0] is g and x[1] == caught for x in handlers):
                        handlers.append((g, caught, c))
                elif g.name not in may:
                    escaping[g.qn] = (g, c)
                    may.add(g.name)
                    changed = True
    ctx.floor("places in transports.tcp where the peer's Release / Abort (CloseConnection) surfaces", len(handlers) + len(escaping), 1)
    close_route = "connection_lost does not report %s" % ("every end" if not cl_ok else "")
    for g, h, call in handlers:
        cfg = cfg_of(g)
        hast = cfg.nodes[h].ast
        env = {"%s.args[0]" % hast.name: frozenset(args0)} if hast.name else {}
        ok_sites, why = set(), []
        for c, arg in relay_sites(g):
            bad = dropped(nullness(prog, g, arg, env))
            if bad:
                why.append("%s passes an error that is %s, which the relay does not hand on" % (stmt_text(c), " / ".join(bad)))
            else:
                ok_sites |= set(cfg.locate(c))
        oc = _owner_class(g)
        made = prog.lookup_method(oc.qn, "connection_made") if oc is not None else None
        tfields = set()
        if made is not None and len(params(made)) == 1:
            tfields = {c_ for _st, c_, v in _attr_assignments(made.node) if v is not None and isinstance(resolve_local(made.node, v), ast.Name) and resolve_local(made.node, v).id == params(made)[0]}
        for c in calls_in(g.node):
            if isinstance(c.func, ast.Attribute) and c.func.attr in ("close", "abort") and not c.args and chain(resolve_local(g.node, c.func.value)) in tfields:
                if cl_ok:
                    ok_sites |= set(cfg.locate(c))
                else:
                    why.append("%s leaves the report to connection_lost, and %s" % (stmt_text(c), close_route.strip()))
        region = cfg.reach({h}, avoid=ok_sites, skip_labels=("exc",), include_src=True)
        leaves = [n for n in region if n in (cfg.exit, cfg.rexit) or (cfg.nodes[n].ast is not None and cfg.nodes[n].kind != "join" and n != h and not contains(hast, cfg.nodes[n].ast))]
        reraises = [n for n in region if cfg.nodes[n].kind == "raise" and contains(hast, cfg.nodes[n].ast)]
        if reraises and not cl_ok:
            why.append("the handler re-raises into asyncio, which reports through connection_lost, and %s" % close_route.strip())
        ctx.ob("when the peer says Release / Abort the pending exchanges of the connection are failed: every way out of the handler reports the error to the pool itself or closes the transport "
               "(then connection_lost reports)", not leaves and not (reraises and not cl_ok), g, hast,
               detail="; ".join(why) or "a way out of the handler neither reports nor closes", construct="except %s  [reported]" % (stmt_text(hast.type) if hast.type is not None else ""))
    for _q, (g, c) in sorted(escaping.items()):
        # nobody in the module catches it: it leaves the asyncio callback, asyncio aborts the transport and calls
        # connection_lost(exception)
        ctx.ob("a CloseConnection nobody catches leaves the protocol callback; asyncio then reports through connection_lost, which must reach the token manager", cl_ok, g, c,
               construct="%s  [uncaught]" % stmt_text(c))


F_PRO = "aiocoap/protocol.py"
F_TM = "aiocoap/tokenmanager.py"
F_CON = "aiocoap/numbers/constants.py"

R.seed("C07.a", F_PRO, "(v1 < v2 and v2 - v1 < 2**23)", "(v1 < v2 and v2 - v1 < 2**24)", "window twice as large")
R.seed("C07.a", F_PRO, "or (v1 > v2 and v1 - v2 > 2**23)", "or (v1 > v2 and v1 - v2 < 2**23)", "wrap-around arm accepts old notifications")
R.seed("C07.a", F_PRO, "(v1 < v2 and v2 - v1 < 2**23)", "(v1 > v2 and v2 - v1 < 2**23)", "comparison swapped in one conjunct")
R.seed("C07.a", F_PRO, "                    or (\n                        t2\n                        > t1\n                        + self._pipe.request.transport_tuning.OBSERVATION_RESET_TIME\n                    )\n", "", "time disjunct dropped")
R.seed("C07.a", F_PRO, "                # the terminal message is always the last\n                is_recent = True", "                # the terminal message is always the last\n                is_recent = False", "final response without Observe never delivered")
R.seed("C07.a", F_CON, "    OBSERVATION_RESET_TIME = 128\n", "    OBSERVATION_RESET_TIME = 256\n")
R.seed("C07.a", F_PRO, "        v1 = first_event.message.opt.observe\n", "        v1 = 0\n", "baseline is not the first response")
R.seed("C07.a", F_PRO, "                    t1 = t2\n                    v1 = v2\n", "                    t1 = t2\n                    v1 = v2 + 1\n")
R.seed("C07.a", F_PRO, "                v2 = next_event.message.opt.observe\n                t2 = time.time()\n", "                v2 = next_event.message.opt.observe\n                t2 = t1\n", "arrival time not taken")
R.seed("C07.b", F_PRO, "                if is_recent:\n                    t1 = t2\n                    v1 = v2\n", "                t1 = t2\n                v1 = v2\n", "v1/t1 updated unconditionally")
R.seed("C07.b", F_PRO, "                if is_recent:\n                    t1 = t2\n                    v1 = v2\n", "                t1 = t2\n                if is_recent:\n                    v1 = v2\n", "t1 updated for stale notifications")
R.seed("C07.a", F_PRO, "            if is_recent:\n                self.observation.callback(next_event.message)\n", "            self.observation.callback(next_event.message)\n", "callback outside the guard")
R.seed("C07.b", F_PRO, "            if self.observation.cancelled:\n                self._stop_interest()\n                return\n", "", "delivery into a cancelled observation")
R.seed("C07.b", F_PRO, "                self.observation.callback(next_event.message)\n", "                self.observation.callback(first_event.message)\n", "stale message delivered")
R.seed("C07.c", F_PRO, "            if next_event.is_last:\n                self.observation.error(error.ObservationCancelled())\n                return\n", "            if next_event.is_last:\n                self.observation.error(error.ObservationCancelled())\n", "second error() for the last notification")
R.seed("C07.c", F_PRO, "            self.observation.error(error.NotObservable())\n            return\n", "            return\n", "NotObservable never signalled")
R.seed("C07.c", F_PRO, "                self.observation.error(next_event.exception)\n                if not next_event.is_last:", "                if not next_event.is_last:", "transport failure not signalled")
R.seed("C07.c", F_PRO, "                        next_event.exception,\n                    )\n                return\n", "                        next_event.exception,\n                    )\n                continue\n", "keeps consuming events after error()")
R.seed("C07.c", F_PRO, "            if next_event.is_last:\n                self.observation.error(error.ObservationCancelled())\n                return\n", "            if next_event.is_last:\n                return\n", "end of the observation not signalled")
R.seed("C07.d", F_TM, "request.request.opt.observe == 0 and response.opt.observe is not None", "request.request.opt.observe is not None and response.opt.observe is not None", "Observe:1 (deregister) keeps the token")
R.seed("C07.d", F_TM, "request.request.opt.observe == 0 and response.opt.observe is not None", "request.request.opt.observe == 0 or response.opt.observe is not None")
R.seed("C07.d", F_TM, "        if final:\n            self.outgoing_requests.pop(key)\n", "        self.outgoing_requests.pop(key)\n", "token forgotten after the first notification")
R.seed("C07.d", F_TM, "request.add_response(response, is_last=final)", "request.add_response(response, is_last=False)")
R.seed("C07.e", F_PRO, "        self.errbacks = None\n        self.callbacks = None\n", "        self.errbacks = None\n", "callbacks survive cancel()")
R.seed("C07.e", F_PRO, "            c(exception)\n\n        self.cancel()\n", "            c(exception)\n\n", "error() does not end the observation")
R.seed("C07.e", F_PRO, "        if self.errbacks is None:\n            raise RuntimeError(\n                \"Error raised in an already cancelled ClientObservation\"\n            ) from exception\n", "        if self.errbacks is None:\n            return\n", "second error() silently accepted")
R.seed("C07.e", F_PRO, "        for c in self.errbacks:\n            c(exception)\n\n        self.cancel()\n", "        self.cancel()\n        for c in self.errbacks:\n            c(exception)\n", "errbacks dropped before they are called")
R.seed("C07.f", F_PRO, "            weak_observation().error(error.ObservationCancelled())\n        except asyncio.CancelledError:", "            weak_observation().error(error.ObservationCancelled())\n            weak_observation().error(error.ObservationCancelled())\n        except asyncio.CancelledError:", "second error() after the loop")
R.seed("C07.f", F_PRO, "            weak_observation().error(error.ObservationCancelled())\n        except asyncio.CancelledError:", "            pass\n        except asyncio.CancelledError:", "end never signalled")
R.seed("C07.f", F_PRO, "        except Exception as e:\n            weak_observation().error(e)\n        finally:", "        except Exception as e:\n            log.error(\"%r\", e)\n        finally:", "exception swallowed")
R.seed("C07.f", F_PRO, "            if not lower_observation.cancelled:\n                lower_observation.cancel()\n", "            pass\n", "lower observation leaks")
R.seed("C07.f", F_PRO, "                weak_observation().callback(full_notification)\n", "                pass\n", "notifications not forwarded")
R.seed("C07.f", F_PRO, "                    protocol, original_request, block1_notification, log\n                )\n                log.debug(\"Reporting completed notification\")", "                    protocol, block1_notification, block1_notification, log\n                )\n                log.debug(\"Reporting completed notification\")", "remaining blocks requested with the wrong request")

R.seed("C07.g", F_PRO, "                if f is self._future:\n                    self._future = asyncio.get_running_loop().create_future()", "                self._future = asyncio.get_running_loop().create_future()", "consumer discards an item/error already queued in a replacement future")
R.seed("C07.g", F_PRO, "        def push(self, item):\n            if self._future.done():", "        def push(self, item):\n            if False:", "second notification raises InvalidStateError in the callback")
R.seed("C07.g", F_PRO, "            except (error.NotObservable, error.ObservationCancelled):\n                # only exit cleanly", "            except (error.NotObservable, error.ObservationCancelled, error.NetworkError):\n                # only exit cleanly", "network errors end the iteration silently")
R.seed("C07.g", F_PRO, "        self.register_errback(it.push_err, _suppress_deprecation=True)\n        return it", "        return it", "errors never reach the iterator")

R.seed("C07.h", "aiocoap/tokenmanager.py", "                    lambda request=request, exception=exception: request.add_exception(\n                        exception\n                    )", "                    lambda: request.add_exception(\n                        exception\n                    )", "the observation never ends with the NetworkError; a later unrelated request gets it")

# seeds for the obligations added when the clauses were rephrased over paths / unions of sites
R.seed("C07.c", F_PRO, "            if next_event.is_last:\n                self.observation.error(error.ObservationCancelled())\n                return\n", "", "keeps waiting for events after the last message")
R.seed("C07.a", F_PRO, "            if is_recent:\n                self.observation.callback(next_event.message)\n", "            if is_recent:\n                self.observation.callback(next_event.message)\n                self.observation.callback(next_event.message)\n", "notification delivered twice")
R.seed("C07.d", F_TM, "        if final:\n            self.outgoing_requests.pop(key)\n", "", "token never forgotten")
R.seed("C07.d", F_TM, "        request.add_response(response, is_last=final)\n", "        request.add_response(response, is_last=final)\n        request.add_response(response, is_last=final)\n", "response handed on twice")
R.seed("C07.g", F_PRO, "            if self._future.done():\n                self._future = asyncio.get_running_loop().create_future()\n            self._future.set_exception(e)", "            self._future.set_exception(e)", "second error raises InvalidStateError in the errback")
R.seed("C07.g", F_PRO, "            self._future.set_result(item)", "            asyncio.get_running_loop().create_future().set_result(item)", "item put into a future nobody awaits")
R.seed("C07.e", F_PRO, "        for c in self.callbacks:\n            c(response)\n", "        for c in self.callbacks:\n            c(self._latest_response and None)\n", "callbacks do not receive the response")

# seeds for the second hardening pass (comparisons under 'a request was found', removal key, endings decided over consistent walks)
R.seed("C07.d", F_TM, "            self.outgoing_requests.pop(key)\n", "            self.outgoing_requests.pop((response.token, response.remote))\n", "a request matched under the multicast key is never forgotten (KeyError instead)")
R.seed("C07.d", F_TM, "        request.add_response(response, is_last=final)\n", "        request.add_response(response, is_last=final and key[1] is not None)\n", "responses matched under the fall-back key are never reported as last")
R.seed("C07.d", F_TM, "        if final:\n            self.outgoing_requests.pop(key)\n", "        if final and key[1] is not None:\n            self.outgoing_requests.pop(key)\n", "tokens matched under the fall-back key are never forgotten")
R.seed("C07.c", F_PRO, "            self.observation.error(error.NotObservable())\n", "            self.observation.error(error.ObservationCancelled())\n", "a non-observable resource is reported as a cancelled observation")
R.seed("C07.c", F_PRO, "                self.observation.error(next_event.exception)\n", "                self.observation.error(error.ObservationCancelled())\n", "transport failure reported as a regular end")

# seeds for C07.i (fifth pass: the end of a CoAP-over-TCP connection reaches the token manager)
F_TCP = "aiocoap/transports/tcp.py"
R.seed("C07.i", F_TCP, "        self._tokenmanager.dispatch_error(exc, connection)\n", "        if exc is not None:\n            self._tokenmanager.dispatch_error(exc, connection)\n", "an orderly close (connection_lost(None)) ends nothing: observations on the connection wait forever")
R.seed("C07.i", F_TCP, "        self._ctx._dispatch_error(self, exc)\n", "        if exc is not None:\n            self._ctx._dispatch_error(self, exc)\n", "connection_lost keeps clean closes to itself")
R.seed("C07.i", F_TCP, "                    self._ctx._dispatch_error(self, e.args[0])\n                    self._transport.close()\n", "                    self.log.info(\"Peer is leaving: %s\", e)\n", "Release / Abort neither reported nor followed by a close")
R.seed("C07.i", F_TCP, "        self._tokenmanager.dispatch_error(exc, connection)\n", "        self._tokenmanager.dispatch_error(exc, self)\n", "error reported for the pool instead of the connection: matches no request")
R.seed("C07.i", F_TCP, "        # FIXME: return true and initiate own shutdown if that is what CoAP prescribes\n        pass\n", "        # FIXME: return true and initiate own shutdown if that is what CoAP prescribes\n        return True\n", "half-open transport: connection_lost never comes after the peer's FIN")

# seeds for C07.j (provenance of the tokens handed out)
R.seed("C07.j", F_TM, "        self._token = (self._token + 1) % (2**64)\n", "        for t, _r in self.outgoing_requests:\n            if len(t) < 2:\n                return t\n        self._token = (self._token + 1) % (2**64)\n", "a short token of a request still in flight is handed out again")
R.seed("C07.j", F_TM, "        if final:\n            self.outgoing_requests.pop(key)\n", "        if final:\n            self.outgoing_requests.pop(key)\n            self._token = int.from_bytes(key[0], \"big\") - 1\n", "counter rewound to the token of the exchange that just ended: the next request gets it at once, late notifications match it")
R.seed("C07.j", F_TM, "            functools.partial(self.outgoing_requests.pop, key, None)\n        )\n", "            functools.partial(self.outgoing_requests.pop, key, None)\n        )\n        request.on_interest_end(lambda t=msg.token: setattr(self, \"_token\", int.from_bytes(t, \"big\") - 1))\n", "token of an ended exchange recycled through a hook")

# C07.a: the reset time through its dependencies (evaluated on TransportTuning and its subclasses)
R.seed("C07.a", F_CON, "    OBSERVATION_RESET_TIME = 128\n", "    @property\n    def OBSERVATION_RESET_TIME(self):\n        return max(128, self.MAX_TRANSMIT_SPAN + self.MAX_LATENCY)\n", "reset time follows NON_LIFETIME: 145 s with the default parameters")
R.seed("C07.a", F_CON, "    reliability = False\n", "    reliability = False\n    OBSERVATION_RESET_TIME = 64\n", "a tuning the package offers overrides the reset time")
R.seed("C07.a", F_CON, "    OBSERVATION_RESET_TIME = 128\n", "    OBSERVATION_RESET_TIME = 2 * DEFAULT_LEISURE + 128\n", "reset time derived from another parameter: 138 s")
# C07.k (shared with C02.d): the period of the token source
R.seed("C07.k", F_TM, "        self._token = (self._token + 1) % (2**64)", "        self._token = (self._token + 1) % (2**16)", "token of a running observation handed out again after 65536 requests")
R.seed("C07.k", F_TM, "        return self._token.to_bytes(8, \"big\").lstrip(b\"\\0\")", "        return self._token.to_bytes(8, \"big\")[-2:]", "only the low two bytes of the counter are used: tokens repeat after 65536 requests")
