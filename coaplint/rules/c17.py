"""C17 Site routing: exact match, longest prefix for nested sites, matching discovery."""

import ast

from ..rulekit import *
from ..norm import Normalizer, Poly, NormError
from ..exc import EscapeAnalysis
from ._c16c17kit import *

R = Rules(
    "C17",
    explanation=(
        "Structural clauses of resource.Site and resource.WKCResource decided on the syntax trees of resource.py and "
        "message.py: (a) the exact-match test on _resources is evaluated for every request, its miss outcome dominates "
        "every access to _subsites and its hit outcome returns the resource stored under the request path; (b) the "
        "prefix search is one of two enumerated loop idioms in which the candidate starts as the request path without "
        "its last element, loses exactly its last element once per iteration after the membership test, the remainder "
        "is built by prepending that element (so candidate + remainder = request path is a loop invariant, checked as a "
        "sequence normal form), the loop returns at the first member of _subsites, a remainder of [\"\"] is mapped to [] "
        "and exhaustion raises KeyError; (c) all callers (floor 4) catch that KeyError and map it to 4.04 / the "
        "documented default; (d) the two tables are written only by __init__, add_resource and remove_resource, lookup "
        "and listing read no other per-site container, add_resource files PathCapable objects under _subsites and "
        "everything else under _resources keyed by tuple(path), remove_resource deletes from one of the two; (e) both "
        "stripping arms store _original_request_path (from an existing attribute or the full path) on the copy and "
        "get_request_uri prefers the attribute of the same name; (f) the listing iterates exactly the two tables, "
        "skips a resource only when its description is None, and prefixes nested links with the sub-site's path; (g) "
        "the RFC 6690 filter treats a trailing '*' as prefix match and anything else as equality, matches rt/if/ct per "
        "space-separated token and href on the single value, and ignores query items without '='.  Not decided: "
        "behaviour for arbitrary registration trees at run time."
    ),
    rule_text="dominance and must-pass rules on per-function CFGs, reaching definitions, a sequence normal form for the loop invariant, field ownership over the package, exception-escape analysis of the callers, structural patterns for the filter table",
)

SITE = "resource.Site."
FIND = SITE + "_find_child_and_pathstripped_message"
TABLES = ("_resources", "_subsites")


# ---------------------------------------------------------------------------
# shared anchors


def _finder(ctx):
    fi = ctx.prog.func(FIND)
    p = params(fi)
    ctx.need(len(p) == 1, "_find_child_and_pathstripped_message signature changed")
    req = p[0]
    ctx.need(not writes_to_name(fi.node, req), "the request parameter is re-bound")
    # the request's own options are not modified by the lookup
    for n in walk_no_nested(fi.node):
        if isinstance(n, (ast.Assign, ast.AugAssign, ast.AnnAssign, ast.Delete)):
            tgts = n.targets if isinstance(n, (ast.Assign, ast.Delete)) else [n.target]
            for t in tgts:
                c = chain(t) or ""
                ctx.need(not c.startswith(req + ".opt"), "the lookup modifies the incoming request's options")
    return fi, cfg_of(fi), req


def _is_rp(fi, req, e, at):
    """Does expression e denote the request's Uri-Path at CFG node `at`?"""
    e = resolve_at(fi, e, at)
    if isinstance(e, ast.Call) and chain(e.func) == "tuple" and len(e.args) == 1 and not e.keywords:
        e = resolve_at(fi, e.args[0], at)  # the option view already is a tuple
    return chain(e) == "%s.opt.uri_path" % req


def _member_tests(fi, cfg, table):
    """[(test node id, Compare expr, key expr, hit pseudo id, miss pseudo id)] for `K in self.<table>` / `K not in ...` branch conditions."""
    out = []
    for n in cfg.nodes:
        if n.kind == "test" and isinstance(n.ast, ast.Compare) and len(n.ast.ops) == 1 and isinstance(n.ast.ops[0], (ast.In, ast.NotIn)) \
                and chain(n.ast.comparators[0]) == "self." + table and cfg.is_reachable(n.id):
            t = [d for d, lab in cfg.succ[n.id] if lab == "T"]
            f = [d for d, lab in cfg.succ[n.id] if lab == "F"]
            if len(t) == 1 and len(f) == 1:
                hit, miss = (t[0], f[0]) if isinstance(n.ast.ops[0], ast.In) else (f[0], t[0])
                out.append((n.id, n.ast, n.ast.left, hit, miss))
    return out


def _table_accesses(fi, cfg, table):
    return [(n, nid) for n in walk_no_nested(fi.node) if isinstance(n, ast.Attribute) and chain(n) == "self." + table for nid in cfg.locate(n)]


def _returns_from(cfg, src):
    return [n for n in sorted(cfg.reach({src}, include_src=True)) if cfg.nodes[n].kind == "return"]


# ---------------------------------------------------------------------------
# C17.a


@R.clause("C17.a", "the exact-match test on _resources dominates the prefix search and returns on success")
def a(ctx):
    fi, cfg, req = _finder(ctx)
    tests = [t for t in _member_tests(fi, cfg, "_resources") if _is_rp(fi, req, t[2], t[0])]
    ctx.floor("exact-match tests `<request path> in self._resources`", len(tests), 1)
    ctx.need(len(tests) == 1, "more than one exact-match test on _resources: outside the rule's vocabulary")
    tid, cmp_, key, hit, miss = tests[0]
    gs = cfg.guards(tid)
    on_path = [(e, pol) for e, pol, _ in gs if any(_is_rp(fi, req, x, tid) for x in ast.walk(e) if isinstance(x, (ast.Name, ast.Attribute)))]
    ctx.need(len(on_path) == len(gs), "the exact-match test is preceded by a condition the rule cannot interpret: %s" % [stmt_text(e, 60) for e, _, _ in gs])
    ctx.ob("the exact-match test is evaluated for every request path (no earlier condition on the path, e.g. on its emptiness, skips it)", not on_path, fi, cmp_,
           detail=("evaluated only under: %s" % [(stmt_text(e, 60), pol) for e, pol in on_path]) if on_path else None)
    subs = _table_accesses(fi, cfg, "_subsites")
    ctx.floor("accesses to _subsites in the lookup", len(subs), 2)
    for n, nid in subs:
        ctx.ob("_subsites is consulted only after the exact match on _resources failed", cfg.dominates(miss, nid), fi, cfg.nodes[nid].ast if cfg.nodes[nid].ast is not None else n,
               detail="access `%s`" % stmt_text(cfg.parent.get(id(n), n), 60))
    rets = _returns_from(cfg, hit)
    ctx.ob("an exact match always returns (never falls through into the prefix search)", bool(rets) and side_rejects(cfg, hit) is False and cfg.must_pass(hit, rets) and not any(nid in cfg.reach({hit}) for _, nid in subs), fi, cmp_)
    for rn in rets:
        r = cfg.nodes[rn].ast
        v = r.value
        ok = isinstance(v, ast.Tuple) and len(v.elts) == 2
        if ok:
            child = resolve_at(fi, v.elts[0], rn)
            ok = isinstance(child, ast.Subscript) and chain(child.value) == "self._resources" and _is_rp(fi, req, child.slice, rn)
        ctx.ob("on an exact match the resource registered under exactly the request path is returned", ok, fi, r)


# ---------------------------------------------------------------------------
# C17.b  sequence normal form


def _slice_parts(e):
    """(base, lower, upper) of X[l:u] with constant-or-name bounds, else None."""
    if isinstance(e, ast.Subscript) and isinstance(e.slice, ast.Slice) and e.slice.step is None:
        return e.value, e.slice.lower, e.slice.upper
    return None


def _cint(e):
    try:
        v = norm.consteval(e)
    except NormError:
        return None
    return v if isinstance(v, int) and not isinstance(v, bool) else None


def _seq_nf(e, key):
    """Sequence normal form: a list of segments.  ('all', X) the whole sequence X,
    ('init', X) X without its last element, ('last', X) the one-element sequence holding X[-1],
    ('pre', X, i) X[:i], ('post', X, i) X[i:], ('opaque', dump).  `key(expr)` canonicalises a base expression to a string.
    Adjacent init/last and pre/post of the same base merge into 'all'."""
    def seg(x):
        if isinstance(x, ast.Call) and chain(x.func) in ("list", "tuple") and len(x.args) == 1 and not x.keywords:
            return seg(x.args[0])
        if isinstance(x, ast.BinOp) and isinstance(x.op, ast.Add):
            return seg(x.left) + seg(x.right)
        if isinstance(x, (ast.List, ast.Tuple)):
            out = []
            for el in x.elts:
                if isinstance(el, ast.Subscript) and not isinstance(el.slice, ast.Slice) and _cint(el.slice) == -1:
                    out.append(("last", key(el.value)))
                elif isinstance(el, ast.Starred):
                    out.extend(seg(el.value))
                else:
                    out.append(("opaque", dump(el)))
            return out
        sp = _slice_parts(x)
        if sp is not None:
            base, lo, up = sp
            if lo is None and up is not None and _cint(up) == -1:
                return [("init", key(base))]
            if lo is None and up is not None:
                return [("pre", key(base), dump(up))]
            if up is None and lo is not None:
                return [("post", key(base), dump(lo))]
            if lo is None and up is None:
                return [("all", key(base))]
            return [("opaque", dump(x))]
        k = key(x)
        if k is not None:
            return [("all", k)]
        return [("opaque", dump(x))]

    segs = seg(e)
    out = []
    for s in segs:
        if out and out[-1][0] == "init" and s[0] == "last" and out[-1][1] == s[1]:
            out[-1] = ("all", s[1])
        elif out and out[-1][0] == "pre" and s[0] == "post" and out[-1][1:] == s[1:]:
            out[-1] = ("all", s[1])
        else:
            out.append(s)
    return out


def _concat(a, b, key):
    return _seq_nf(ast.BinOp(left=a, op=ast.Add(), right=b), key)


def _strip_arm(ctx, fi, cfg, req, hit, table, cand_ok):
    """Checks common to both idioms on the hit side of `cand in self._subsites`:
    returns (self._subsites[cand], request.copy(uri_path=R)); yields (return node id, R expr, copy call)."""
    rets = _returns_from(cfg, hit)
    out = []
    ctx.ob("the first candidate found in _subsites ends the search with a return", bool(rets) and cfg.must_pass(hit, rets), fi, cfg.nodes[hit].ast)
    for rn in rets:
        r = cfg.nodes[rn].ast
        v = r.value
        ok = isinstance(v, ast.Tuple) and len(v.elts) == 2
        child = resolve_at(fi, v.elts[0], rn) if ok else None
        ok = ok and isinstance(child, ast.Subscript) and chain(child.value) == "self." + table and cand_ok(child.slice, rn)
        ctx.ob("the sub-site returned is the one registered under the candidate prefix that was tested", bool(ok), fi, r)
        if not (isinstance(v, ast.Tuple) and len(v.elts) == 2):
            continue
        cp = v.elts[1]
        cpn = rn
        if isinstance(cp, ast.Name):
            ds = reaching_defs(fi, cp.id, rn)
            ctx.need(len(ds) == 1 and ds[0] != PARAM, "the stripped message returned from the prefix search has no unique definition")
            dv = def_value(ds[0], cp.id)
            ctx.need(dv[0] == "expr", "the stripped message is not bound by a plain assignment")
            cpn = cfg.loc1(ds[0])
            cp = dv[1]
        m = match("%s.copy($**kw)" % req, cp)
        kw = {k.arg: k.value for k in (m["kw"] if m is not None else []) if k.arg}
        okc = m is not None and not cp.args and set(kw) == {"uri_path"}
        ctx.ob("the sub-site receives a copy of the request in which only uri_path is replaced", okc, fi, r, detail="message: %s" % stmt_text(cp, 80))
        if okc:
            out.append((rn, cpn, kw["uri_path"], cp))
    return out


def _empty_mapping(ctx, fi, cfg, rname, use_nid, anchor, elem_type):
    """At `use_nid` the remainder local `rname` is [] whenever it would be [""]:
    a definition `rname = []` guarded by `rname == [""]` (same sequence type as the remainder) through which every path from the
    guard's true outcome to the use passes."""
    ok, why = False, "no `if %s == [\"\"]: %s = []` before the copy" % (rname, rname)
    for w in reaching_defs(fi, rname, use_nid):
        if w == PARAM:
            continue
        dv = def_value(w, rname)
        if dv[0] != "expr" or not (isinstance(dv[1], (ast.List, ast.Tuple)) and not dv[1].elts) and not (isinstance(dv[1], ast.Call) and chain(dv[1].func) in ("list", "tuple") and not dv[1].args):
            continue
        wn = cfg.loc1(w)
        for e, pol, pid in cfg.guards(wn):
            if not (isinstance(e, ast.Compare) and len(e.ops) == 1 and isinstance(e.ops[0], (ast.Eq, ast.NotEq))):
                continue
            l, r = e.left, e.comparators[0]
            if isinstance(r, ast.Name):
                l, r = r, l
            if not (isinstance(l, ast.Name) and l.id == rname):
                continue
            try:
                val = norm.consteval(r)
            except NormError:
                continue
            if pol != isinstance(e.ops[0], ast.Eq):
                continue
            if val not in ([""], ("",)):
                why = "the remainder is compared with %r" % (val,)
                continue
            if type(val) is not elem_type:
                why = "the remainder is a %s but is compared with the %s %r (never equal)" % (elem_type.__name__, type(val).__name__, val)
                continue
            if use_nid in cfg.reach({pid}, avoid={wn}):
                why = "the copy is reachable from the [\"\"] outcome without the reset"
                continue
            ok, why = True, "reset `%s` under `%s`" % (stmt_text(w, 40), stmt_text(e, 40))
    ctx.ob("a remainder of [\"\"] (request for <prefix>/) is handed to the sub-site as [] so that it reaches the sub-site's root resource", ok, fi, anchor, detail=why)


def _exhaustion(ctx, fi, cfg, side, anchor):
    rs = raises_from(cfg, side)
    classes = sorted({raised_class(ctx.prog, fi, r) or "?" for r in rs})
    ctx.ob("when no prefix is a registered sub-site the lookup raises KeyError", side_rejects(cfg, side) and bool(rs) and all(c != "?" and ctx.prog.is_subclass(c, "KeyError") for c in classes), fi, anchor,
           detail="raises %s" % classes)


def _while_idiom(ctx, fi, cfg, req, loop):
    N = Normalizer()
    test = loop.test
    cand = None
    if isinstance(test, ast.Name):
        cand = test.id
    else:
        for nm in names_in(test):
            for ref in ("len(%s) > 0", "len(%s) != 0", "%s != ()", "%s != []"):
                try:
                    if N.cmp(test) == N.cmp(ast.parse(ref % nm, mode="eval").body):
                        cand = nm
                except NormError:
                    pass
    if cand is None and isinstance(test, ast.Compare) and len(names_in(test)) == 2 and "len" in names_in(test):
        # a recognisable condition on the candidate's length that is not its non-emptiness
        ctx.ob("the prefix search continues exactly while the candidate is non-empty (down to one-component prefixes)", False, fi, test)
        return
    ctx.need(cand is not None, "prefix search: the while condition is not the non-emptiness of one local (accepted idioms: `while p:` slicing loop, `for i in range(len(p)-1, 0, -1)`)")
    tn = [n for n in cfg.locate(test) if cfg.nodes[n].kind == "test"]
    ctx.need(len(tn) == 1, "prefix search: loop test has no unique CFG node")
    tn = tn[0]
    loopT = [d for d, lab in cfg.succ[tn] if lab == "T"][0]
    loopF = [d for d, lab in cfg.succ[tn] if lab == "F"][0]
    head = cfg.loc1(loop)
    key_rp = "%s.opt.uri_path" % req

    def key(x):
        c = chain(resolve_at(fi, x, tn)) if isinstance(x, ast.Name) and x.id not in (cand,) else chain(x)
        return c

    # --- candidate: initial value and updates
    defs = [w for w in reaching_defs(fi, cand, tn)]
    ctx.need(PARAM not in defs, "prefix search: the candidate may be unbound at the loop")
    inits = [w for w in defs if not contains(loop, w)]
    updates = [w for w in writes_to_name(fi.node, cand) if contains(loop, w)]
    ctx.need(len(inits) == 1 and updates, "prefix search: expected one initialisation before the loop and an update inside it")
    iv = def_value(inits[0], cand)
    ctx.need(iv[0] == "expr", "prefix search: candidate initialised by something other than an assignment")
    init_nf = _seq_nf(iv[1], key)
    ctx.ob("the first candidate is the request path without its last element (the longest proper prefix)", init_nf == [("init", key_rp)], fi, inits[0], detail="normal form %s" % (init_nf,))
    un = []
    for u in updates:
        uv = def_value(u, cand)
        ok = uv[0] == "expr" and _seq_nf(uv[1], key) == [("init", cand)]
        ctx.ob("every update of the candidate removes exactly its last element", ok, fi, u)
        un.extend(cfg.locate(u))
    once = cfg.must_pass(loopT, un, to=head) and not any(set(cfg.reach({u}, avoid={head})) & set(un) for u in un)
    ctx.ob("the candidate is shortened exactly once per iteration (no prefix length is skipped, the loop makes progress)", once, fi, updates[0])
    # --- membership test
    mts = [t for t in _member_tests(fi, cfg, "_subsites") if contains(loop, t[1])]
    ctx.need(len(mts) == 1, "prefix search: expected exactly one `candidate in self._subsites` test inside the loop")
    mid, mcmp, mkey, hit, miss = mts[0]
    ctx.ob("the membership test in _subsites is made on the current candidate", isinstance(mkey, ast.Name) and mkey.id == cand, fi, mcmp)
    ctx.ob("every candidate is tested before it is shortened", cfg.must_pass(loopT, [mid], to=None) and all(cfg.must_pass(loopT, [mid], to=u) for u in un) and not any(mid in cfg.reach({u}, avoid={head}) for u in un), fi, mcmp)
    ctx.ob("finding a sub-site leaves the loop (the longest registered prefix wins)", head not in cfg.reach({hit}) and not any(u in cfg.reach({hit}) for u in un), fi, mcmp)

    def cand_ok(e, at):
        return isinstance(e, ast.Name) and e.id == cand and not any(u in cfg.reach({hit}, avoid={at}) and at in cfg.reach({u}) for u in un)

    arms = _strip_arm(ctx, fi, cfg, req, hit, "_subsites", cand_ok)
    ctx.need(arms, "prefix search: no stripped copy is returned on the hit side")
    for rn, cpn, R_, cp in arms:
        ctx.need(isinstance(R_, ast.Name), "prefix search: uri_path of the stripped copy is not a local (remainder) variable")
        rname = R_.id
        # definitions and in-place prepends of the remainder
        rinits = [w for w in writes_to_name(fi.node, rname) if not contains(loop, w)]
        if len(rinits) > 1:
            # a second pre-loop definition: e.g. the `[""] -> []` normalisation hoisted out of the loop, where it
            # sees only the last component instead of the complete remainder
            extra = [w for w in rinits[1:] if guard_exprs(cfg, cfg.loc1(w))]
            if extra and len(extra) == len(rinits) - 1:
                ctx.ob("the remainder is normalised ([\"\"] -> []) only once it is complete, on the side where a sub-site was found", False, fi, extra[0],
                       detail="conditional re-definition of the remainder before the search loop")
                return
        ctx.need(len(rinits) == 1, "prefix search: expected one initialisation of the remainder before the loop")
        rv = def_value(rinits[0], rname)
        ctx.need(rv[0] == "expr" and isinstance(rv[1], (ast.List, ast.Tuple)), "prefix search: remainder is not initialised with a list/tuple display")
        rtype = list if isinstance(rv[1], ast.List) else tuple
        preps = []  # (cfg node, new value of the remainder as an expression over cand and rname)
        for n in walk_no_nested(loop):
            m = match("%s.insert($i, $x)" % rname, n) if isinstance(n, ast.Call) else None
            if m is not None:
                ctx.need(_cint(m["i"]) == 0, "prefix search: remainder.insert at a position other than 0")
                newv = ast.BinOp(left=ast.List(elts=[m["x"]], ctx=ast.Load()), op=ast.Add(), right=ast.Name(id=rname, ctx=ast.Load()))
                preps.append((cfg.loc1(n), newv, n))
        for w in writes_to_name(fi.node, rname):
            if contains(loop, w):
                dv = def_value(w, rname)
                if dv[0] == "expr" and isinstance(dv[1], (ast.List, ast.Tuple)) and not dv[1].elts:
                    continue  # the [""] -> [] reset, checked below
                if dv[0] == "aug":
                    ctx.need(False, "prefix search: augmented assignment to the remainder is outside the rule's vocabulary")
                ctx.need(dv[0] == "expr", "prefix search: remainder re-bound by something other than an assignment")
                preps.append((cfg.loc1(w), dv[1], w))
        for k in ("append", "extend", "pop", "remove", "clear", "reverse", "sort"):
            ctx.need(not list(find("%s.%s($*a)" % (rname, k), loop)), "prefix search: remainder mutated by .%s(): outside the rule's vocabulary" % k)
        ctx.need(preps, "prefix search: the remainder is never extended inside the loop")
        pn = [p[0] for p in preps]
        # invariant, initially: candidate + remainder == request path
        inv0 = _concat(iv[1], rv[1], key)
        ctx.ob("loop invariant holds initially: candidate + remainder == request path", inv0 == [("all", key_rp)], fi, rinits[0], detail="normal form %s" % (inv0,))
        # the last element is only taken from a non-empty path
        guarded = any(pol and _is_rp(fi, req, e, cfg.loc1(rinits[0])) for e, pol in guard_exprs(cfg, cfg.loc1(rinits[0])))
        ctx.ob("an empty request path is answered (KeyError) before its last element is taken", guarded, fi, rinits[0])
        for nid, newv, node in preps:
            # preserved by one iteration: (cand[:-1]) + new remainder == cand + remainder
            invs = _concat(ast.Subscript(value=ast.Name(id=cand, ctx=ast.Load()), slice=ast.Slice(lower=None, upper=ast.UnaryOp(op=ast.USub(), operand=ast.Constant(value=1)), step=None), ctx=ast.Load()), newv, lambda x: chain(x))
            ctx.ob("loop invariant is preserved: the element removed from the candidate is prepended to the remainder", invs == [("all", cand), ("all", rname)], fi, node, detail="normal form %s" % (invs,))
            ctx.ob("the prepended element is read from the candidate before it is shortened, once per iteration",
                   all(cfg.must_pass(loopT, [nid], to=u) for u in un) and not any(nid in cfg.reach({u}, avoid={head}) for u in un) and not (set(cfg.reach({nid}, avoid={head})) & (set(pn) - {nid}))
                   and cfg.must_pass(loopT, pn, to=head), fi, node)
        ctx.ob("the hit side neither shortens the candidate nor extends the remainder before returning", not (set(cfg.reach({hit})) & (set(pn) | set(un))), fi, mcmp)
        _empty_mapping(ctx, fi, cfg, rname, cpn, cp, rtype)
    _exhaustion(ctx, fi, cfg, loopF, loop.test)


def _for_idiom(ctx, fi, cfg, req, loop):
    N = Normalizer()
    ctx.need(isinstance(loop.target, ast.Name) and isinstance(loop.iter, ast.Call) and chain(loop.iter.func) == "range" and 1 <= len(loop.iter.args) <= 3 and not loop.iter.keywords,
             "prefix search: the for loop is not `for i in range(...)` (accepted idioms: `while p:` slicing loop, `for i in range(len(p)-1, 0, -1)`)")
    i = loop.target.id
    ctx.need(not [w for w in writes_to_name(fi.node, i) if w is not loop], "prefix search: the loop index is re-bound")
    hn = cfg.loc1(loop)
    # range(stop) / range(start, stop) are ascending ranges: interpreted (and refuted below) rather than refused
    ra = list(loop.iter.args)
    if len(ra) == 1:
        ra = [ast.Constant(value=0), ra[0], ast.Constant(value=1)]
    elif len(ra) == 2:
        ra = [ra[0], ra[1], ast.Constant(value=1)]
    start, stop, step = ra
    # which sequence is measured
    lens = [n for a_ in (start, stop) for n in ast.walk(a_) if isinstance(n, ast.Call) and chain(n.func) == "len" and len(n.args) == 1]
    ctx.need(len(lens) == 1, "prefix search: the range bounds do not mention exactly one len(..)")
    base = lens[0].args[0]
    ctx.need(_is_rp(fi, req, base, hn), "prefix search: the range is not over the request path")
    try:
        got_start = N.poly(start)
        ref_start = N.poly(ast.parse("len(%s) - 1" % ast.unparse(base), mode="eval").body)
        ok_start = got_start == ref_start
        ok_stop = N.poly(stop) == Poly.const(0)
        ok_step = N.poly(step) == Poly.const(-1)
    except NormError:
        ok_start = ok_stop = ok_step = False
    ctx.ob("prefix lengths start at len(path) - 1 (the longest proper prefix)", ok_start, fi, loop.iter, detail="start = %s" % stmt_text(start))
    ctx.ob("prefix lengths end at 1 (range stop 0)", ok_stop, fi, loop.iter, detail="stop = %s" % stmt_text(stop))
    ctx.ob("prefix lengths decrease by one (longest first, none skipped)", ok_step, fi, loop.iter, detail="step = %s" % stmt_text(step))
    loopT = [d for d, lab in cfg.succ[hn] if lab == "T"][0]
    loopF = [d for d, lab in cfg.succ[hn] if lab == "F"][0]
    key_rp = "%s.opt.uri_path" % req

    def key(x):
        return chain(resolve_at(fi, x, hn)) if isinstance(x, ast.Name) else chain(x)

    def is_prefix(e, at):
        e = resolve_at(fi, e, at)
        return _seq_nf(e, key) == [("pre", key_rp, dump(ast.Name(id=i, ctx=ast.Load())))]

    mts = [t for t in _member_tests(fi, cfg, "_subsites") if contains(loop, t[1])]
    ctx.need(len(mts) == 1, "prefix search: expected exactly one `candidate in self._subsites` test inside the loop")
    mid, mcmp, mkey, hit, miss = mts[0]
    ctx.ob("the membership test in _subsites is made on the prefix of the current length", is_prefix(mkey, mid), fi, mcmp)
    ctx.ob("every prefix length is tested", cfg.must_pass(loopT, [mid], to=hn), fi, mcmp)
    ctx.ob("finding a sub-site leaves the loop (the longest registered prefix wins)", hn not in cfg.reach({hit}), fi, mcmp)
    arms = _strip_arm(ctx, fi, cfg, req, hit, "_subsites", is_prefix)
    ctx.need(arms, "prefix search: no stripped copy is returned on the hit side")
    for rn, cpn, R_, cp in arms:
        if isinstance(R_, ast.Name):
            rname = R_.id
            ds = [w for w in reaching_defs(fi, rname, cpn) if w != PARAM]
            mains = []
            for w in ds:
                dv = def_value(w, rname)
                ctx.need(dv[0] == "expr", "prefix search: remainder bound by something other than an assignment")
                if isinstance(dv[1], (ast.List, ast.Tuple)) and not dv[1].elts:
                    continue
                mains.append((w, dv[1]))
            ctx.need(len(mains) == 1, "prefix search: remainder has no unique main definition")
            w, val = mains[0]
            nf = _seq_nf(val, key)
            ctx.ob("the remainder is the request path from the prefix length on (candidate + remainder == request path)", nf == [("post", key_rp, dump(ast.Name(id=i, ctx=ast.Load())))], fi, w, detail="normal form %s" % (nf,))
            rtype = list if (isinstance(val, ast.Call) and chain(val.func) == "list") or isinstance(val, ast.List) else tuple
            if rtype is tuple:
                # slices of the Uri-Path view are tuples: premise read from options._items_view
                g = ctx.prog.func("options._items_view.<locals>._getter")
                rts = [n for n in walk_no_nested(g.node) if isinstance(n, ast.Return)]
                ctx.need(len(rts) == 1 and isinstance(rts[0].value, ast.Call) and chain(rts[0].value.func) == "tuple", "the repeatable-option view no longer returns a tuple")
            _empty_mapping(ctx, fi, cfg, rname, cpn, cp, rtype)
        else:
            nf = _seq_nf(R_, key)
            ctx.ob("the remainder is the request path from the prefix length on (candidate + remainder == request path)", nf == [("post", key_rp, dump(ast.Name(id=i, ctx=ast.Load())))], fi, cp, detail="normal form %s" % (nf,))
            ctx.ob("a remainder of [\"\"] (request for <prefix>/) is handed to the sub-site as [] so that it reaches the sub-site's root resource", False, fi, cp, detail="the remainder is passed on unconditionally")
    _exhaustion(ctx, fi, cfg, loopF, loop.iter)


@R.clause("C17.b", "longest proper prefix first: candidate + remainder == request path is a loop invariant; first member of _subsites wins; [\"\"] -> []; exhaustion raises KeyError")
def b(ctx):
    fi, cfg, req = _finder(ctx)
    loops = [n for n in walk_no_nested(fi.node) if isinstance(n, (ast.While, ast.For, ast.AsyncFor))]
    comps = [n for n in walk_no_nested(fi.node) if isinstance(n, (ast.ListComp, ast.GeneratorExp, ast.SetComp, ast.DictComp))]
    ctx.need(len(loops) == 1 and not comps, "prefix search: expected exactly one loop and no comprehension in the lookup (accepted idioms: `while p:` slicing loop, `for i in range(len(p)-1, 0, -1)`)")
    ctx.need(not any(isinstance(n, (ast.Await, ast.Yield, ast.YieldFrom)) for n in walk_no_nested(fi.node)) and is_plain_sync(fi), "the lookup is not a plain synchronous function")
    loop = loops[0]
    ctx.need(not loop.orelse, "prefix search: loop with an else clause is outside the rule's vocabulary")
    if isinstance(loop, ast.While):
        _while_idiom(ctx, fi, cfg, req, loop)
    else:
        _for_idiom(ctx, fi, cfg, req, loop)
    # every normal exit is a return of a (child, message) pair
    preds = [p for p, lab in cfg.pred[cfg.exit]]
    okp = all(cfg.nodes[p].kind == "return" and isinstance(cfg.nodes[p].ast.value, ast.Tuple) and len(cfg.nodes[p].ast.value.elts) == 2 for p in preds if cfg.is_reachable(p))
    ctx.ob("the lookup never falls off its end: it returns a (child, stripped message) pair or raises", okp and bool(preds), fi, fi.node, construct="_find_child_and_pathstripped_message exits")


# ---------------------------------------------------------------------------
# C17.c

CALLER_TABLE = {
    # caller -> how the documented default for "no such resource" looks
    "resource.Site.render": ("raise", "aiocoap.error.NotFound"),
    "resource.Site.render_to_pipe": ("raise", "aiocoap.error.NotFound"),
    "resource.Site.needs_blockwise_assembly": ("return", True),
    "resource.Site.add_observation": ("return", None),
}


@R.clause("C17.c", "every caller of the lookup maps its KeyError to 4.04 / the documented default")
def c(ctx):
    ctx.prog.func(FIND)
    nf = ctx.prog.cls("error.NotFound")
    code, _ = ctx.prog.class_attr(nf.qn, "code")
    ctx.ob("error.NotFound renders as 4.04 Not Found", code is not None and (chain(code) or "").split(".")[-1] == "NOT_FOUND", None, None, construct="error.NotFound.code",
           detail="code = %s" % (stmt_text(code) if code is not None else None))
    EA = EscapeAnalysis(ctx.prog)
    lookup_escapes = EA.escapes(ctx.prog.func(FIND))
    bad = [e for e in lookup_escapes if not ctx.prog.is_subclass(e.cls, "KeyError")]
    ffi = ctx.prog.func(FIND)
    ctx.ob("the lookup itself signals 'no such child' by KeyError and raises nothing else", not bad and bool(lookup_escapes), ffi, ffi.node, construct="escape(_find_child_and_pathstripped_message)",
           detail="; ".join(repr(e) for e in bad))
    sites = []
    for fi in ctx.prog.funcs.values():
        for n in walk_no_nested(fi.node):
            if isinstance(n, ast.Call) and isinstance(n.func, ast.Attribute) and n.func.attr == "_find_child_and_pathstripped_message":
                sites.append((fi, n))
    ctx.floor("call sites of _find_child_and_pathstripped_message", len(sites), 4)
    for fi, call in sites:
        cfg = cfg_of(fi)
        cn = cfg.loc1(call)
        handlers = [(d, cfg.nodes[d].ast) for d, lab in cfg.succ[cn] if lab == "exc" and cfg.nodes[d].kind == "handler"]
        catching = []
        for d, h in handlers:
            types = [] if h.type is None else (h.type.elts if isinstance(h.type, ast.Tuple) else [h.type])
            qs = [ctx.prog.resolve_in_module(fi.module, chain(t) or "?") for t in types]
            if h.type is None or any(ctx.prog.is_subclass("KeyError", q) for q in qs):
                catching.append((d, h))
                break  # first matching handler takes it
        esc = EA.escapes(fi)
        leaked = [e for e in esc if e.func == ffi.short and ctx.prog.is_subclass(e.cls, "KeyError")]
        ctx.ob("the lookup's KeyError does not leave the caller", bool(catching) and not leaked, fi, call, detail="; ".join(repr(e) for e in leaked) if leaked else None)
        if not catching:
            continue
        d, h = catching[0]
        want = CALLER_TABLE.get(fi.short, ("either", None))
        # what the handler does on every path
        exits_normally = cfg.exit in cfg.reach({d}, include_src=True)
        rs = raises_from(cfg, d)
        rets = _returns_from(cfg, d)
        classes = sorted({raised_class(ctx.prog, fi, r) or "?" for r in rs})
        all_nf = bool(rs) and all(c != "?" and ctx.prog.is_subclass(c, "aiocoap.error.NotFound") for c in classes)
        if want[0] == "raise" or (want[0] == "either" and rs):
            ctx.ob("a request for an unknown path is answered with 4.04 (NotFound raised on every path of the handler)", all_nf and not exits_normally, fi, h,
                   detail="handler raises %s%s" % (classes, ", can also complete normally" if exits_normally else ""), construct="except KeyError in %s" % fi.short)
        else:
            okr = bool(rets) and not rs and cfg.must_pass(d, rets)
            if want[0] == "return":
                for rn in rets:
                    v = cfg.nodes[rn].ast.value
                    val = None if v is None else (v.value if isinstance(v, ast.Constant) else "?")
                    okr = okr and val is want[1]
            # the handler must not fall through into code using the (unbound) child
            bound = set()
            st_ = cfg.nodes[cn].ast
            if isinstance(st_, ast.Assign):
                bound = {x.id for t in st_.targets for x in ast.walk(t) if isinstance(x, ast.Name)}
            uses_child = [n for n in sorted(cfg.reach({d}, include_src=True)) if cfg.nodes[n].ast is not None and cfg.nodes[n].kind in ("stmt", "return", "test", "for", "with")
                          and any(isinstance(x, ast.Name) and x.id in bound and isinstance(x.ctx, ast.Load) for x in ast.walk(cfg.nodes[n].ast))]
            ctx.ob("for an unknown path the caller returns its documented default (%r) without touching a child" % (want[1],), okr and not uses_child, fi, h,
                   construct="except KeyError in %s" % fi.short)
        # nothing but the lookup is covered by the handler (a child's own KeyError must not become 4.04)
        covered = [n for n in cfg.nodes if n.kind in ("stmt", "return", "test", "for", "with") and (d, "exc") in cfg.succ[n.id] and n.id != cn
                   and not (isinstance(n.ast, ast.Expr) and isinstance(n.ast.value, ast.Call) and is_log_call(n.ast.value))]
        ctx.ob("the handler covers only the lookup (a KeyError raised inside the child is not mistaken for an unknown path)", not covered, fi, h,
               detail="; ".join(stmt_text(n.ast, 60) for n in covered), construct="try body in %s" % fi.short)


# ---------------------------------------------------------------------------
# C17.d

WRITERS = {"resource.Site.__init__", "resource.Site.add_resource", "resource.Site.remove_resource"}


def _self_fields_read(fi):
    out = {}
    for n in walk_no_nested(fi.node):
        if isinstance(n, ast.Attribute) and isinstance(n.value, ast.Name) and n.value.id == "self" and isinstance(n.ctx, ast.Load):
            out.setdefault(n.attr, n)
    return out


@R.clause("C17.d", "_resources/_subsites are written only by __init__/add_resource/remove_resource; lookup and listing read only these tables; add_resource files by PathCapable under tuple(path); remove_resource deletes from one of the two")
def d(ctx):
    site = ctx.prog.cls("resource.Site")
    pc = ctx.prog.cls("resource.PathCapable")
    for t in TABLES:
        ws = field_writers(ctx.prog, t)
        ctx.floor("functions writing %s" % t, len(ws), 2)
        for fn, hits in sorted(ws.items()):
            f = ctx.prog.func(fn)
            ctx.ob("%s is written only by Site.__init__, add_resource and remove_resource" % t, fn in WRITERS, f, hits[0][1])
    init = ctx.prog.func(SITE + "__init__")
    for t in TABLES:
        st = [n for k, n in stores_to(init.node, "self." + t) if k == "assign"]
        ok = len(st) == 1 and isinstance(st[0], ast.Assign) and ((isinstance(st[0].value, ast.Dict) and not st[0].value.keys) or (isinstance(st[0].value, ast.Call) and chain(st[0].value.func) == "dict" and not st[0].value.args and not st[0].value.keywords))
        ctx.ob("a new Site starts with an empty %s table of its own" % t, ok, init, st[0] if st else init.node)
    # lookup and listing read the live tables, nothing derived
    all_methods = {name: f for name, f in site.methods.items()}
    for name in ("_find_child_and_pathstripped_message", "get_resources_as_linkheader"):
        ctx.need(name in all_methods, "Site.%s missing" % name)
        f = all_methods[name]
        reads = _self_fields_read(f)
        for attr, node in sorted(reads.items()):
            if attr in TABLES or attr in all_methods or attr in ("log", "logger", "_log"):
                continue
            # another per-site container: acceptable only if both add_resource and remove_resource maintain it
            ws = field_writers(ctx.prog, attr, modules={"aiocoap.resource"})
            maintained = {SITE + "add_resource", SITE + "remove_resource"} <= set(ws)
            ctx.ob("Site.%s reads no per-site state besides the two live tables (a change by add_resource/remove_resource is visible to the next request)" % name, maintained, f, node,
                   detail="reads self.%s, written by %s" % (attr, sorted(ws)))
        ctx.ob("Site.%s reads the live tables" % name, any(t in reads for t in TABLES), f, f.node, construct="Site.%s table reads" % name)
        for t in TABLES:
            aliased = [n for n in walk_no_nested(f.node) if isinstance(n, ast.Call) and chain(n.func) in ("dict", "list", "tuple", "set", "frozenset", "sorted") and n.args and chain(n.args[0]) == "self." + t]
            ctx.need(not aliased or name != "_find_child_and_pathstripped_message", "the lookup copies a table: outside the rule's vocabulary")
    # add_resource
    add = ctx.prog.func(SITE + "add_resource")
    ap = params(add)
    ctx.need(len(ap) == 2, "add_resource signature changed")
    path, res = ap
    acfg = cfg_of(add)
    N = Normalizer()
    nstores = 0
    for t, want_pc in (("_subsites", True), ("_resources", False)):
        sts = [(k, n) for k, n in stores_to(add.node, "self." + t)]
        ctx.floor("stores into %s in add_resource" % t, len(sts), 1)
        for k, n in sts:
            nstores += 1
            ok = k == "setitem" and isinstance(n, ast.Assign) and isinstance(n.targets[0], ast.Subscript)
            ctx.need(ok, "add_resource: %s is written by something other than an item assignment" % t)
            keyx = resolve_at(add, n.targets[0].slice, acfg.loc1(n))
            mk = match("tuple(%s)" % path, keyx)
            ctx.ob("add_resource keys %s by tuple(path)" % t, mk is not None and not writes_to_name(add.node, path), add, n, detail="key: %s" % stmt_text(keyx, 60))
            ctx.ob("add_resource stores the resource it was given", isinstance(n.value, ast.Name) and n.value.id == res and not writes_to_name(add.node, res), add, n)
            pol = None
            others = []
            for e, p_ in guard_exprs(acfg, acfg.loc1(n)):
                m = match("isinstance(%s, $c)" % res, e)
                if m is not None and ctx.prog.resolve_in_module(add.module, chain(m["c"]) or "?") == pc.qn:
                    pol = p_
                else:
                    sib = None
                    others.append((e, p_))
            ctx.ob("add_resource files a %s under %s" % ("PathCapable object" if want_pc else "resource that is not PathCapable", t), pol is want_pc, add, n,
                   detail="isinstance(resource, PathCapable) is %s here" % pol)
            # further conditions must be rejections (e.g. the str check), not silent drops
            silent = []
            for e, pol2, pid in acfg.guards(acfg.loc1(n)):
                if match("isinstance(%s, $c)" % res, e) is not None:
                    continue
                sib = sibling(acfg, pid)
                if sib is None or not side_rejects(acfg, sib):
                    silent.append(e)
            ctx.ob("add_resource never silently drops a registration", not silent, add, n, detail="; ".join(stmt_text(e, 60) for e in silent))
    allst = [acfg.loc1(n) for t in TABLES for k, n in stores_to(add.node, "self." + t)]
    ctx.ob("every normal path through add_resource registers the resource in one of the two tables", acfg.must_pass(acfg.entry, allst), add, add.node, construct="add_resource paths")
    ctx.ob("Site itself is PathCapable (nested sites are routed by prefix)", ctx.prog.is_subclass(site.qn, pc.qn), None, None, construct="class Site(PathCapable)")
    # remove_resource
    rem = ctx.prog.func(SITE + "remove_resource")
    rp = params(rem)
    ctx.need(len(rp) == 1, "remove_resource signature changed")
    rcfg = cfg_of(rem)
    dels = {}
    for t in TABLES:
        for k, n in stores_to(rem.node, "self." + t):
            if k in ("delitem", "pop"):
                keyx = n.targets[0].slice if k == "delitem" else (n.args[0] if n.args else None)
                keyx = resolve_at(rem, keyx, rcfg.loc1(n)) if keyx is not None else None
                ctx.ob("remove_resource addresses %s by tuple(path)" % t, keyx is not None and match("tuple(%s)" % rp[0], keyx) is not None and not writes_to_name(rem.node, rp[0]), rem, n)
                if k == "pop":
                    ctx.need(len(n.args) == 1, "remove_resource: pop with a default is outside the rule's vocabulary")
                dels.setdefault(t, []).append(rcfg.loc1(n))
            else:
                ctx.ob("remove_resource only deletes", False, rem, n)
    for t in TABLES:
        ctx.ob("remove_resource can delete from %s" % t, bool(dels.get(t)), rem, rem.node, construct="remove_resource: delete from %s" % t)
    alld = [x for v in dels.values() for x in v]
    ctx.ob("every path through remove_resource that ends normally has deleted an entry from one of the two tables", bool(alld) and rcfg.must_pass(rcfg.entry, alld, skip_labels=()), rem, rem.node, construct="remove_resource paths")


# ---------------------------------------------------------------------------
# C17.e


@R.clause("C17.e", "both stripping arms store _original_request_path on the copy; get_request_uri prefers the attribute of the same name")
def e(ctx):
    fi, cfg, req = _finder(ctx)
    rets = [n for n in cfg.nodes if n.kind == "return" and cfg.is_reachable(n.id)]
    ctx.floor("returns of the lookup", len(rets), 2)
    names = set()
    gnode = ctx.prog.func("message.Message.get_request_uri").node
    reader_attrs = {n.attr for n in walk_no_nested(gnode) if isinstance(n, ast.Attribute)} | \
        {n.args[1].value for n in walk_no_nested(gnode) if isinstance(n, ast.Call) and chain(n.func) in ("hasattr", "getattr") and len(n.args) >= 2 and isinstance(n.args[1], ast.Constant)}
    for r in rets:
        v = r.ast.value
        ctx.need(isinstance(v, ast.Tuple) and len(v.elts) == 2, "the lookup returns something other than a (child, message) pair")
        cp = v.elts[1]
        ctx.need(isinstance(cp, ast.Name), "the stripped message is not held in a local")
        ds = reaching_defs(fi, cp.id, r.id)
        ctx.need(len(ds) == 1 and ds[0] != PARAM, "the stripped message has no unique definition at the return")
        dn = cfg.loc1(ds[0])
        dv = def_value(ds[0], cp.id)
        okc = dv[0] == "expr" and match("%s.copy($**kw)" % req, dv[1]) is not None
        ctx.ob("the returned message is a copy of the request (the caller's message object is not modified)", okc, fi, r.ast)
        stores = []
        for n in walk_no_nested(fi.node):
            if isinstance(n, ast.Assign):
                for t in n.targets:
                    if isinstance(t, ast.Attribute) and isinstance(t.value, ast.Name) and t.value.id == cp.id:
                        stores.append((t.attr, n))
        on_path = [(a_, n) for a_, n in stores if cfg.dominates(dn, cfg.loc1(n)) and cfg.must_pass(dn, [cfg.loc1(n)], to=r.id)]
        if len(on_path) > 1:
            # further attributes on the copy are not this clause's business: keep those get_request_uri knows
            on_path = [(a_, n) for a_, n in on_path if a_ in reader_attrs]
        ctx.ob("the original request path is stored on the copy before it is returned", len(on_path) == 1, fi, r.ast, detail="attribute stores on the copy: %s" % [a_ for a_, _ in stores])
        for attr, st in on_path:
            names.add(attr)
            val = resolve_at(fi, st.value, cfg.loc1(st))
            m = match("getattr(%s, $n, $dflt)" % req, val)
            ok = False
            if m is not None:
                ok = isinstance(m["n"], ast.Constant) and m["n"].value == attr and chain(m["dflt"]) == "%s.opt.uri_path" % req
            elif isinstance(val, ast.IfExp):
                mt = match("hasattr(%s, $n)" % req, val.test)
                ok = mt is not None and isinstance(mt["n"], ast.Constant) and mt["n"].value == attr and chain(val.body) == "%s.%s" % (req, attr) and chain(val.orelse) == "%s.opt.uri_path" % req
            ctx.ob("the stored value is the request's own %s if present (nested sites), else its full Uri-Path" % attr, ok, fi, st, detail="value: %s" % stmt_text(val, 90))
            # the value is taken before anything is stripped: it does not depend on the copy
            ctx.ob("the stored value does not depend on the stripped copy", cp.id not in names_in(val), fi, st)
    ctx.need(len(names) <= 1, "the two stripping arms store different attributes: %s" % sorted(names))
    # reader
    gfi = ctx.prog.func("message.Message.get_request_uri")
    gcfg = cfg_of(gfi)
    slots = urlunparse_slots(gfi)
    ctx.need(slots, "get_request_uri: no urlunparse call found")
    for attr in sorted(names):
        reads = [n for n in walk_no_nested(gfi.node) if isinstance(n, ast.Attribute) and n.attr == attr and isinstance(n.ctx, ast.Load)]
        ctx.ob("get_request_uri reads the attribute the Site stores (%s)" % attr, bool(reads), gfi, reads[0] if reads else gfi.node, construct="get_request_uri reads %s" % attr)
        for call, sl in slots:
            at = gcfg.loc1(call)
            ex = resolve_at(gfi, sl["path"], at)
            j = join_site(ctx.prog, gfi, ex)
            ctx.need(j is not None and isinstance(j[3], ast.Name), "get_request_uri: the path passed to urlunparse is not a join over a local")
            src = j[3].id
            jn = gcfg.loc1(ex)
            defs = [w for w in reaching_defs(gfi, src, jn) if w != PARAM]
            pref, fallback = [], []
            for w in defs:
                dv = def_value(w, src)
                if dv[0] != "expr":
                    continue
                if isinstance(dv[1], ast.Attribute) and dv[1].attr == attr:
                    pref.append((w, dv[1]))
                elif (chain(dv[1]) or "").endswith(".opt.uri_path"):
                    fallback.append((w, dv[1]))
            ctx.ob("the stored original path reaches the path component of the composed URI", bool(pref), gfi, ex)
            for w, val in pref:
                owner = chain(val.value)
                okg = guarded_by(gcfg, gcfg.loc1(w), "hasattr(%s, $n)" % owner, True, None) and any(
                    isinstance(m_["n"], ast.Constant) and m_["n"].value == attr for e_, pol in guard_exprs(gcfg, gcfg.loc1(w)) for m_ in [match("hasattr(%s, $n)" % owner, e_)] if m_ is not None and pol)
                ctx.ob("the attribute is used exactly when it is present (same name on writer and reader)", okg, gfi, w)
            for w, val in fallback:
                okf = any(m_ is not None and isinstance(m_["n"], ast.Constant) and m_["n"].value == attr and not pol for e_, pol in guard_exprs(gcfg, gcfg.loc1(w)) for m_ in [match("hasattr($o, $n)", e_)])
                ctx.ob("the (possibly stripped) Uri-Path option is used only when no original path is stored", okf, gfi, w)


# ---------------------------------------------------------------------------
# C17.f


@R.clause("C17.f", "the listing iterates exactly the two tables, skips a resource only when its description is None, prefixes nested links with the sub-site's path")
def f(ctx):
    fi = ctx.prog.func(SITE + "get_resources_as_linkheader")
    cfg = cfg_of(fi)
    # the listing is computed afresh from the two tables on every call: it must not read or keep any other
    # per-site state (a cached listing cannot notice changes made in a nested site)
    other_state = sorted({n.attr for n in ast.walk(fi.node) if isinstance(n, ast.Attribute) and isinstance(n.value, ast.Name) and n.value.id == "self" and n.attr not in TABLES and n.attr.startswith("_") and not n.attr.startswith("__")})
    first = next((n for n in ast.walk(fi.node) if isinstance(n, ast.Attribute) and isinstance(n.value, ast.Name) and n.value.id == "self" and n.attr in other_state), None)
    ctx.ob("the listing depends on no per-site state other than the two tables (nothing cached between calls)", not other_state, fi, first if first is not None else fi.node,
           construct="get_resources_as_linkheader state: %s" % (", ".join(other_state) or "tables only"))
    if other_state:
        return
    loops = [n for n in walk_no_nested(fi.node) if isinstance(n, (ast.For, ast.AsyncFor))]
    top = [l for l in loops if not any(o is not l and contains(o, l) for o in loops)]
    by_table = {}
    for l in top:
        m = match("self.$t.items()", l.iter)
        ctx.need(m is not None and m["t"] in TABLES and isinstance(l.target, ast.Tuple) and len(l.target.elts) == 2 and all(isinstance(x, ast.Name) for x in l.target.elts),
                 "get_resources_as_linkheader: top-level loop is not `for path, resource in self.<table>.items()`: `%s`" % stmt_text(l.iter, 60))
        by_table.setdefault(m["t"], []).append(l)
    for t in TABLES:
        ctx.ob("the listing iterates %s" % t, len(by_table.get(t, [])) == 1, fi, by_table[t][0] if by_table.get(t) else fi.node, construct="listing loop over %s" % t, detail="%d loop(s)" % len(by_table.get(t, [])))
    # result: LinkFormat(<the accumulated list>)
    rets = [n for n in walk_no_nested(fi.node) if isinstance(n, ast.Return)]
    ctx.need(len(rets) == 1 and rets[0].value is not None, "get_resources_as_linkheader: expected a single return")
    m = match("LinkFormat($acc)", rets[0].value)
    ctx.need(m is not None and isinstance(m["acc"], ast.Name), "get_resources_as_linkheader does not return LinkFormat(<local list>)")
    acc = m["acc"].id
    accdefs = writes_to_name(fi.node, acc)
    ctx.ob("the listing starts from an empty list", len(accdefs) == 1 and isinstance(accdefs[0], ast.Assign) and isinstance(accdefs[0].value, ast.List) and not accdefs[0].value.elts
           and not any(contains(l, accdefs[0]) for l in loops), fi, accdefs[0] if accdefs else fi.node)
    ctx.ob("the listing is complete when it returns (both loops run to exhaustion: no break/return inside them)",
           not any(isinstance(n, (ast.Break, ast.Return)) for l in top for n in walk_no_nested(l)), fi, rets[0])
    appends = [n for n, b_ in find("%s.append($x)" % acc, fi.node)]

    def slash_path(e, pathvar):
        """e == "/" + "/".join(pathvar) ?"""
        ops = plus_operands(e)
        if len(ops) != 2 or try_eval(ctx.prog, fi.module, ops[0]) != "/":
            return False
        mj = match("$s.join(%s)" % pathvar, ops[1])
        return mj is not None and try_eval(ctx.prog, fi.module, mj["s"]) == "/"

    # --- resources
    for l in by_table.get("_resources", []):
        pathv, resv = l.target.elts[0].id, l.target.elts[1].id
        hn = cfg.loc1(l)
        T = [d for d, lab in cfg.succ[hn] if lab == "T"][0]
        mine = [a_ for a_ in appends if contains(l, a_)]
        ctx.floor("appends in the _resources loop", len(mine), 1)
        an = [cfg.loc1(a_) for a_ in mine]
        # branch outcomes inside the loop on which the description is known to be None
        none_sides, other_sides = [], []
        for n in cfg.nodes:
            if n.kind in ("T", "F") and cfg.is_reachable(n.id) and n.id != T and isinstance(n.ast, ast.expr) and contains(l, n.ast):
                mm = match("$d is None", n.ast)
                mn = match("$d is not None", n.ast)
                dvar = None
                if mm is not None and isinstance(mm["d"], ast.Name):
                    dvar, is_none = mm["d"].id, n.kind == "T"
                elif mn is not None and isinstance(mn["d"], ast.Name):
                    dvar, is_none = mn["d"].id, n.kind == "F"
                if dvar is None:
                    other_sides.append(n)
                    continue
                tn = [x for x in cfg.locate(n.ast) if cfg.nodes[x].kind == "test"][0]
                vals = []
                for w in reaching_defs(fi, dvar, tn):
                    dv = def_value(w, dvar) if w != PARAM else (PARAM,)
                    if dv[0] == "expr" and isinstance(dv[1], ast.IfExp):
                        vals.extend([dv[1].body, dv[1].orelse])
                    else:
                        vals.append(dv[1] if dv[0] == "expr" else None)
                okd = bool(vals) and all(v is not None and (match("%s.get_link_description()" % resv, v) is not None or (isinstance(v, ast.Dict) and not v.keys)) for v in vals) \
                    and any(v is not None and match("%s.get_link_description()" % resv, v) is not None for v in vals)
                ctx.ob("the description tested for None is the resource's own get_link_description() (an absent method counts as {})", okd, fi, n.ast, construct="description source")
                if okd and is_none:
                    none_sides.append(n.id)
        ok = cfg.must_pass(T, an + none_sides, to=hn)
        ctx.ob("a resource is left out of the listing only when its link description is None", ok, fi, l, construct="skip condition of the _resources loop",
               detail="branch conditions in the loop: %s" % sorted({stmt_text(n.ast, 60) for n in other_sides}))
        ctx.ob("a resource whose description is None is not listed", bool(none_sides) and not any(a_ in cfg.reach({ns}, avoid={hn}) for ns in none_sides for a_ in an), fi, l, construct="None description hides the resource",
               detail="%d branch outcome(s) with a None description" % len(none_sides))
        for a_ in mine:
            x = resolve_at(fi, a_.args[0], cfg.loc1(a_))
            ml = match("Link($href, $*r, $**kw)", x)
            ctx.ob("a resource is listed under '/' + '/'.join(<its registered path>)", ml is not None and slash_path(resolve_at(fi, ml["href"], cfg.loc1(a_)), pathv), fi, a_, detail="link: %s" % stmt_text(x, 80))
    # --- sub-sites
    for l in by_table.get("_subsites", []):
        pathv, resv = l.target.elts[0].id, l.target.elts[1].id
        inner = [n for n in walk_no_nested(l) if isinstance(n, (ast.For, ast.AsyncFor)) and n is not l]
        ctx.need(len(inner) == 1 and isinstance(inner[0].target, ast.Name), "listing: expected one inner loop over the sub-site's links")
        il = inner[0]
        mi = match("%s.get_resources_as_linkheader().links" % resv, il.iter)
        ctx.ob("nested links are taken from the sub-site's own get_resources_as_linkheader()", mi is not None, fi, il.iter)
        lv = il.target.id
        mine = [a_ for a_ in appends if contains(il, a_)]
        ctx.floor("appends in the sub-site loop", len(mine), 1)
        ihn = cfg.loc1(il)
        iT = [d for d, lab in cfg.succ[ihn] if lab == "T"][0]
        ctx.ob("every link of a sub-site is listed", cfg.must_pass(iT, [cfg.loc1(a_) for a_ in mine], to=ihn) and not any(isinstance(n, (ast.Continue, ast.Break)) for n in walk_no_nested(il)), fi, il)
        for a_ in mine:
            x = resolve_at(fi, a_.args[0], cfg.loc1(a_))
            ml = match("Link($href, $*r, $**kw)", x)
            ok = False
            if ml is not None:
                ops = plus_operands(resolve_at(fi, ml["href"], cfg.loc1(a_)))
                ok = len(ops) == 3 and slash_path(ast.BinOp(left=ops[0], op=ast.Add(), right=ops[1]), pathv) and chain(ops[2]) == "%s.href" % lv
                ok = ok and len(ml["r"]) == 1 and chain(ml["r"][0]) == "%s.attr_pairs" % lv
            ctx.ob("a nested link is listed under the sub-site's path followed by its own href, with its attributes", ok, fi, a_, detail="link: %s" % stmt_text(x, 90))
        # a sub-site is skipped only when it cannot list itself
        gs = [(e_, pol) for e_, pol, pid in cfg.guards(ihn) if contains(l, e_) and not isinstance(e_, ast.stmt)]
        okg = all(pol and match("hasattr(%s, $n)" % resv, e_) is not None and match("hasattr(%s, $n)" % resv, e_)["n"].value == "get_resources_as_linkheader" for e_, pol in gs
                  if match("hasattr(%s, $n)" % resv, e_) is not None and isinstance(match("hasattr(%s, $n)" % resv, e_)["n"], ast.Constant)) and \
            all(match("hasattr(%s, $n)" % resv, e_) is not None for e_, pol in gs)
        ctx.ob("a sub-site is left out of the listing only when it offers no get_resources_as_linkheader", okg, fi, il, detail="conditions: %s" % [(stmt_text(e_, 60), pol) for e_, pol in gs], construct="sub-site listing condition")
    stray = [a_ for a_ in appends if not any(contains(l, a_) for l in top)]
    ctx.ob("nothing besides the registered resources and the sub-sites' links is listed", not stray, fi, stray[0] if stray else fi.node, construct="listing: stray entries")


# ---------------------------------------------------------------------------
# C17.g


def _closure_value(fnode, name, outer):
    """Does local/parameter `name` of nested function `fnode` denote the outer variable `outer`
    (default-argument capture `v=v` or plain closure)?"""
    a = fnode.args
    allargs = a.posonlyargs + a.args
    defaults = [None] * (len(allargs) - len(a.defaults)) + list(a.defaults)
    for arg, dflt in list(zip(allargs, defaults)) + list(zip(a.kwonlyargs, a.kw_defaults)):
        if arg.arg == name:
            return dflt is not None and isinstance(dflt, ast.Name) and dflt.id == outer
    return name == outer


@R.clause("C17.g", "RFC 6690 filter: k=v* is a prefix match, otherwise equality; rt/if/ct per space-separated token; href on the single value; an item without '=' is not a filter")
def g(ctx):
    fi = ctx.prog.func("resource.WKCResource.render_get")
    cfg = cfg_of(fi)
    p = params(fi)
    ctx.need(len(p) == 1, "WKCResource.render_get signature changed")
    req = p[0]
    loops = [n for n in walk_no_nested(fi.node) if isinstance(n, ast.For) and chain(n.iter) == "%s.opt.uri_query" % req and isinstance(n.target, ast.Name)]
    ctx.need(len(loops) == 1, "render_get: expected one loop over the request's Uri-Query items")
    loop = loops[0]
    q = loop.target.id
    hn = cfg.loc1(loop)
    # --- splitting
    splits = [(n, b_) for n, b_ in find("($k, $v) = %s.split($*a)" % q, loop)]
    ctx.need(len(splits) == 1 and all(isinstance(splits[0][1][x], ast.Name) for x in ("k", "v")), "render_get: expected `k, v = item.split('=', 1)`")
    sp, sb = splits[0]
    k, v = sb["k"].id, sb["v"].id
    sa = sb["a"]
    ctx.ob("a query item is split at its first '=' into key and value", len(sa) == 2 and try_eval(ctx.prog, fi.module, sa[0]) == "=" and try_eval(ctx.prog, fi.module, sa[1]) == 1 and not sp.value.keywords, fi, sp)
    sn = cfg.loc1(sp)
    hs = [d for d, lab in cfg.succ[sn] if lab == "exc" and cfg.nodes[d].kind == "handler"]
    appends = [n for n, b_ in find("$f.append($x)", loop)]
    ctx.floor("filter registrations in render_get", len(appends), 2)
    an = [cfg.loc1(a_) for a_ in appends]
    okh = False
    for d in hs:
        h = cfg.nodes[d].ast
        types = [] if h.type is None else (h.type.elts if isinstance(h.type, ast.Tuple) else [h.type])
        if h.type is None or any(ctx.prog.is_subclass("ValueError", ctx.prog.resolve_in_module(fi.module, chain(t) or "?")) for t in types):
            r = cfg.reach({d}, avoid={hn}, include_src=True)
            okh = not (set(an) & r) and cfg.exit not in r and not any(cfg.nodes[x].kind == "raise" for x in r)
            break
    ctx.ob("a query item without '=' registers no filter and does not fail the request", okh, fi, sp, construct="item without '='")
    # --- matcher: prefix for a trailing '*', equality otherwise
    defs = [n for n in walk_no_nested(loop) if isinstance(n, ast.FunctionDef)]
    lamdefs = [n for n in walk_no_nested(loop) if isinstance(n, ast.Assign) and isinstance(n.value, ast.Lambda) and len(n.targets) == 1 and isinstance(n.targets[0], ast.Name)]
    matchers = {}
    for n in defs:
        matchers.setdefault(n.name, []).append((n, n, [s for s in n.body if not (isinstance(s, ast.Expr) and isinstance(s.value, ast.Constant))]))
    for n in lamdefs:
        matchers.setdefault(n.targets[0].id, []).append((n, n.value, [ast.Return(value=n.value.body)]))
    cands = [(nm, ds) for nm, ds in matchers.items() if len(ds) == 2]
    ctx.need(len(cands) == 1, "render_get: expected one matcher defined in two variants (prefix / equality)")
    mname, variants = cands[0]
    seen = set()
    for stmt, fn, body in variants:
        ctx.need(len(body) == 1 and isinstance(body[0], ast.Return) and body[0].value is not None and len(fn.args.posonlyargs + fn.args.args) >= 1, "render_get: matcher variant is not a single return expression")
        x = (fn.args.posonlyargs + fn.args.args)[0].arg
        rv = body[0].value
        star = None
        for e_, pol in guard_exprs(cfg, cfg.loc1(stmt)):
            ms = match("%s.endswith($s)" % v, e_)
            if ms is not None and try_eval(ctx.prog, fi.module, ms["s"]) == "*":
                star = pol
        ctx.need(star is not None, "render_get: matcher variant is not selected by `value.endswith('*')`")
        if star:
            mp = match("%s.startswith($pre)" % x, rv)
            ok = False
            if mp is not None:
                sp_ = _slice_parts(mp["pre"])
                ok = sp_ is not None and isinstance(sp_[0], ast.Name) and _closure_value(fn, sp_[0].id, v) and sp_[1] is None and sp_[2] is not None and _cint(sp_[2]) == -1
            seen.add("prefix")
            ctx.ob("a value ending in '*' matches every attribute value that starts with the text before the '*'", ok, fi, stmt, detail="matcher: %s" % stmt_text(rv, 60), construct="matcher for 'v*': %s" % stmt_text(rv, 60))
        else:
            ok = False
            if isinstance(rv, ast.Compare) and len(rv.ops) == 1 and isinstance(rv.ops[0], ast.Eq):
                l, r = rv.left, rv.comparators[0]
                if isinstance(r, ast.Name) and r.id == x:
                    l, r = r, l
                ok = isinstance(l, ast.Name) and l.id == x and isinstance(r, ast.Name) and _closure_value(fn, r.id, v)
            seen.add("equal")
            ctx.ob("a value without trailing '*' matches by equality", ok, fi, stmt, detail="matcher: %s" % stmt_text(rv, 60), construct="matcher for 'v': %s" % stmt_text(rv, 60))
    ctx.ob("both matcher variants exist", seen == {"prefix", "equal"}, fi, loop, construct="matcher variants", detail=sorted(seen))
    ctx.ob("the value is not modified between splitting and matching", len(writes_to_name(fi.node, v)) == 1 and len(writes_to_name(fi.node, k)) == 1, fi, sp, construct="filter key/value re-bound")
    # --- per-attribute evaluation
    kinds = set()
    for a_ in appends:
        lam = a_.args[0] if a_.args else None
        ctx.need(isinstance(lam, ast.Lambda) and len(lam.args.args) == 1, "render_get: a registered filter is not a one-argument lambda")
        link = lam.args.args[0].arg
        body = lam.body
        keyset = None
        for e_, pol in guard_exprs(cfg, cfg.loc1(a_)):
            if isinstance(e_, ast.Compare) and len(e_.ops) == 1 and isinstance(e_.ops[0], ast.In) and isinstance(e_.left, ast.Name) and e_.left.id == k and pol:
                vals = try_eval(ctx.prog, fi.module, e_.comparators[0])
                if isinstance(vals, (tuple, list, set, frozenset)):
                    keyset = frozenset(vals)
        calls = [n for n in ast.walk(body) if isinstance(n, ast.Call) and isinstance(n.func, ast.Name) and n.func.id == mname]
        ctx.ob("a registered filter decides through the matcher", len(calls) == 1, fi, a_)
        if len(calls) != 1:
            continue
        arg = calls[0].args[0] if calls[0].args else None
        tokenwise = match("any(%s($part) for $part in $src.split($sp))" % mname, body)
        listwise = match("any(%s($part) for $part in getattr(%s, %s, $dflt))" % (mname, link, k), body)
        single = match("%s(getattr(%s, %s))" % (mname, link, k), body)
        if single is None:
            single = match("%s(getattr(%s, %s, $dflt))" % (mname, link, k), body)
        if keyset is not None and keyset == {"rt", "if", "ct"}:
            kinds.add("tokens")
            ok = tokenwise is not None and try_eval(ctx.prog, fi.module, tokenwise["sp"]) == " "
            if ok:
                mj = match("$j.join(getattr(%s, %s, $dflt))" % (link, k), tokenwise["src"])
                ok = mj is not None and try_eval(ctx.prog, fi.module, mj["j"]) == " "
            ctx.ob("rt / if / ct are matched per space-separated token of all values of the attribute", bool(ok), fi, a_, detail="filter: %s" % stmt_text(body, 100))
        elif keyset is not None and keyset == {"href"}:
            kinds.add("href")
            ctx.ob("href is matched on the link's single target value", single is not None, fi, a_, detail="filter: %s" % stmt_text(body, 100))
        elif keyset is None:
            kinds.add("other")
            ctx.ob("any other attribute matches if one of its values matches", listwise is not None, fi, a_, detail="filter: %s" % stmt_text(body, 100))
        else:
            ctx.ob("the attribute classes of the filter are {rt, if, ct}, {href} and the rest", False, fi, a_, detail="class %s" % sorted(keyset))
    ctx.ob("the filter distinguishes token-valued attributes, href and other attributes", kinds == {"tokens", "href", "other"}, fi, loop, construct="filter attribute classes", detail=sorted(kinds))
    # --- application: every registered filter is applied to the listing
    m = [n for n, b_ in find("$l.links = filter($f.pop(), $l.links)", fi.node)]
    okw = False
    for n in m:
        par = cfg.parent.get(id(n))
        if isinstance(par, ast.While) and isinstance(par.test, ast.Name) and match("%s.append($x)" % par.test.id, appends[0]) is not None:
            okw = cfg.dominates(cfg.loc1(par), [x for x in cfg.nodes if x.kind == "return" and cfg.is_reachable(x.id)][0].id)
    ctx.ob("every registered filter is applied to the listing before it is rendered", okw, fi, m[0] if m else fi.node, construct="filter application loop")
    ctx.note("observation (not a clause): the filter lambdas capture the key and the matcher by late binding; with two filter items both closures use the last pair (RFC 6690 defines a single filter item)")


# ---------------------------------------------------------------------------
F_R = "aiocoap/resource.py"
F_M = "aiocoap/message.py"

EXACT = "        if request.opt.uri_path in self._resources:\n            stripped = request.copy(uri_path=())\n            stripped._original_request_path = original_request_path\n            return self._resources[request.opt.uri_path], stripped\n\n"
EMPTY = "        if not request.opt.uri_path:\n            raise KeyError()\n\n"
# C17.a
R.seed("C17.a", F_R, EXACT + EMPTY, EMPTY + EXACT, "empty-path check first: a root resource registered at () is never found")
R.seed("C17.a", F_R, "            return self._resources[request.opt.uri_path], stripped\n", "            return self._resources[request.opt.uri_path[:1]], stripped\n", "wrong key on the hit side")
R.seed("C17.a", F_R, "        if request.opt.uri_path in self._resources:\n            stripped = request.copy(uri_path=())", "        if request.opt.uri_path in self._resources and request.opt.uri_path[:-1] not in self._subsites:\n            stripped = request.copy(uri_path=())", "sub-sites searched before resources win")
R.seed("C17.a", F_R, "            stripped._original_request_path = original_request_path\n            return self._resources[request.opt.uri_path], stripped\n", "            stripped._original_request_path = original_request_path\n", "exact match falls through into the prefix search")
LOOP = ("        remainder = [request.opt.uri_path[-1]]\n        path = request.opt.uri_path[:-1]\n        while path:\n            if path in self._subsites:\n                res = self._subsites[path]\n"
        "                if remainder == [\"\"]:\n                    # sub-sites should see their root resource like sites\n                    remainder = []\n"
        "                stripped = request.copy(uri_path=remainder)\n                stripped._original_request_path = original_request_path\n                return res, stripped\n"
        "            remainder.insert(0, path[-1])\n            path = path[:-1]\n")
R.seed("C17.a", F_R, EXACT + EMPTY + LOOP + "        raise KeyError()\n",
       "        if request.opt.uri_path:\n    " + LOOP.replace("\n        ", "\n            ").rstrip(" ") + "\n" + EXACT + "        raise KeyError()\n", "sub-sites searched before resources")
# C17.b
R.seed("C17.b", F_R, "        path = request.opt.uri_path[:-1]\n        while path:", "        path = request.opt.uri_path\n        while path:", "the full path is tried as a sub-site prefix (not a proper prefix; invariant broken)")
R.seed("C17.b", F_R, "            remainder.insert(0, path[-1])\n            path = path[:-1]\n", "            path = path[:-1]\n            remainder.insert(0, path[-1])\n", "element read after shortening")
R.seed("C17.b", F_R, "            path = path[:-1]\n        raise KeyError()", "            path = path[:-2]\n        raise KeyError()", "prefix lengths skipped")
R.seed("C17.b", F_R, "            remainder.insert(0, path[-1])\n", "            remainder.insert(0, path[0])\n", "wrong element prepended")
R.seed("C17.b", F_R, "                if remainder == [\"\"]:\n                    # sub-sites should see their root resource like sites\n                    remainder = []\n", "", "[\"\"] mapping dropped")
R.seed("C17.b", F_R, "                if remainder == [\"\"]:", "                if remainder == (\"\",):", "list compared with a tuple: mapping never fires")
R.seed("C17.b", F_R, "                stripped = request.copy(uri_path=remainder)\n                stripped._original_request_path = original_request_path\n                return res, stripped\n", "                stripped = request.copy(uri_path=remainder)\n                stripped._original_request_path = original_request_path\n                best = res, stripped\n", "loop does not stop at the first (longest) match")
R.seed("C17.b", F_R, "            path = path[:-1]\n        raise KeyError()", "            path = path[:-1]\n        raise ValueError()", "exhaustion not signalled by KeyError")
R.seed("C17.b", F_R, "        remainder = [request.opt.uri_path[-1]]\n        path = request.opt.uri_path[:-1]\n        while path:\n            if path in self._subsites:", "        remainder = [request.opt.uri_path[-1]]\n        path = request.opt.uri_path[:1]\n        while path:\n            if path in self._subsites:", "shortest prefix first")
# C17.c
R.seed("C17.c", F_R, "        try:\n            child, subrequest = self._find_child_and_pathstripped_message(request)\n        except KeyError:\n            raise error.NotFound()\n", "        try:\n            child, subrequest = self._find_child_and_pathstripped_message(request)\n        except KeyError:\n            raise error.MethodNotAllowed()\n", "unknown path answered 4.05")
R.seed("C17.c", F_R, "        except KeyError:\n            return True\n", "        except IndexError:\n            return True\n", "KeyError leaves needs_blockwise_assembly")
R.seed("C17.c", F_R, "                request.request\n            )\n        except KeyError:\n            raise error.NotFound()\n", "                request.request\n            )\n        except KeyError:\n            return\n", "render_to_pipe silently ignores unknown paths")
# C17.d
R.seed("C17.d", F_R, "        try:\n            del self._subsites[tuple(path)]\n        except KeyError:\n            del self._resources[tuple(path)]\n", "        del self._subsites[tuple(path)]\n", "remove_resource only deletes sub-sites")
R.seed("C17.d", F_R, "        if isinstance(resource, PathCapable):\n            self._subsites[tuple(path)] = resource", "        if not isinstance(resource, PathCapable):\n            self._subsites[tuple(path)] = resource", "tables swapped")
R.seed("C17.d", F_R, "        else:\n            self._resources[tuple(path)] = resource", "        else:\n            self._resources[path] = resource", "unhashable / unequal key")
R.seed("C17.d", F_R, "        if request.opt.uri_path in self._resources:\n            stripped = request.copy(uri_path=())\n            stripped._original_request_path = original_request_path\n            return self._resources[request.opt.uri_path], stripped\n",
       "        if not hasattr(self, \"_table\"):\n            self._table = dict(self._resources)\n        if request.opt.uri_path in self._resources:\n            stripped = request.copy(uri_path=())\n            stripped._original_request_path = original_request_path\n            return self._table[request.opt.uri_path], stripped\n", "lookup through a cached copy of the table")
R.seed("C17.d", F_R, "            raise error.NotFound()\n        else:\n            return await child.render(subrequest)\n", "            raise error.NotFound()\n        else:\n            self._resources.pop(request.opt.uri_path, None)\n            return await child.render(subrequest)\n", "foreign writer of the table")
# C17.e
R.seed("C17.e", F_R, "                stripped = request.copy(uri_path=remainder)\n                stripped._original_request_path = original_request_path\n", "                stripped = request.copy(uri_path=remainder)\n", "sub-site arm forgets the original path")
R.seed("C17.e", F_M, "            if hasattr(self, \"_original_request_path\"):", "            if hasattr(self, \"_original_path\"):", "reader uses a different attribute name")
R.seed("C17.e", F_R, "            request,\n            \"_original_request_path\",\n            request.opt.uri_path,\n        )", "            request,\n            \"_original_request_path\",\n            request.opt.uri_path[1:],\n        )", "default is not the full path")
R.seed("C17.e", F_R, "            stripped = request.copy(uri_path=())\n            stripped._original_request_path = original_request_path\n", "            stripped = request.copy(uri_path=())\n            stripped._original_request_path = stripped.opt.uri_path\n", "stores the stripped path")
# C17.f
R.seed("C17.f", F_R, "            if details is None:\n                continue\n", "            if not details:\n                continue\n", "resources whose description is {} are hidden")
R.seed("C17.f", F_R, "            lh = Link(\"/\" + \"/\".join(path), **details)\n", "            lh = Link(\"/\".join(path), **details)\n", "leading slash lost")
R.seed("C17.f", F_R, "                        Link(\"/\" + \"/\".join(path) + link.href, link.attr_pairs)", "                        Link(link.href, link.attr_pairs)", "nested links not prefixed with the sub-site's path")
R.seed("C17.f", F_R, "        for path, resource in self._subsites.items():\n            if hasattr(resource, \"get_resources_as_linkheader\"):", "        for path, resource in self._resources.items():\n            if hasattr(resource, \"get_resources_as_linkheader\"):", "sub-sites never listed")
# C17.g
R.seed("C17.g", F_R, "                    return x.startswith(v[:-1])", "                    return x.startswith(v)", "the '*' itself is part of the prefix")
R.seed("C17.g", F_R, "                    return x == v\n", "                    return x in v\n", "substring instead of equality")
R.seed("C17.g", F_R, "            if k in (\"rt\", \"if\", \"ct\"):", "            if k in (\"rt\", \"if\"):", "ct no longer token-wise")
R.seed("C17.g", F_R, "            except ValueError:\n                continue  # no =, not a relevant filter", "            except ValueError:\n                k, v = q, \"\"", "item without '=' becomes a filter")
R.seed("C17.g", F_R, "                filters.append(lambda link: matchexp(getattr(link, k)))", "                filters.append(lambda link: any(matchexp(c) for c in getattr(link, k)))", "href matched per character")


R.seed("C17.f", "aiocoap/resource.py", "    def get_resources_as_linkheader(self):\n        links = []\n", "    def get_resources_as_linkheader(self):\n        if getattr(self, \"_links_cache\", None) is not None:\n            return LinkFormat(list(self._links_cache))\n        links = []\n", "cached listing: changes in nested sites are not seen")

R.seed("C17.b", "aiocoap/resource.py", "        remainder = [request.opt.uri_path[-1]]\n        path = request.opt.uri_path[:-1]\n", "        remainder = [request.opt.uri_path[-1]]\n        if remainder == [\"\"]:\n            remainder = []\n        path = request.opt.uri_path[:-1]\n", "trailing-slash normalisation hoisted before the loop: /a/dir/ below a sub-site at /a reaches ['dir'] instead of ['dir','']")
